import WindVerif.Model.BuffersFail
import WindVerif.Proofs.Buffers
/-! `PrintBuffer` with an output stream that can fail: nothing is lost (C15). -/
namespace WindVerif.Buffers

/-! ### `write` -/

theorem write_ok {ok : Nat → Bool} {s : PBufF} (x : Nat) (h : ok s.att = true) :
    s.write ok x = ({ s with out := s.out ++ [x], att := s.att + 1 }, true) := by
  simp [PBufF.write, h]

theorem write_fail {ok : Nat → Bool} {s : PBufF} (x : Nat) (h : ok s.att = false) :
    s.write ok x = ({ s with att := s.att + 1 }, false) := by
  simp [PBufF.write, h]

/-! ### The invariant: the serials taken so far are exactly the written ones (`outS`, in output order) and the stored ones,
each once.  It does not mention `waiting_for` (nor the attempt counter). -/

structure GInv (f : Nat → Nat) (taken outS : List Nat) (buf : Store) (out : List Nat) : Prop where
  nd : taken.Nodup
  out_eq : out = outS.map f
  perm : taken.Perm (outS ++ keys buf)
  val : ∀ i x, (i, x) ∈ buf → x = f i

namespace GInv
variable {f : Nat → Nat} {taken outS : List Nat} {buf : Store} {out : List Nat}

theorem nd' (h : GInv f taken outS buf out) : (outS ++ keys buf).Nodup := h.perm.nodup h.nd

theorem keys_nd (h : GInv f taken outS buf out) : (keys buf).Nodup := (List.nodup_append.1 h.nd').2.1

theorem outS_nd (h : GInv f taken outS buf out) : outS.Nodup := (List.nodup_append.1 h.nd').1

theorem disjoint (h : GInv f taken outS buf out) {i : Nat} (h1 : i ∈ outS) (h2 : i ∈ keys buf) : False :=
  (List.nodup_append.1 h.nd').2.2 i h1 i h2 rfl

theorem mem_taken (h : GInv f taken outS buf out) {i : Nat} : i ∈ taken ↔ i ∈ outS ∨ i ∈ keys buf := by
  rw [h.perm.mem_iff, List.mem_append]

theorem empty (f : Nat → Nat) : GInv f [] [] [] [] :=
  ⟨by simp, by simp, by simp [keys], by intro i x hx; simp at hx⟩

theorem nodup_snoc (h : GInv f taken outS buf out) {sn : Nat} (hsn : sn ∉ taken) : (taken ++ [sn]).Nodup := by
  rw [List.nodup_append]; refine ⟨h.nd, by simp, ?_⟩
  intro a ha c hc; simp at hc; subst hc; rintro rfl; exact hsn ha

/-- `self._buffer[serial_number] = value` for a fresh serial -/
theorem store (h : GInv f taken outS buf out) {sn : Nat} (hsn : sn ∉ taken) :
    GInv f (taken ++ [sn]) outS (sSet buf sn (f sn)) out := by
  have hk : sn ∉ keys buf := fun hk => hsn (h.mem_taken.2 (.inr hk))
  refine ⟨h.nodup_snoc hsn, h.out_eq, ?_, ?_⟩
  · simp only [sSet, sDel_eq_self hk, keys, List.map_cons]
    refine List.Perm.trans ?_ List.perm_middle.symm
    exact List.Perm.trans List.perm_append_comm (List.Perm.cons _ h.perm)
  · intro j y hy
    simp only [sSet, sDel_eq_self hk, List.mem_cons] at hy
    rcases hy with hy | hy
    · cases hy; rfl
    · exact h.val j y hy

/-- the value of a fresh serial is written directly -/
theorem own (h : GInv f taken outS buf out) {sn : Nat} (hsn : sn ∉ taken) :
    GInv f (taken ++ [sn]) (outS ++ [sn]) buf (out ++ [f sn]) := by
  refine ⟨h.nodup_snoc hsn, by simp [h.out_eq], ?_, h.val⟩
  rw [List.append_assoc, List.singleton_append]
  refine List.Perm.trans ?_ List.perm_middle.symm
  exact List.Perm.trans List.perm_append_comm (List.Perm.cons _ h.perm)

/-- a stored value is written and then deleted -/
theorem move (h : GInv f taken outS buf out) {k x : Nat} (hm : (k, x) ∈ buf) :
    GInv f taken (outS ++ [k]) (sDel buf k) (out ++ [x]) := by
  have hxf := h.val _ _ hm
  have hk : k ∈ keys buf := BufInv.mem_keys_iff.1 ⟨x, hm⟩
  have hp := keys_perm_sDel h.keys_nd hk
  refine ⟨h.nd, by simp [h.out_eq, hxf], ?_, ?_⟩
  · rw [List.append_assoc, List.singleton_append]
    exact h.perm.trans (List.Perm.append_left _ hp)
  · intro j y hy; exact h.val j y (mem_sDel.1 hy).1

theorem key_ge (h : GInv f taken (List.range w) buf out) {i : Nat} (hi : i ∈ keys buf) : w ≤ i :=
  Nat.le_of_not_lt fun hlt => h.disjoint (List.mem_range.2 hlt) hi

theorem len_eq (h : GInv f taken outS buf out) : buf.length = taken.length - outS.length := by
  have := h.perm.length_eq
  simp [keys] at this
  omega

end GInv

theorem sDel_length_lt_of_mem {s : Store} {i x : Nat} (hm : (i, x) ∈ s) : (sDel s i).length < s.length := by
  unfold sDel
  induction s with
  | nil => simp at hm
  | cons p s ih =>
    rw [List.filter_cons]
    split
    · rename_i hp
      rcases List.mem_cons.1 hm with e | e
      · subst e; simp at hp
      · have := ih e
        simp only [List.length_cons]; omega
    · simp only [List.length_cons]
      exact Nat.lt_succ_of_le (List.length_filter_le _ _)

theorem sDel_length_lt {s : Store} {i x : Nat} (h : sGet s i = some x) : (sDel s i).length < s.length :=
  sDel_length_lt_of_mem (sGet_some_mem h)

/-! ### The `while` loop of `print` -/

theorem chaseF_inv {ok : Nat → Bool} {f : Nat → Nat} {taken : List Nat} (fuel : Nat) (s : PBufF) (outS : List Nat)
    (h : GInv f taken outS s.buffer s.out) :
    s.wf ≤ (PBufF.chaseF ok fuel s).1.wf ∧
    GInv f taken (outS ++ List.range' s.wf ((PBufF.chaseF ok fuel s).1.wf - s.wf))
      (PBufF.chaseF ok fuel s).1.buffer (PBufF.chaseF ok fuel s).1.out := by
  induction fuel generalizing s outS with
  | zero => simpa [PBufF.chaseF] using h
  | succ fuel ih =>
    unfold PBufF.chaseF
    split
    · simpa using h
    · rename_i x hx
      cases hok : ok s.att
      · rw [write_fail x hok]
        simpa using h
      · rw [write_ok x hok]
        have h2 := h.move (sGet_some_mem hx)
        obtain ⟨hle, hinv⟩ := ih ⟨⟨sDel s.buffer s.wf, s.wf + 1, s.out ++ [x]⟩, s.att + 1⟩
          (outS ++ [s.wf]) h2
        simp only at hle hinv ⊢
        refine ⟨by omega, ?_⟩
        generalize (PBufF.chaseF ok fuel _).1 = r at hle hinv ⊢
        have e : r.wf - s.wf = (r.wf - (s.wf + 1)) + 1 := by omega
        rw [e, List.range'_succ]
        simpa using hinv

/-- the fuel given by `printF` suffices: when the loop ends without an exception its condition is false -/
theorem chaseF_fuel {ok : Nat → Bool} (fuel : Nat) (s : PBufF) (hf : s.buffer.length < fuel)
    (hr : (PBufF.chaseF ok fuel s).2 = .ok ()) :
    sGet (PBufF.chaseF ok fuel s).1.buffer (PBufF.chaseF ok fuel s).1.wf = none := by
  induction fuel generalizing s with
  | zero => omega
  | succ fuel ih =>
    cases hx : sGet s.buffer s.wf with
    | none => simp only [PBufF.chaseF, hx]
    | some x =>
      cases hok : ok s.att
      · simp [PBufF.chaseF, hx, write_fail x hok] at hr
      · simp only [PBufF.chaseF, hx, write_ok x hok] at hr ⊢
        have := sDel_length_lt hx
        exact ih _ (by simp only; omega) hr

/-! ### `print` -/

/-- a refused call raises and has changed nothing but the attempt counter -/
theorem printF_refused {ok : Nat → Bool} {s : PBufF} {sn : Nat} (x : Nat) (h : refuses ok s sn = true) :
    s.printF ok sn x = ({ s with att := s.att + 1 }, .error ()) := by
  simp only [refuses, Bool.and_eq_true, beq_iff_eq, Bool.not_eq_true'] at h
  simp [PBufF.printF, h.1, write_fail x h.2]

theorem printF_store {ok : Nat → Bool} {s : PBufF} {sn : Nat} (x : Nat) (h : sn ≠ s.wf) :
    s.printF ok sn x = ({ s with buffer := sSet s.buffer sn x }, .ok false) := by
  simp [PBufF.printF, h]

theorem printF_own {ok : Nat → Bool} {s : PBufF} {sn : Nat} (x : Nat) (hsn : sn = s.wf) (hok : ok s.att = true) :
    (s.printF ok sn x).1 =
      (PBufF.chaseF ok (s.buffer.length + 1) ⟨⟨s.buffer, s.wf + 1, s.out ++ [x]⟩, s.att + 1⟩).1 ∧
    (s.printF ok sn x).2 =
      (match (PBufF.chaseF ok (s.buffer.length + 1) ⟨⟨s.buffer, s.wf + 1, s.out ++ [x]⟩, s.att + 1⟩).2 with
       | .ok () => .ok true
       | .error () => .error ()) := by
  simp only [PBufF.printF, hsn, if_true, write_ok x hok]
  rcases PBufF.chaseF ok (s.buffer.length + 1) ⟨⟨s.buffer, s.wf + 1, s.out ++ [x]⟩, s.att + 1⟩ with ⟨s2, (_ | _)⟩ <;>
    exact ⟨rfl, rfl⟩

theorem range_append_range' (w k : Nat) : List.range w ++ w :: List.range' (w + 1) k = List.range (w + 1 + k) := by
  rw [List.range_eq_range', List.range_eq_range', ← List.range'_succ]
  have := List.range'_append_1 (s := 0) (m := w) (n := k + 1)
  simp only [Nat.zero_add] at this
  rw [this]; congr 1; omega

/-- a `print` call that is not refused takes its value: it is written or stored; the written serials grow at the end, and
as long as they are `0 … waiting_for-1` in order they stay so -/
theorem printF_inv {ok : Nat → Bool} {f : Nat → Nat} {taken outS : List Nat} {s : PBufF} {sn : Nat}
    (h : GInv f taken outS s.buffer s.out) (hsn : sn ∉ taken) (hr : refuses ok s sn = false) :
    ∃ outS', GInv f (taken ++ [sn]) outS' (s.printF ok sn (f sn)).1.buffer (s.printF ok sn (f sn)).1.out ∧
      outS <+: outS' ∧ (outS = List.range s.wf → outS' = List.range (s.printF ok sn (f sn)).1.wf) := by
  by_cases hw : sn = s.wf
  · have hok : ok s.att = true := by
      simpa [refuses, hw] using hr
    obtain ⟨e1, -⟩ := printF_own (f sn) hw hok
    rw [e1]
    have h1 := h.own hsn
    obtain ⟨hle, hinv⟩ := chaseF_inv (ok := ok) (s.buffer.length + 1)
      ⟨⟨s.buffer, s.wf + 1, s.out ++ [f sn]⟩, s.att + 1⟩ (outS ++ [sn]) h1
    simp only at hle hinv
    generalize (PBufF.chaseF ok (s.buffer.length + 1) _).1 = r at hle hinv ⊢
    refine ⟨_, hinv, ⟨_, by rw [List.append_assoc]⟩, ?_⟩
    intro e
    rw [e, hw, List.append_assoc, List.singleton_append, range_append_range']
    congr 1; omega
  · rw [printF_store _ hw]
    exact ⟨outS, h.store hsn, List.prefix_refl _, fun e => e⟩

/-! ### `flush` -/

theorem perm_sDel_tail {k v : Nat} {r buf : Store} (hp : ((k, v) :: r).Perm buf) (hnd : (keys buf).Nodup) :
    r.Perm (sDel buf k) := by
  have h1 := hp.filter (fun p => decide (p.1 ≠ k))
  have hk : (keys ((k, v) :: r)).Nodup := (hp.map Prod.fst).nodup_iff.2 hnd
  have hk' : k ∉ keys r := by
    simp only [keys, List.map_cons, List.nodup_cons] at hk
    exact hk.1
  have h2 : ((k, v) :: r).filter (fun p => decide (p.1 ≠ k)) = r := by
    rw [List.filter_cons]
    simp only [ne_eq, not_true_eq_false, decide_false, Bool.false_eq_true, if_false]
    rw [List.filter_eq_self]
    intro p hp'; simp only [decide_eq_true_eq]; rintro rfl
    exact hk' (List.mem_map.2 ⟨p, hp', rfl⟩)
  rw [h2] at h1
  exact h1

theorem flushLoop_cons_fail {ok : Nat → Bool} {s : PBufF} (k v : Nat) (r : Store) (last : Int) (hok : ok s.att = false) :
    PBufF.flushLoop ok ((k, v) :: r) s last = ({ s with att := s.att + 1 }, (k : Int), false) := by
  simp only [PBufF.flushLoop, write_fail v hok]

theorem flushLoop_cons_ok {ok : Nat → Bool} {s : PBufF} (k v : Nat) (r : Store) (last : Int) (hok : ok s.att = true) :
    PBufF.flushLoop ok ((k, v) :: r) s last =
      PBufF.flushLoop ok r ⟨⟨sDel s.buffer k, s.wf, s.out ++ [v]⟩, s.att + 1⟩ (k : Int) := by
  simp only [PBufF.flushLoop, write_ok v hok]

theorem flushLoop_inv {ok : Nat → Bool} {f : Nat → Nat} {taken : List Nat} (l : Store) (s : PBufF) (last : Int)
    (outS : List Nat) (h : GInv f taken outS s.buffer s.out) (hp : l.Perm s.buffer) :
    (PBufF.flushLoop ok l s last).1.wf = s.wf ∧
    ∃ outS', GInv f taken outS' (PBufF.flushLoop ok l s last).1.buffer (PBufF.flushLoop ok l s last).1.out ∧
      outS <+: outS' ∧
      ((PBufF.flushLoop ok l s last).2.2 = true →
        (PBufF.flushLoop ok l s last).1.buffer = [] ∧ outS' = outS ++ l.map (·.1)) := by
  induction l generalizing s last outS with
  | nil =>
    refine ⟨rfl, outS, h, List.prefix_refl _, fun _ => ⟨?_, by simp⟩⟩
    simpa [PBufF.flushLoop] using hp.symm.eq_nil
  | cons p r ih =>
    obtain ⟨k, v⟩ := p
    cases hok : ok s.att
    · rw [flushLoop_cons_fail k v r last hok]
      exact ⟨rfl, outS, h, List.prefix_refl _, by simp⟩
    · rw [flushLoop_cons_ok k v r last hok]
      have hm : (k, v) ∈ s.buffer := hp.mem_iff.1 (by simp)
      obtain ⟨hw, outS', hinv, hpre, hfin⟩ := ih ⟨⟨sDel s.buffer k, s.wf, s.out ++ [v]⟩, s.att + 1⟩ (k : Int)
        (outS ++ [k]) (h.move hm) (perm_sDel_tail hp h.keys_nd)
      refine ⟨hw, outS', hinv, ?_, ?_⟩
      · exact (List.prefix_append outS [k]).trans hpre
      · intro hr
        obtain ⟨hb, ho⟩ := hfin hr
        exact ⟨hb, by rw [ho]; simp⟩

/-- when the stream works from now on, the loop runs to its end -/
theorem flushLoop_all_ok {ok : Nat → Bool} (l : Store) (s : PBufF) (last : Int)
    (hok : ∀ n, s.att ≤ n → ok n = true) : (PBufF.flushLoop ok l s last).2.2 = true := by
  induction l generalizing s last with
  | nil => rfl
  | cons p r ih =>
    obtain ⟨k, v⟩ := p
    simp only [PBufF.flushLoop, write_ok v (hok _ (Nat.le_refl _))]
    exact ih _ _ (fun n hn => hok n (by simp only at hn; omega))

/-- the Python variable `serial_number` after a complete loop: the last (= biggest) key, or the initial value -/
theorem flushLoop_last {ok : Nat → Bool} (l : Store) (s : PBufF) (last : Int)
    (hr : (PBufF.flushLoop ok l s last).2.2 = true) :
    (PBufF.flushLoop ok l s last).2.1 = (match l.getLast? with | none => last | some p => (p.1 : Int)) := by
  induction l generalizing s last with
  | nil => rfl
  | cons p r ih =>
    obtain ⟨k, v⟩ := p
    cases hok : ok s.att
    · simp [PBufF.flushLoop, write_fail v hok] at hr
    · simp only [PBufF.flushLoop, write_ok v hok] at hr ⊢
      rw [ih _ _ hr]
      cases r with
      | nil => rfl
      | cons q r =>
        rw [List.getLast?_cons_cons]
        cases hg : (q :: r).getLast? with
        | none => simp at hg
        | some p => rfl

theorem flushF_eq (ok : Nat → Bool) (s : PBufF) :
    s.flushF ok =
      (match PBufF.flushLoop ok (s.buffer.mergeSort (fun p q => decide (p.1 ≤ q.1))) s ((s.wf : Int) - 1) with
       | (s1, _, false) => (s1, .error ())
       | (s1, last, true) => ({ s1 with wf := (last + 1).toNat }, .ok ())) := rfl

/-- the sorted entries: a permutation of the buffer with strictly ascending keys -/
theorem sorted_spec (buf : Store) (hk : (keys buf).Nodup) :
    (buf.mergeSort (fun p q => decide (p.1 ≤ q.1))).Perm buf ∧
    (keys (buf.mergeSort (fun p q => decide (p.1 ≤ q.1)))).Pairwise (· < ·) := by
  have hperm := List.mergeSort_perm buf (fun p q => decide (p.1 ≤ q.1))
  have hsorted : (buf.mergeSort (fun p q => decide (p.1 ≤ q.1))).Pairwise (fun p q => p.1 ≤ q.1) := by
    have := List.pairwise_mergeSort (le := fun (p q : Nat × Nat) => decide (p.1 ≤ q.1))
      (by intro a b c; simp only [decide_eq_true_eq]; omega)
      (by intro a b; simp only [Bool.or_eq_true, decide_eq_true_eq]; omega) buf
    exact this.imp (by simp)
  have hnd : (keys (buf.mergeSort (fun p q => decide (p.1 ≤ q.1)))).Nodup := (hperm.map _).symm.nodup hk
  refine ⟨hperm, ?_⟩
  have h1 : (keys (buf.mergeSort (fun p q => decide (p.1 ≤ q.1)))).Pairwise (· ≤ ·) := by
    unfold keys; rw [List.pairwise_map]; exact hsorted
  exact (h1.and hnd).imp (by intro a b; omega)

/-- `flush` with any oracle keeps the invariant; when it does not raise, the buffer is empty and everything taken has been
written: first what had been written before, then the stored values in ascending serial order -/
theorem flushF_inv {ok : Nat → Bool} {f : Nat → Nat} {taken outS : List Nat} {s : PBufF}
    (h : GInv f taken outS s.buffer s.out) :
    ∃ outS', GInv f taken outS' (s.flushF ok).1.buffer (s.flushF ok).1.out ∧ outS <+: outS' ∧
      ((s.flushF ok).2 = .ok () →
        (s.flushF ok).1.buffer = [] ∧
        outS' = outS ++ keys (s.buffer.mergeSort (fun p q => decide (p.1 ≤ q.1)))) := by
  obtain ⟨hperm, -⟩ := sorted_spec s.buffer h.keys_nd
  obtain ⟨-, outS', hinv, hpre, hfin⟩ := flushLoop_inv (ok := ok) _ s ((s.wf : Int) - 1) outS h hperm
  rw [flushF_eq]
  rcases hfl : PBufF.flushLoop ok (s.buffer.mergeSort (fun p q => decide (p.1 ≤ q.1))) s ((s.wf : Int) - 1)
    with ⟨s1, last, (_ | _)⟩
  · rw [hfl] at hinv
    exact ⟨outS', hinv, hpre, by simp⟩
  · rw [hfl] at hinv hfin
    exact ⟨outS', hinv, hpre, fun _ => hfin rfl⟩

theorem flushF_all_ok {ok : Nat → Bool} (s : PBufF) (hok : ∀ n, s.att ≤ n → ok n = true) :
    (s.flushF ok).2 = .ok () := by
  have := flushLoop_all_ok (s.buffer.mergeSort (fun p q => decide (p.1 ≤ q.1))) s ((s.wf : Int) - 1) hok
  rw [flushF_eq]
  rcases hfl : PBufF.flushLoop ok (s.buffer.mergeSort (fun p q => decide (p.1 ≤ q.1))) s ((s.wf : Int) - 1)
    with ⟨s1, last, (_ | _)⟩
  · rw [hfl] at this; simp at this
  · rfl

/-! ### Histories -/

instance decFresh (ok : Nat → Bool) (f : Nat → Nat) : (g : GSt) → (evs : List EvF) → Decidable (Fresh ok f g evs)
  | _, [] => isTrue trivial
  | g, .print sn :: r =>
    have := decFresh ok f (stepG ok f g (.print sn)) r
    inferInstanceAs (Decidable (sn ∉ g.taken ∧ Fresh ok f (stepG ok f g (.print sn)) r))
  | g, .flush :: r => decFresh ok f (stepG ok f g .flush) r

instance (evs : List EvF) : Decidable (noFlush evs) := inferInstanceAs (Decidable (∀ e ∈ evs, e ≠ EvF.flush))

theorem runG_cons (ok : Nat → Bool) (f : Nat → Nat) (g : GSt) (e : EvF) (r : List EvF) :
    runG ok f g (e :: r) = runG ok f (stepG ok f g e) r := rfl

theorem runG_append (ok : Nat → Bool) (f : Nat → Nat) (g : GSt) (e1 e2 : List EvF) :
    runG ok f g (e1 ++ e2) = runG ok f (runG ok f g e1) e2 := by
  simp [runG, List.foldl_append]

theorem stepG_print_refused {ok : Nat → Bool} {f : Nat → Nat} {g : GSt} {sn : Nat} (h : refuses ok g.st sn = true) :
    stepG ok f g (.print sn) = ⟨{ g.st with att := g.st.att + 1 }, g.taken, g.refused ++ [sn]⟩ := by
  simp only [stepG, h, if_true, printF_refused (f sn) h]

theorem stepG_print_taken {ok : Nat → Bool} {f : Nat → Nat} {g : GSt} {sn : Nat} (h : refuses ok g.st sn = false) :
    stepG ok f g (.print sn) = ⟨(g.st.printF ok sn (f sn)).1, g.taken ++ [sn], g.refused⟩ := by
  simp [stepG, h]

theorem stepG_inv {ok : Nat → Bool} {f : Nat → Nat} {g : GSt} {outS : List Nat}
    (h : GInv f g.taken outS g.st.buffer g.st.out) (e : EvF) (hfresh : ∀ sn, e = .print sn → sn ∉ g.taken) :
    ∃ outS', GInv f (stepG ok f g e).taken outS' (stepG ok f g e).st.buffer (stepG ok f g e).st.out ∧
      outS <+: outS' ∧
      (e ≠ .flush → outS = List.range g.st.wf → outS' = List.range (stepG ok f g e).st.wf) := by
  cases e with
  | print sn =>
    cases hr : refuses ok g.st sn
    · rw [stepG_print_taken hr]
      obtain ⟨outS', h1, h2, h3⟩ := printF_inv h (hfresh sn rfl) hr
      exact ⟨outS', h1, h2, fun _ => h3⟩
    · rw [stepG_print_refused hr]
      exact ⟨outS, h, List.prefix_refl _, fun _ e => e⟩
  | flush =>
    obtain ⟨outS', h1, h2, -⟩ := flushF_inv (ok := ok) h
    exact ⟨outS', h1, h2, fun hne => absurd rfl hne⟩

theorem runG_inv {ok : Nat → Bool} {f : Nat → Nat} (evs : List EvF) (g : GSt) (outS : List Nat)
    (h : GInv f g.taken outS g.st.buffer g.st.out) (hf : Fresh ok f g evs) :
    ∃ outS', GInv f (runG ok f g evs).taken outS' (runG ok f g evs).st.buffer (runG ok f g evs).st.out ∧
      outS <+: outS' ∧
      (noFlush evs → outS = List.range g.st.wf → outS' = List.range (runG ok f g evs).st.wf) := by
  induction evs generalizing g outS with
  | nil => exact ⟨outS, h, List.prefix_refl _, fun _ e => e⟩
  | cons e r ih =>
    have hfr : (∀ sn, e = .print sn → sn ∉ g.taken) ∧ Fresh ok f (stepG ok f g e) r := by
      cases e with
      | print sn => exact ⟨fun sn' e' => by cases e'; exact hf.1, hf.2⟩
      | flush => exact ⟨fun sn' e' => (by cases e'), hf⟩
    obtain ⟨o1, h1, p1, q1⟩ := stepG_inv (ok := ok) h e hfr.1
    obtain ⟨o2, h2, p2, q2⟩ := ih (stepG ok f g e) o1 h1 hfr.2
    refine ⟨o2, h2, p1.trans p2, ?_⟩
    intro hn ho
    exact q2 (fun e' he' => hn e' (List.mem_cons_of_mem _ he')) (q1 (hn e (by simp)) ho)

theorem taken_subset {ok : Nat → Bool} {f : Nat → Nat} (g : GSt) (e : EvF) :
    ∀ i ∈ (stepG ok f g e).taken, i ∈ g.taken ∨ e = .print i := by
  intro i hi
  cases e with
  | print sn =>
    cases hr : refuses ok g.st sn
    · rw [stepG_print_taken hr] at hi
      rcases List.mem_append.1 hi with h | h
      · exact .inl h
      · simp at h; subst h; exact .inr rfl
    · rw [stepG_print_refused hr] at hi; exact .inl hi
  | flush => exact .inl hi

/-- unique serial numbers (the docstring's demand) make every `print` call fresh -/
theorem fresh_of_nodup_aux {ok : Nat → Bool} {f : Nat → Nat} (evs : List EvF) (g : GSt)
    (hd : ∀ i ∈ g.taken, i ∉ printed evs) (hnd : (printed evs).Nodup) : Fresh ok f g evs := by
  induction evs generalizing g with
  | nil => trivial
  | cons e r ih =>
    cases e with
    | print sn =>
      simp only [printed, List.nodup_cons] at hnd
      refine ⟨fun hm => hd sn hm (by simp [printed]), ih _ ?_ hnd.2⟩
      intro i hi
      rcases taken_subset g _ i hi with h | h
      · exact fun hm => hd i h (by simp [printed, hm])
      · cases h; exact hnd.1
    | flush =>
      exact ih _ (fun i hi => by simpa [printed] using hd i hi) (by simpa [printed] using hnd)

theorem fresh_of_nodup (ok : Nat → Bool) (f : Nat → Nat) (evs : List EvF) (hnd : (printed evs).Nodup) :
    Fresh ok f GSt.init evs :=
  fresh_of_nodup_aux evs GSt.init (by intro i hi; simp [GSt.init] at hi) hnd

/-- every `print` call has either taken its value or refused it -/
theorem taken_refused_perm {ok : Nat → Bool} {f : Nat → Nat} (evs : List EvF) (g : GSt) :
    ((runG ok f g evs).taken ++ (runG ok f g evs).refused).Perm (g.taken ++ g.refused ++ printed evs) := by
  induction evs generalizing g with
  | nil => simp [runG, printed]
  | cons e r ih =>
    rw [runG_cons]
    refine (ih _).trans ?_
    cases e with
    | print sn =>
      cases hr : refuses ok g.st sn
      · rw [stepG_print_taken hr]
        simp only [printed, List.append_assoc, List.singleton_append]
        refine List.Perm.append_left _ ?_
        exact List.perm_middle.symm
      · rw [stepG_print_refused hr]
        simp [printed]
    | flush => simp [stepG, printed]

theorem runG_init_inv (ok : Nat → Bool) (f : Nat → Nat) (evs : List EvF) (hf : Fresh ok f GSt.init evs) :
    ∃ outS, GInv f (runG ok f GSt.init evs).taken outS (runG ok f GSt.init evs).st.buffer
        (runG ok f GSt.init evs).st.out ∧
      (noFlush evs → outS = List.range (runG ok f GSt.init evs).st.wf) := by
  obtain ⟨o, h, -, q⟩ := runG_inv (ok := ok) evs GSt.init [] (GInv.empty f) hf
  exact ⟨o, h, fun hn => q hn rfl⟩

/-! ### A stream that never fails: the old model -/

theorem chaseF_allOk (fuel : Nat) (s : PBufF) :
    (PBufF.chaseF (fun _ => true) fuel s).1.toPBuf = PBuf.chase fuel s.toPBuf ∧
    (PBufF.chaseF (fun _ => true) fuel s).2 = .ok () := by
  induction fuel generalizing s with
  | zero => exact ⟨rfl, rfl⟩
  | succ fuel ih =>
    cases hx : sGet s.buffer s.wf with
    | none => simp [PBufF.chaseF, PBuf.chase, hx]
    | some x =>
      simp only [PBufF.chaseF, PBuf.chase, hx, write_ok (ok := fun _ => true) x rfl]
      exact ih _

theorem printF_allOk (s : PBufF) (sn x : Nat) :
    (s.printF (fun _ => true) sn x).1.toPBuf = (s.toPBuf.print sn x).1 ∧
    (s.printF (fun _ => true) sn x).2 = .ok (s.toPBuf.print sn x).2 := by
  by_cases hw : sn = s.wf
  · obtain ⟨e1, e2⟩ := printF_own (ok := fun _ => true) x hw rfl
    obtain ⟨c1, c2⟩ := chaseF_allOk (s.buffer.length + 1) ⟨⟨s.buffer, s.wf + 1, s.out ++ [x]⟩, s.att + 1⟩
    rw [e1, e2, c1, c2]
    simp [PBuf.print, hw]
  · rw [printF_store x hw]
    simp [PBuf.print, hw]

theorem flushLoop_allOk (l : Store) (s : PBufF) (last : Int) :
    (PBufF.flushLoop (fun _ => true) l s last).1.out = s.out ++ l.map (·.2) ∧
    (∀ j y, (j, y) ∈ (PBufF.flushLoop (fun _ => true) l s last).1.buffer ↔ ((j, y) ∈ s.buffer ∧ j ∉ keys l)) := by
  induction l generalizing s last with
  | nil => simp [PBufF.flushLoop, keys]
  | cons p r ih =>
    obtain ⟨k, v⟩ := p
    rw [flushLoop_cons_ok (ok := fun _ => true) k v r last rfl]
    obtain ⟨h1, h2⟩ := ih ⟨⟨sDel s.buffer k, s.wf, s.out ++ [v]⟩, s.att + 1⟩ (k : Int)
    refine ⟨by rw [h1]; simp, ?_⟩
    intro j y
    rw [h2]
    simp only [mem_sDel, keys, List.map_cons, List.mem_cons, not_or]
    constructor
    · rintro ⟨⟨a, b⟩, c⟩; exact ⟨a, b, c⟩
    · rintro ⟨a, b, c⟩; exact ⟨⟨a, b⟩, c⟩

theorem flushF_allOk (s : PBufF) :
    (s.flushF (fun _ => true)).1.toPBuf = s.toPBuf.flush ∧ (s.flushF (fun _ => true)).2 = .ok () := by
  have hperm := List.mergeSort_perm s.buffer (fun p q => decide (p.1 ≤ q.1))
  have hflag := flushLoop_all_ok (ok := fun _ => true) (s.buffer.mergeSort (fun p q => decide (p.1 ≤ q.1))) s
    ((s.wf : Int) - 1) (fun _ _ => rfl)
  have hlast := flushLoop_last (ok := fun _ => true) _ s ((s.wf : Int) - 1) hflag
  obtain ⟨hout, hmem⟩ := flushLoop_allOk (s.buffer.mergeSort (fun p q => decide (p.1 ≤ q.1))) s ((s.wf : Int) - 1)
  have hfl : s.toPBuf.flush = match (s.buffer.mergeSort (fun p q => decide (p.1 ≤ q.1))).getLast? with
      | none => s.toPBuf
      | some last => ⟨[], last.1 + 1, s.out ++ (s.buffer.mergeSort (fun p q => decide (p.1 ≤ q.1))).map (·.2)⟩ := rfl
  rw [flushF_eq, hfl]
  generalize s.buffer.mergeSort (fun p q => decide (p.1 ≤ q.1)) = sorted at *
  have hempty : (PBufF.flushLoop (fun _ => true) sorted s ((s.wf : Int) - 1)).1.buffer = [] := by
    rw [List.eq_nil_iff_forall_not_mem]
    rintro ⟨j, y⟩ hjy
    obtain ⟨h1, h2⟩ := (hmem j y).1 hjy
    exact h2 (List.mem_map.2 ⟨(j, y), hperm.mem_iff.2 h1, rfl⟩)
  rcases hr : PBufF.flushLoop (fun _ => true) sorted s ((s.wf : Int) - 1) with ⟨s1, last, (_ | _)⟩
  · rw [hr] at hflag; simp at hflag
  · rw [hr] at hlast hout hempty
    simp only at hlast hout hempty ⊢
    refine ⟨?_, by trivial⟩
    obtain ⟨⟨b1, w1, o1⟩, a1⟩ := s1
    simp only at hlast hout hempty ⊢
    subst hempty hout hlast
    cases hg : sorted.getLast? with
    | none =>
      have : sorted = [] := List.getLast?_eq_none_iff.1 hg
      subst this
      have hb : s.buffer = [] := hperm.symm.eq_nil
      obtain ⟨⟨b0, w0, o0⟩, a0⟩ := s
      simp only at hb ⊢
      subst hb
      simp
    | some p => simp

/-! ### The property theorems -/

/-- Nothing is lost, in the general form: no `print` call for a serial whose value has already been taken (calling again after
a refusal is allowed), any failure oracle, `flush` calls anywhere.  `outS` are the serials of the written values in output
order: the serials taken are exactly the written ones and the stored ones, each once; every `print` call has either taken its
value or refused it (raised at its first write, state unchanged — `printF_refused`). -/
theorem nothing_lost_retry (ok : Nat → Bool) (f : Nat → Nat) (evs : List EvF) (hf : Fresh ok f GSt.init evs) :
    let g := runG ok f GSt.init evs
    ∃ outS : List Nat,
      g.st.out = outS.map f ∧
      g.taken.Nodup ∧ g.taken.Perm (outS ++ g.st.buffer.map (·.1)) ∧
      (∀ i x, (i, x) ∈ g.st.buffer → x = f i) ∧
      (g.taken ++ g.refused).Perm (printed evs) := by
  obtain ⟨outS, h, -⟩ := runG_init_inv ok f evs hf
  refine ⟨outS, h.out_eq, h.nd, h.perm, h.val, ?_⟩
  simpa [GSt.init] using taken_refused_perm (ok := ok) (f := f) evs GSt.init

/-- Nothing is lost: every serial number fed at most once, any failure oracle, `flush` calls anywhere.  Every serial of a `print`
call is in exactly one of three places, exactly once: among the written values (`outS`, the serials in output order), in the
buffer (with its value), or refused (that call raised at its first write and changed nothing, the caller still has the value). -/
theorem nothing_lost (ok : Nat → Bool) (f : Nat → Nat) (evs : List EvF) (hnd : (printed evs).Nodup) :
    let g := runG ok f GSt.init evs
    ∃ outS : List Nat,
      g.st.out = outS.map f ∧
      (outS ++ g.st.buffer.map (·.1) ++ g.refused).Perm (printed evs) ∧
      (∀ i x, (i, x) ∈ g.st.buffer → x = f i) ∧
      (∀ i, i ∈ printed evs →
        outS.count i + (g.st.buffer.map (·.1)).count i + g.refused.count i = 1) ∧
      (∀ i, i ∈ g.refused → i ∉ g.taken) := by
  obtain ⟨outS, h1, -, h3, h4, h5⟩ := nothing_lost_retry ok f evs (fresh_of_nodup ok f evs hnd)
  have hp : (outS ++ (runG ok f GSt.init evs).st.buffer.map (·.1) ++ (runG ok f GSt.init evs).refused).Perm
      (printed evs) := (List.Perm.append_right _ h3.symm).trans h5
  refine ⟨outS, h1, hp, h4, ?_, ?_⟩
  · intro i hi
    have hc := hp.count_eq i
    rw [List.count_append, List.count_append] at hc
    have h1 := List.nodup_iff_count.1 hnd i
    have h2 := List.count_pos_iff.2 hi
    omega
  · intro i hr ht
    have := (List.nodup_append.1 (h5.symm.nodup hnd)).2.2 i ht i hr
    exact this rfl

/-- While no `flush` has been called, the output is the values of serials `0 … waiting_for-1` in order, failures included;
everything below `waiting_for` has been taken, the buffer holds exactly the taken serials from `waiting_for` on (after a failed
write inside `print` this includes `waiting_for` itself: that value is held until `flush`). -/
theorem output_in_order_until_flush (ok : Nat → Bool) (f : Nat → Nat) (evs : List EvF)
    (hf : Fresh ok f GSt.init evs) (hn : noFlush evs) :
    let g := runG ok f GSt.init evs
    g.st.out = (List.range g.st.wf).map f ∧
    (∀ j, j < g.st.wf → j ∈ g.taken) ∧
    (∀ i, (∃ x, (i, x) ∈ g.st.buffer) ↔ (i ∈ g.taken ∧ g.st.wf ≤ i)) ∧
    (∀ i x, (i, x) ∈ g.st.buffer → x = f i) ∧
    g.st.len = g.taken.length - g.st.wf := by
  obtain ⟨outS, h, ho⟩ := runG_init_inv ok f evs hf
  have e := ho hn
  subst e
  refine ⟨h.out_eq, fun j hj => h.mem_taken.2 (.inl (List.mem_range.2 hj)), ?_, h.val, ?_⟩
  · intro i
    rw [BufInv.mem_keys_iff, h.mem_taken]
    constructor
    · intro hi; exact ⟨.inr hi, h.key_ge hi⟩
    · rintro ⟨h1 | h1, h2⟩
      · have := List.mem_range.1 h1; omega
      · exact h1
  · have := h.len_eq
    simpa [PBufF.len] using this

/-- Recovery: when the stream works from some point on, one `flush` does not raise, empties the buffer, and the output then
contains the value of every serial taken exactly once (`outS`: the serials in output order; what had been written stays in front);
without an earlier `flush` the output is in ascending serial order. -/
theorem recovery (ok : Nat → Bool) (f : Nat → Nat) (evs : List EvF) (hf : Fresh ok f GSt.init evs)
    (hok : ∀ n, (runG ok f GSt.init evs).st.att ≤ n → ok n = true) :
    let g := runG ok f GSt.init evs
    let r := g.st.flushF ok
    r.2 = .ok () ∧ r.1.buffer = [] ∧
    ∃ outS : List Nat, r.1.out = outS.map f ∧ outS.Perm g.taken ∧ g.taken.Nodup ∧
      (∃ rest, r.1.out = g.st.out ++ rest) ∧
      (noFlush evs → outS.Pairwise (· < ·)) := by
  obtain ⟨outS, h, ho⟩ := runG_init_inv ok f evs hf
  have hres := flushF_all_ok _ hok
  obtain ⟨outS', h', hpre, hfin⟩ := flushF_inv (ok := ok) h
  obtain ⟨hb, hoS⟩ := hfin hres
  intro g r
  refine ⟨hres, hb, outS', h'.out_eq, ?_, h.nd, ?_, ?_⟩
  · have := h'.perm
    rw [hb] at this
    simpa [keys] using this.symm
  · obtain ⟨t, ht⟩ := hpre
    refine ⟨t.map f, ?_⟩
    rw [h'.out_eq, h.out_eq, ← ht, List.map_append]
  · intro hn
    have e := ho hn
    subst e
    obtain ⟨hperm, hlt⟩ := sorted_spec g.st.buffer h.keys_nd
    rw [hoS, List.pairwise_append]
    refine ⟨List.pairwise_lt_range, hlt, ?_⟩
    intro a ha b hb'
    have hb2 : b ∈ keys g.st.buffer := (hperm.map Prod.fst).mem_iff.1 hb'
    have := h.key_ge hb2
    have := List.mem_range.1 ha
    omega

/-- With a stream that never fails the new functions are the old `print` / `flush`. -/
theorem agrees_when_ok (s : PBufF) (sn x : Nat) :
    (s.printF (fun _ => true) sn x).1.toPBuf = (s.toPBuf.print sn x).1 ∧
    (s.printF (fun _ => true) sn x).2 = .ok (s.toPBuf.print sn x).2 ∧
    (s.flushF (fun _ => true)).1.toPBuf = s.toPBuf.flush ∧
    (s.flushF (fun _ => true)).2 = .ok () ∧
    s.clear.toPBuf = s.toPBuf.clear :=
  ⟨(printF_allOk s sn x).1, (printF_allOk s sn x).2, (flushF_allOk s).1, (flushF_allOk s).2, rfl⟩

/-- the histories of the old theorem `printbuffer_in_order` are the special case -/
theorem runG_allOk (f : Nat → Nat) (sns : List Nat) (g : GSt) :
    (runG (fun _ => true) f g (sns.map .print)).st.toPBuf = runP f g.st.toPBuf sns ∧
    (runG (fun _ => true) f g (sns.map .print)).taken = g.taken ++ sns := by
  induction sns generalizing g with
  | nil => simp [runG, runP]
  | cons sn r ih =>
    rw [List.map_cons, runG_cons]
    have hr : refuses (fun _ => true) g.st sn = false := by simp [refuses]
    rw [stepG_print_taken hr]
    obtain ⟨h1, h2⟩ := ih ⟨(g.st.printF (fun _ => true) sn (f sn)).1, g.taken ++ [sn], g.refused⟩
    refine ⟨?_, by rw [h2]; simp⟩
    rw [h1]
    simp only [runP]
    rw [(printF_allOk g.st sn (f sn)).1]

/-- The ALTERNATIVE statement order (delete and count first, write afterwards) loses a value: serial 1 is stored, then serial 0
arrives; its own write (attempt 0) succeeds, the write of the stored value (attempt 1) fails.  The value 101 of serial 1 is
then neither in the output nor held, and `waiting_for` has passed it; the real order keeps it. -/
theorem delete_before_write_loses :
    let ok : Nat → Bool := fun n => n != 1
    let s1 := (PBufF.empty.printF' ok 1 101).1
    let r := s1.printF' ok 0 100
    let r0 := ((PBufF.empty.printF ok 1 101).1).printF ok 0 100
    s1.buffer = [(1, 101)] ∧
    r.2.toOption = none ∧ r.1.out = [100] ∧ r.1.buffer = [] ∧ r.1.wf = 2 ∧
    101 ∉ r.1.out ∧ 101 ∉ r.1.buffer.map (·.2) ∧
    r0.2.toOption = none ∧ r0.1.out = [100] ∧ r0.1.buffer = [(1, 101)] ∧ r0.1.wf = 1 := by
  dsimp only; decide

end WindVerif.Buffers
