import WindVerif.Model.TmpPoolRefuse
import WindVerif.Proofs.TmpPool
/-! Theorems about `TmpPool` when removals are refused or interrupted (C20, model `Model/TmpPoolRefuse.lean`). -/
namespace WindVerif.TmpPoolRefuse
open WindVerif.TmpPool

/-- the invariant of `Proofs/TmpPool.lean` on the pool (one shared list object, no path listed twice, every existing file is
listed); nothing is required of the protected paths -/
def InvR (s : PoolR) : Prop := Inv s.pool

/-! ### the loop of `flush()` -/

theorem filter_ne_filter (fs : List Path) (p : Path) (r : List Path) :
    (fs.filter (· ≠ p)).filter (fun x => !r.contains x) = fs.filter (fun x => !(p :: r).contains x) := by
  rw [List.filter_filter]
  apply List.filter_congr
  intro x _
  by_cases hx : x = p
  · simp [hx]
  · simp [hx]

theorem filter_nil_contains (fs : List Path) : fs.filter (fun x => !([] : List Path).contains x) = fs :=
  List.filter_eq_self.mpr (by simp)

theorem flushWalk_cons_refused {prot fs : List Path} {p : Path} (r : List Path) (h : p ∈ prot ∧ p ∈ fs) :
    flushWalk prot fs (p :: r) = (fs, false) := by
  simp [flushWalk, h.1, h.2]

theorem flushWalk_cons_next {prot fs : List Path} {p : Path} (r : List Path) (h : ¬ (p ∈ prot ∧ p ∈ fs)) :
    flushWalk prot fs (p :: r) = flushWalk prot (fs.filter (· ≠ p)) r := by
  have : (prot.contains p && fs.contains p) = false := by
    cases h1 : prot.contains p <;> cases h2 : fs.contains p <;> simp_all
  simp only [flushWalk, this, Bool.false_eq_true, if_false]

/-- no listed file is protected and existing: the loop runs to its end and deletes every listed file -/
theorem flushWalk_ok (prot : List Path) (l fs : List Path) (h : ∀ x ∈ l, ¬ (x ∈ prot ∧ x ∈ fs)) :
    flushWalk prot fs l = (fs.filter (fun x => !l.contains x), true) := by
  induction l generalizing fs with
  | nil => simp only [flushWalk, filter_nil_contains]
  | cons p r ih =>
    rw [flushWalk_cons_next r (h p (by simp)), ih, filter_ne_filter]
    intro x hx hh
    exact h x (by simp [hx]) ⟨hh.1, (List.mem_filter.mp hh.2).1⟩

/-- the loop ran to its end: every listed file is deleted -/
theorem flushWalk_true {prot l fs fs' : List Path} (h : flushWalk prot fs l = (fs', true)) :
    fs' = fs.filter (fun x => !l.contains x) := by
  induction l generalizing fs with
  | nil => simp only [flushWalk, Prod.mk.injEq, and_true] at h; rw [filter_nil_contains, h]
  | cons p r ih =>
    by_cases hc : p ∈ prot ∧ p ∈ fs
    · rw [flushWalk_cons_refused r hc] at h; simp at h
    · rw [flushWalk_cons_next r hc] at h
      rw [ih h, filter_ne_filter]

/-- the loop was left at a refused `os.remove`: the listed paths before it are not both protected and existing, they are
deleted, nothing else is; the refused path is protected and exists (before and after) -/
theorem flushWalk_false {prot l fs fs' : List Path} (h : flushWalk prot fs l = (fs', false)) :
    ∃ pre q post, l = pre ++ q :: post ∧ q ∈ prot ∧ q ∈ fs ∧ q ∈ fs' ∧ (∀ x ∈ pre, ¬ (x ∈ prot ∧ x ∈ fs)) ∧
      fs' = fs.filter (fun x => !pre.contains x) := by
  induction l generalizing fs with
  | nil => simp [flushWalk] at h
  | cons p r ih =>
    by_cases hc : p ∈ prot ∧ p ∈ fs
    · rw [flushWalk_cons_refused r hc] at h
      have : fs' = fs := by simpa using h.symm
      subst this
      exact ⟨[], p, r, rfl, hc.1, hc.2, hc.2, by simp, (filter_nil_contains _).symm⟩
    · rw [flushWalk_cons_next r hc] at h
      obtain ⟨pre, q, post, hl, hq1, hq2, hq3, hpre, hfs⟩ := ih h
      refine ⟨p :: pre, q, post, by simp [hl], hq1, (List.mem_filter.mp hq2).1, hq3, ?_, ?_⟩
      · intro x hx hh
        rcases List.mem_cons.mp hx with rfl | hx
        · exact hc hh
        · by_cases hxp : x = p
          · exact hc (hxp ▸ hh)
          · exact hpre x hx ⟨hh.1, List.mem_filter.mpr ⟨hh.2, by simpa using hxp⟩⟩
      · rw [hfs, filter_ne_filter]

/-! ### the calls -/

theorem refuses_iff (s : PoolR) (p : Path) : s.refuses p = true ↔ p ∈ s.prot ∧ p ∈ s.pool.fs := by
  simp [PoolR.refuses]

theorem removeR_none {s : PoolR} {pid : Nat} (h : s.pool.listOf pid = none) (p : Path) :
    removeR s pid p = (s, .badProcess) := by
  simp only [removeR, h]

theorem removeR_some {s : PoolR} {pid : Nat} {l : List Path} (h : s.pool.listOf pid = some l) (p : Path) :
    removeR s pid p =
      if s.refuses p then (s, .refused)
      else if l.contains p then
        ({ s with pool := ({ s.pool with fs := s.pool.fs.filter (· ≠ p) } : Pool).setList pid (l.erase p) }, .ok)
      else ({ s with pool := { s.pool with fs := s.pool.fs.filter (· ≠ p) } }, .valueError) := by
  simp only [removeR, h]

theorem flushR_none {s : PoolR} {pid : Nat} (h : s.pool.listOf pid = none) : flushR s pid = (s, .badProcess) := by
  simp only [flushR, h]

theorem flushR_true {s : PoolR} {pid : Nat} {l fs' : List Path} (h : s.pool.listOf pid = some l)
    (hw : flushWalk s.prot s.pool.fs l = (fs', true)) :
    flushR s pid = ({ s with pool := ({ s.pool with fs := fs' } : Pool).setList pid [] }, .ok) := by
  simp only [flushR, h, hw]

theorem flushR_false {s : PoolR} {pid : Nat} {l fs' : List Path} (h : s.pool.listOf pid = some l)
    (hw : flushWalk s.prot s.pool.fs l = (fs', false)) :
    flushR s pid = ({ s with pool := { s.pool with fs := fs' } }, .refused) := by
  simp only [flushR, h, hw]

/-- `remove(p)` is refused exactly when a process that exists asks for a protected existing file -/
theorem removeR_refused_iff (s : PoolR) (pid : Nat) (p : Path) :
    (removeR s pid p).2 = .refused ↔ s.pool.listOf pid ≠ none ∧ p ∈ s.prot ∧ p ∈ s.pool.fs := by
  rw [← refuses_iff]
  cases hl : s.pool.listOf pid with
  | none => simp [removeR_none hl]
  | some l =>
    rw [removeR_some hl]
    by_cases hr : s.refuses p = true
    · simp [hr]
    · by_cases hc : l.contains p = true
      · simp only [hr, hc, Bool.false_eq_true, if_false, if_true]; simp
      · simp only [hr, hc, Bool.false_eq_true, if_false]; simp

/-- `remove(p)` refused: nothing changed, the file still exists -/
theorem refused_remove_keeps (s : PoolR) (pid : Nat) (p : Path) (h : (removeR s pid p).2 = .refused) :
    (removeR s pid p).1 = s ∧ p ∈ s.prot ∧ p ∈ s.pool.fs := by
  obtain ⟨hl, hr⟩ := (removeR_refused_iff s pid p).mp h
  refine ⟨?_, hr⟩
  cases hl' : s.pool.listOf pid with
  | none => exact absurd hl' hl
  | some l => simp [removeR_some hl', (refuses_iff s p).mpr hr]

/-- when `os.remove` is not refused, `removeR` is `Pool.remove` (an unlisted path: `ValueError`, the file is gone anyway) -/
theorem removeR_not_refused (s : PoolR) (pid : Nat) (p : Path) (h : ¬ (p ∈ s.prot ∧ p ∈ s.pool.fs)) :
    removeR s pid p =
      match s.pool.remove pid p with
      | .ok s' => ({ s with pool := s' }, .ok)
      | .error .valueError => ({ s with pool := s.pool.unlink p }, .valueError)
      | .error .badProcess => (s, .badProcess) := by
  have hr : s.refuses p = false := by
    rw [← refuses_iff] at h; simpa using h
  cases hl : s.pool.listOf pid with
  | none => simp only [removeR_none hl, Pool.remove, hl]
  | some l =>
    rw [removeR_some hl]
    by_cases hc : l.contains p = true
    · simp only [hr, Bool.false_eq_true, if_false, hc, if_true, Pool.remove, hl]
    · simp only [hr, Bool.false_eq_true, if_false, hc, Pool.remove, hl, Pool.unlink]

/-- the state after `removeR` is the old one or the one `applyOp` of `Proofs/TmpPool.lean` gives -/
theorem removeR_pool (s : PoolR) (pid : Nat) (p : Path) :
    (removeR s pid p).1.prot = s.prot ∧
      ((removeR s pid p).1.pool = s.pool ∨ (removeR s pid p).1.pool = applyOp s.pool (.remove pid p)) := by
  by_cases h : p ∈ s.prot ∧ p ∈ s.pool.fs
  · by_cases hl : s.pool.listOf pid = none
    · simp [removeR_none hl]
    · have := (removeR_refused_iff s pid p).mpr ⟨hl, h⟩
      rw [(refused_remove_keeps s pid p this).1]
      exact ⟨rfl, Or.inl rfl⟩
  · rw [removeR_not_refused s pid p h]
    simp only [applyOp]
    cases s.pool.remove pid p with
    | ok s' => exact ⟨rfl, Or.inr rfl⟩
    | error e => cases e <;> first | exact ⟨rfl, Or.inr rfl⟩ | exact ⟨rfl, Or.inl rfl⟩

theorem createR_pool (s : PoolR) (pid : Nat) :
    (createR s pid).1.prot = s.prot ∧ (createR s pid).1.pool = applyOp s.pool (.create pid) := by
  simp only [createR, applyOp]
  cases s.pool.create pid with
  | ok r => exact ⟨rfl, rfl⟩
  | error e => cases e <;> exact ⟨rfl, rfl⟩

theorem forkR_pool (s : PoolR) (pid : Nat) :
    (forkR s pid).1.prot = s.prot ∧ (forkR s pid).1.pool = applyOp s.pool (.fork pid) := by
  simp only [forkR, applyOp]
  cases s.pool.fork pid with
  | ok r => exact ⟨rfl, rfl⟩
  | error e => cases e <;> exact ⟨rfl, rfl⟩

/-- no listed file is protected and existing: `flushR` is `Pool.flush` -/
theorem flushR_not_refused (s : PoolR) (pid : Nat)
    (h : ∀ l, s.pool.listOf pid = some l → ∀ x ∈ l, ¬ (x ∈ s.prot ∧ x ∈ s.pool.fs)) :
    flushR s pid =
      match s.pool.flush pid with
      | .ok s' => ({ s with pool := s' }, .ok)
      | .error _ => (s, .badProcess) := by
  cases hl : s.pool.listOf pid with
  | none => simp only [flushR_none hl, Pool.flush, hl]
  | some l => simp only [flushR_true hl (flushWalk_ok s.prot l s.pool.fs (h l hl)), Pool.flush, hl]

/-- nothing is protected: the calls are those of `Model/TmpPool.lean` -/
theorem flushR_noprot (s : PoolR) (pid : Nat) (h : s.prot = []) :
    flushR s pid = match s.pool.flush pid with | .ok s' => ({ s with pool := s' }, .ok) | .error _ => (s, .badProcess) :=
  flushR_not_refused s pid (by simp [h])

theorem removeR_noprot (s : PoolR) (pid : Nat) (p : Path) (h : s.prot = []) :
    removeR s pid p =
      match s.pool.remove pid p with
      | .ok s' => ({ s with pool := s' }, .ok)
      | .error .valueError => ({ s with pool := s.pool.unlink p }, .valueError)
      | .error .badProcess => (s, .badProcess) :=
  removeR_not_refused s pid p (by simp [h])

/-- the three ways `flushR` ends -/
theorem flushR_cases (s : PoolR) (pid : Nat) :
    (s.pool.listOf pid = none ∧ flushR s pid = (s, .badProcess)) ∨
    (∃ l fs', s.pool.listOf pid = some l ∧ flushWalk s.prot s.pool.fs l = (fs', true) ∧
      flushR s pid = ({ s with pool := ({ s.pool with fs := fs' } : Pool).setList pid [] }, .ok)) ∨
    (∃ l fs', s.pool.listOf pid = some l ∧ flushWalk s.prot s.pool.fs l = (fs', false) ∧
      flushR s pid = ({ s with pool := { s.pool with fs := fs' } }, .refused)) := by
  cases hl : s.pool.listOf pid with
  | none => exact Or.inl ⟨rfl, flushR_none hl⟩
  | some l =>
    cases hw : flushWalk s.prot s.pool.fs l with
    | mk fs' b =>
      cases b with
      | true => exact Or.inr (Or.inl ⟨l, fs', rfl, hw, flushR_true hl hw⟩)
      | false => exact Or.inr (Or.inr ⟨l, fs', rfl, hw, flushR_false hl hw⟩)

/-- `flush()` ended normally: it did what `Pool.flush` does -/
theorem flushR_ok (s : PoolR) (pid : Nat) (h : (flushR s pid).2 = .ok) :
    ∃ s', s.pool.flush pid = .ok s' ∧ (flushR s pid).1 = { s with pool := s' } := by
  rcases flushR_cases s pid with ⟨_, he⟩ | ⟨l, fs', hl, hw, he⟩ | ⟨l, fs', hl, hw, he⟩
  · rw [he] at h; simp at h
  · rw [he]
    refine ⟨_, ?_, rfl⟩
    simp only [Pool.flush, hl, flushWalk_true hw]
  · rw [he] at h; simp at h

/-- a refused `flush()` leaves every process's listing exactly as it was (and the protected set); on disk only listed files
before the refused one are gone, none of them protected-and-existing; the refused file is protected and still exists -/
theorem flush_refused_keeps_list (s : PoolR) (pid : Nat) (h : (flushR s pid).2 = .refused) :
    (flushR s pid).1.pool.heap = s.pool.heap ∧ (flushR s pid).1.pool.refs = s.pool.refs ∧
    (flushR s pid).1.pool.fresh = s.pool.fresh ∧ (flushR s pid).1.prot = s.prot ∧
    (∀ pid', (flushR s pid).1.pool.listOf pid' = s.pool.listOf pid') ∧
    ∃ pre q post, s.pool.listOf pid = some (pre ++ q :: post) ∧ q ∈ s.prot ∧ q ∈ s.pool.fs ∧
      q ∈ (flushR s pid).1.pool.fs ∧ (∀ x ∈ pre, ¬ (x ∈ s.prot ∧ x ∈ s.pool.fs)) ∧
      (flushR s pid).1.pool.fs = s.pool.fs.filter (fun x => !pre.contains x) := by
  rcases flushR_cases s pid with ⟨_, he⟩ | ⟨l, fs', hl, hw, he⟩ | ⟨l, fs', hl, hw, he⟩
  · rw [he] at h; simp at h
  · rw [he] at h; simp at h
  · rw [he]
    obtain ⟨pre, q, post, hl', h1, h2, h3, h4, h5⟩ := flushWalk_false hw
    exact ⟨rfl, rfl, rfl, rfl, fun _ => rfl, pre, q, post, by rw [hl, hl'], h1, h2, h3, h4, h5⟩

/-- the state after `flushR`: what `applyOp` of `Proofs/TmpPool.lean` gives, or the old one with some files gone from disk -/
theorem flushR_pool (s : PoolR) (pid : Nat) :
    (flushR s pid).1.prot = s.prot ∧
      ((flushR s pid).1.pool = applyOp s.pool (.flush pid) ∨
        ∃ f : Path → Bool, (flushR s pid).1.pool = { s.pool with fs := s.pool.fs.filter f }) := by
  rcases flushR_cases s pid with ⟨hl, he⟩ | ⟨l, fs', hl, hw, he⟩ | ⟨l, fs', hl, hw, he⟩
  · rw [he]
    exact ⟨rfl, Or.inl (by simp only [applyOp, Pool.flush, hl])⟩
  · rw [he]
    exact ⟨rfl, Or.inl (by simp only [applyOp, Pool.flush, hl, flushWalk_true hw])⟩
  · rw [he]
    obtain ⟨pre, q, post, -, -, -, -, -, h5⟩ := flushWalk_false hw
    exact ⟨rfl, Or.inr ⟨fun x => !pre.contains x, by rw [h5]⟩⟩

/-! ### the invariant -/

/-- files disappearing from disk (whoever deleted them) keep the invariant -/
theorem inv_filter_fs {s : Pool} (h : Inv s) (f : Path → Bool) : Inv { s with fs := s.fs.filter f } := by
  obtain ⟨l, hh⟩ := heap_eq h
  refine Inv.of (l := l) hh h.refs h.owner (h.nodup' hh) (h.below' hh) ?_ ?_ ?_
  · intro q hq
    exact h.fsLt q (List.mem_filter.mp hq).1
  · exact h.fsNodup.filter _
  · intro q hq
    exact h.listed' hh q (List.mem_filter.mp hq).1

theorem invR_new : InvR PoolR.new := inv_new

theorem invR_step (s : PoolR) (op : ROp) (h : InvR s) : InvR (applyR s op) := by
  unfold InvR at h ⊢
  cases op with
  | create pid => simp only [applyR]; rw [(createR_pool s pid).2]; exact inv_step _ _ h
  | removeR pid p =>
    simp only [applyR]
    rcases (removeR_pool s pid p).2 with he | he <;> rw [he]
    · exact h
    · exact inv_step _ _ h
  | flushR pid =>
    simp only [applyR]
    rcases (flushR_pool s pid).2 with he | ⟨f, he⟩ <;> rw [he]
    · exact inv_step _ _ h
    · exact inv_filter_fs h f
  | fork pid => simp only [applyR]; rw [(forkR_pool s pid).2]; exact inv_step _ _ h
  | unlink p => exact inv_unlink h p
  | protect p => exact h
  | unprotect p => exact h
  | unprotectAll => exact h

theorem invR_run_from (ops : List ROp) (s : PoolR) (h : InvR s) : InvR (runRFrom s ops) := by
  induction ops generalizing s with
  | nil => exact h
  | cons op ops ih => exact ih _ (invR_step s op h)

/-- the invariant holds after every history (refused and interrupted removals included) -/
theorem invR_run (ops : List ROp) : InvR (runR ops) := invR_run_from ops _ invR_new

/-- in a consistent state every process of the pool sees one listing and every existing file is in it -/
theorem existing_listed_of_inv {s : PoolR} (h : InvR s) :
    ∃ l, s.pool.listOf 0 = some l ∧ (∀ pid, pid < s.pool.refs.length → s.pool.listOf pid = some l) ∧
      ∀ p ∈ s.pool.fs, p ∈ l := by
  obtain ⟨l, hh⟩ := heap_eq h
  exact ⟨l, listOf_eq h hh (zero_lt_refs h), fun pid hp => listOf_eq h hh hp, h.listed' hh⟩

/-- after any history every existing file of the pool is listed: nothing can be forgotten -/
theorem existing_listed_R (ops : List ROp) :
    ∃ l, (runR ops).pool.listOf 0 = some l ∧
      (∀ pid, pid < (runR ops).pool.refs.length → (runR ops).pool.listOf pid = some l) ∧
      ∀ p ∈ (runR ops).pool.fs, p ∈ l :=
  existing_listed_of_inv (invR_run ops)

/-- a refused `remove(p)` in a consistent state: `p` is still listed and still exists afterwards -/
theorem refused_remove_still_listed {s : PoolR} (h : InvR s) (pid : Nat) (p : Path)
    (hr : (removeR s pid p).2 = .refused) :
    p ∈ (removeR s pid p).1.pool.fs ∧ ∃ l, (removeR s pid p).1.pool.listOf 0 = some l ∧ p ∈ l := by
  obtain ⟨he, -, hfs⟩ := refused_remove_keeps s pid p hr
  rw [he]
  obtain ⟨l, hl, -, hall⟩ := existing_listed_of_inv h
  exact ⟨hfs, l, hl, hall p hfs⟩

/-- a consistent state in which no existing file is protected: `flush()` by any process succeeds, no file of the pool exists
afterwards and nothing is listed -/
theorem flushR_nothing_left {s : PoolR} (h : InvR s) {pid : Nat} (hp : pid < s.pool.refs.length)
    (hprot : ∀ p ∈ s.pool.fs, p ∉ s.prot) :
    ∃ s', flushR s pid = (s', .ok) ∧ s'.pool.fs = [] ∧ s'.pool.listOf 0 = some [] ∧ s'.prot = s.prot := by
  obtain ⟨s', h1, h2, h3⟩ := flush_nothing_left h hp
  refine ⟨{ s with pool := s' }, ?_, h2, h3, rfl⟩
  rw [flushR_not_refused s pid (fun l _ x _ hx => hprot x hx.2 hx.1), h1]

/-- after any history (refused removals, refused flushes, files deleted by others, children): once the directory allows
removals again, leaving the context (`flush()` by the owner) succeeds, no file of the pool exists and nothing is listed -/
theorem nothing_left_after_unprotect (ops : List ROp) :
    ∃ s', flushR (unprotectAll (runR ops)) 0 = (s', .ok) ∧ s'.pool.fs = [] ∧ s'.pool.listOf 0 = some [] := by
  have h : InvR (unprotectAll (runR ops)) := invR_run ops
  obtain ⟨s', h1, h2, h3, -⟩ := flushR_nothing_left h (zero_lt_refs h) (by simp [unprotectAll])
  exact ⟨s', h1, h2, h3⟩

/-- the same for `flush()` by any process of the pool -/
theorem nothing_left_after_unprotect_any (ops : List ROp) (pid : Nat) (hp : pid < (runR ops).pool.refs.length) :
    ∃ s', flushR (unprotectAll (runR ops)) pid = (s', .ok) ∧ s'.pool.fs = [] ∧ s'.pool.listOf 0 = some [] := by
  have h : InvR (unprotectAll (runR ops)) := invR_run ops
  obtain ⟨s', h1, h2, h3, -⟩ := flushR_nothing_left h (pid := pid) hp (by simp [unprotectAll])
  exact ⟨s', h1, h2, h3⟩

/-! ### the seeded variant: unlist first, then unlink -/

/-- in a consistent state, `removeUnlistFirst` of a listed, protected, existing file: the call is refused, the file still exists
and no process lists it any more — the pool has forgotten it -/
theorem unlist_first_refused_forgets {s : PoolR} (h : InvR s) {pid : Nat} (hp : pid < s.pool.refs.length) (p : Path)
    (hprot : p ∈ s.prot) (hfs : p ∈ s.pool.fs) :
    (removeUnlistFirst s pid p).2 = .refused ∧ p ∈ (removeUnlistFirst s pid p).1.pool.fs ∧
      ∀ pid' l', (removeUnlistFirst s pid p).1.pool.listOf pid' = some l' → p ∉ l' := by
  obtain ⟨l, hh⟩ := heap_eq h
  have hl := listOf_eq h hh hp
  have hin : l.contains p = true := by simpa using h.listed' hh p hfs
  have hr : s.refuses p = true := (refuses_iff s p).mpr ⟨hprot, hfs⟩
  have he : removeUnlistFirst s pid p = ({ s with pool := { s.pool with heap := [l.erase p] } }, .refused) := by
    simp only [removeUnlistFirst, hl, hin, hr, if_true, setList_eq h hh hp]
  rw [he]
  refine ⟨rfl, hfs, ?_⟩
  intro pid' l' hl'
  simp only [Pool.listOf] at hl'
  cases hr' : s.pool.refs[pid']? with
  | none => simp [hr'] at hl'
  | some r =>
    have hr0 : r = 0 := h.refs r (List.mem_of_getElem? hr')
    subst hr0
    simp only [hr', List.getElem?_cons_zero, Option.some.injEq] at hl'
    subst hl'
    exact fun hm => ((h.nodup' hh).mem_erase_iff.mp hm).1 rfl

/-- the witness.  A file is created and its directory becomes read-only.  `removeUnlistFirst` is refused, the file exists and
is not listed; when removals are allowed again, leaving the context leaves the file behind.  With `removeR` (the code) the same
history ends with an empty disk -/
theorem unlist_first_forgets :
    let s1 := runR [.create 0, .protect 0]
    let s2 := removeUnlistFirst s1 0 0
    s2.2 = .refused ∧ s2.1.pool.fs = [0] ∧ s2.1.pool.listOf 0 = some [] ∧
    (flushR (unprotectAll s2.1) 0).2 = .ok ∧ (flushR (unprotectAll s2.1) 0).1.pool.fs = [0] ∧
    let t2 := removeR s1 0 0
    t2.2 = .refused ∧ t2.1.pool.fs = [0] ∧ t2.1.pool.listOf 0 = some [0] ∧
    (flushR (unprotectAll t2.1) 0).2 = .ok ∧ (flushR (unprotectAll t2.1) 0).1.pool.fs = [] := by
  decide

end WindVerif.TmpPoolRefuse
