import WindVerif.Proofs.StorageInv8
/-! Auxiliary development for `Storage.lean`, part 9: the counter layer `InvD` is inductive. -/
namespace WindVerif.Storage
set_option linter.unusedSimpArgs false

/-- general form of the preservation of `InvD` -/
theorem InvD.step_gen {scripts : List (List Op)} {s s' : St} {i : Nat} {p p' : Proc} (hA : InvA scripts s)
    (hD : InvD s) (hp : s.procs[i]? = some p) (hF : StepA s s' i p p') (hloc : LocD s' i p')
    (hfree : s'.lock = none → FullV s'.index s'.cnt s'.wf) : InvD s' := by
  refine ⟨?_, hfree⟩
  intro j q hq
  rw [hF.procs, getElem?_set_proc _ _ _ _ _ _ hp] at hq
  rcases hq with ⟨rfl, rfl⟩ | ⟨hji, hq⟩
  · exact hloc
  · refine (hD.loc j q hq).frame (hA.loc j q hq) (hF.lockOther j hji) (fun h => ?_)
    have := hF.shared (by rw [h]; simpa using hji)
    exact ⟨this.1, this.2.1, this.2.2.1⟩

/-- steps outside the counter section that change neither lock nor index nor counters -/
theorem InvD.step_plain {scripts : List (List Op)} {s s' : St} {i : Nat} {p p' : Proc} (hA : InvA scripts s)
    (hD : InvD s) (hp : s.procs[i]? = some p) (hF : StepA s s' i p p') (hidx : s'.index = s.index)
    (hcnt : s'.cnt = s.cnt) (hwf : s'.wf = s.wf) (hlock : s'.lock = s.lock) (hm : midCnt p.pc = false)
    (hm' : midCnt p'.pc = false) : InvD s' := by
  refine hD.step_gen hA hp hF (LocD.of_notmid hm' ?_) ?_
  · intro h; rw [hidx, hcnt, hwf]; rw [hlock] at h; exact (hD.loc i p hp).full h hm
  · intro h; rw [hidx, hcnt, hwf]; rw [hlock] at h; exact hD.free h

theorem midCnt_of_entry {pc : Pc} (h : isEntry pc = true) : midCnt pc = false := by
  cases pc <;> simp_all [isEntry, midCnt]

theorem midCnt_iterAdvance (p : Proc) : midCnt (iterAdvance p).pc = false := by
  unfold iterAdvance; dsimp only; split <;> rfl

set_option hygiene false in
macro "stepD " name:ident pc:term " => " tac:tacticSeq : command =>
  `(theorem $name {scripts : List (List Op)} {s s' : St} {i : Nat} {p : Proc} (hA : InvA scripts s) (hB : InvB s)
      (hC : InvC scripts s) (hD : InvD s) (hp : s.procs[i]? = some p) (hpc : p.pc = $pc)
      (hs : step s i = some s') : InvD s' := by
    have hL := hA.loc i p hp
    have hLB := hB.loc i p hp
    have hLC := hC.loc2 i p hp
    have hLD := hD.loc i p hp
    have hs0 := hs
    simp only [step, getProc_eq, hp, hpc] at hs0
    ($tac))

set_option hygiene false in
macro "plainD" : tactic =>
  `(tactic| (
      simp only [Option.some.injEq] at hs0; subst hs0
      have hF := StepA.of_step' hA hp hs (p'' := _) rfl
      exact InvD.step_plain hA hD hp hF rfl rfl rfl rfl (by simp [hpc, midCnt]) (by first | rfl | exact midCnt_of_entry (finish_entry _ _) | exact midCnt_iterAdvance _)))

stepD InvD.s_oPathsLen .oPathsLen => plainD
stepD InvD.s_oPathsAppend .oPathsAppend => plainD
stepD InvD.s_oOpenW .oOpenW => plainD
stepD InvD.s_oPathsGet .oPathsGet => plainD
stepD InvD.s_oOpenA .oOpenA => plainD
stepD InvD.s_sIdxLen2 .sIdxLen2 => plainD
stepD InvD.s_sTell .sTell => plainD
stepD InvD.s_sWriteText .sWriteText => plainD
stepD InvD.s_sWriteNl .sWriteNl => plainD
stepD InvD.s_sFlush .sFlush => plainD
stepD InvD.s_gPathsGet .gPathsGet => plainD
stepD InvD.s_gOpenR .gOpenR => plainD
stepD InvD.s_gSeek .gSeek => plainD
stepD InvD.s_cWf .cWf => plainD
stepD InvD.s_lCnt .lCnt => plainD
stepD InvD.s_cCnt .cCnt => plainD
stepD InvD.s_xClose .xClose => plainD
stepD InvD.s_sIdxLen1 .sIdxLen1 => split at hs0 <;> plainD
stepD InvD.s_sIdxGet .sIdxGet => split at hs0 <;> plainD
stepD InvD.s_gIdxLen .gIdxLen => split at hs0 <;> plainD
stepD InvD.s_gIdxGet .gIdxGet => split at hs0 <;> plainD
stepD InvD.s_iIdxLen .iIdxLen => split at hs0 <;> plainD
stepD InvD.s_gReadline .gReadline => split at hs0 <;> plainD
stepD InvD.s_fAcq .fAcq => flushA
stepD InvD.s_fPathsGet .fPathsGet => flushA
stepD InvD.s_fRemove .fRemove => flushA
stepD InvD.s_fPathsClear .fPathsClear => flushA
stepD InvD.s_fIdxClear .fIdxClear => flushA
stepD InvD.s_fCntZero .fCntZero => flushA
stepD InvD.s_fWfZero .fWfZero => flushA
stepD InvD.s_fRel .fRel => flushA

set_option hygiene false in
macro "acqD" : tactic =>
  `(tactic| (
      obtain ⟨d, rfl, hl⟩ := acquire_shape hs0
      have hF := StepA.of_step' hA hp hs (p'' := _) rfl
      refine hD.step_gen hA hp hF (LocD.of_notmid rfl (fun _ => ?_)) (by simp)
      rcases hl with hl | hl
      · exact hD.free hl
      · exact hLD.full hl (by simp [hpc, midCnt])))

stepD InvD.s_oAcq .oAcq => acqD
stepD InvD.s_sAcq .sAcq => acqD
stepD InvD.s_gAcq .gAcq => acqD
stepD InvD.s_iAcq .iAcq => acqD

set_option hygiene false in
macro "relD" : tactic =>
  `(tactic| (
      simp only [Option.some.injEq] at hs0; subst hs0
      have hF := StepA.of_step' hA hp hs (p'' := _) (by rw [setProc_procs, release_fst_procs])
      have hlk : s.lock = some i := hL.lock.1 (by simp [dep, hpc]; try split <;> simp)
      have hfull := hLD.full hlk (by simp [hpc, midCnt])
      refine hD.step_gen hA hp hF (LocD.of_notmid ?_ (fun _ => by simpa using hfull)) (fun _ => by simpa using hfull)
      first | rfl | exact midCnt_of_entry (finish_entry _ _) | exact midCnt_iterAdvance _))

stepD InvD.s_oRel .oRel => relD
stepD InvD.s_sRel .sRel => relD
stepD InvD.s_sRelErr .sRelErr => relD
stepD InvD.s_iRel .iRel => relD
stepD InvD.s_gRel .gRel => split at hs0 <;> relD
stepD InvD.s_gRelErr .gRelErr => split at hs0 <;> relD

theorem FullV.extend {idx : List (Option (Nat × Nat))} {cnt wf : Nat} (n : Nat) (h : FullV idx cnt wf) :
    FullV (idx ++ List.replicate n none) cnt wf := by
  obtain ⟨h1, h2, h3⟩ := h
  refine ⟨?_, ?_, ?_⟩
  · rw [nSt_extend]; exact h1
  · intro g hg; rw [stL_extend]; exact h2 g hg
  · rw [stL_extend]; exact h3

stepD InvD.s_sIdxExtend .sIdxExtend =>
  simp only [Option.some.injEq] at hs0; subst hs0
  have hF := StepA.of_step' hA hp hs (p'' := _) rfl
  have hlk : s.lock = some i := hL.lock.1 (by simp [dep, hpc])
  have hfull := hLD.full hlk (by simp [hpc, midCnt])
  exact hD.step_gen hA hp hF (LocD.of_notmid rfl (fun _ => hfull.extend _)) (by simp [hlk])

set_option hygiene false in
macro "midD" : tactic =>
  `(tactic| (
      simp only [Option.some.injEq] at hs0; subst hs0
      have hF := StepA.of_step' hA hp hs (p'' := _) rfl
      have hlk : s.lock = some i := hL.lock.1 (by simp [dep, hpc])
      refine hD.step_gen hA hp hF ?_ (by simp [hlk])
      obtain ⟨d1, d2, d3, d4, d5, d6, d7, d8⟩ := hLD
      clear hs hF
      constructor <;> simp_all [midCnt, FullV] <;> (try assumption)))

stepD InvD.s_sCntRead .sCntRead => midD
stepD InvD.s_sCntWrite .sCntWrite => midD
stepD InvD.s_sWfRead2 .sWfRead2 => midD
stepD InvD.s_sLoopWf .sLoopWf => midD
stepD InvD.s_sLoopWf2 .sLoopWf2 => midD
stepD InvD.s_sLoopWfR .sLoopWfR => midD

stepD InvD.s_sIdxSet .sIdxSet =>
  simp only [Option.some.injEq] at hs0; subst hs0
  have hF := StepA.of_step' hA hp hs (p'' := _) rfl
  have hlk : s.lock = some i := hL.lock.1 (by simp [dep, hpc])
  have hlt := hLB.gidLt (Or.inr (Or.inr (Or.inr (Or.inr (Or.inr hpc)))))
  have hun := hLB.unset (Or.inr (Or.inr (Or.inr (Or.inr hpc))))
  obtain ⟨f1, f2, f3⟩ := hLD.full hlk (by simp [hpc, midCnt])
  refine hD.step_gen hA hp hF ?_ (by simp [hlk])
  constructor
  · intro _ h; simp [midCnt] at h
  · intro _; simp only [setProc_cnt, setProc_index]; rw [nSt_set _ _ _ hun, f1]
  · intro _ h; simp at h
  · intro _ g hg
    simp only [setProc_wf] at hg
    simp only [setProc_index, stL_set _ _ _ _ hlt]
    split
    · rfl
    · exact f2 g hg
  · intro _ h
    simp only [setProc_index, setProc_wf, stL_set _ _ _ _ hlt] at h ⊢
    split at h
    · assumption
    · rw [f3] at h; cases h
  · intro h; simp at h
  · intro h; simp at h
  · intro h; simp at h

stepD InvD.s_sWfRead1 .sWfRead1 =>
  have hst : stL s.index p.gid = true := hLC.postSt (Or.inl (by simp [hpc, postStore]))
  split at hs0
  · rename_i heq
    obtain ⟨d1, d2, d3, d4, d5, d6, d7, d8⟩ := hLD
    simp only [Option.some.injEq] at hs0; subst hs0
    have hF := StepA.of_step' hA hp hs (p'' := _) rfl
    have hlk : s.lock = some i := hL.lock.1 (by simp [dep, hpc])
    refine hD.step_gen hA hp hF ?_ (by simp [hlk])
    constructor
    · intro _ h; simp [midCnt] at h
    · intro h; simp at h
    · intro _ _ _; exact d3 (by simp [hpc, midCnt]) (by simp [hpc]) (by simp [hpc])
    · intro _; exact d4 (by simp [hpc, midCnt])
    · intro h; simp at h
    · intro _; show stL s.index s.wf = true; rw [← heq]; exact hst
    · intro h; simp at h
    · intro h; simp at h
  · rename_i hne
    obtain ⟨d1, d2, d3, d4, d5, d6, d7, d8⟩ := hLD
    have h3 : stL s.index s.wf = false := by
      cases h : stL s.index s.wf
      · rfl
      · exact absurd (d5 (Or.inr (Or.inr hpc)) h).symm hne
    simp only [Option.some.injEq] at hs0; subst hs0
    have hF := StepA.of_step' hA hp hs (p'' := _) rfl
    have hlk : s.lock = some i := hL.lock.1 (by simp [dep, hpc])
    refine hD.step_gen hA hp hF (LocD.of_notmid rfl (fun _ => ?_)) (by simp [hlk])
    exact ⟨d3 (by simp [hpc, midCnt]) (by simp [hpc]) (by simp [hpc]), d4 (by simp [hpc, midCnt]), h3⟩

theorem wfLow_succ {idx : List (Option (Nat × Nat))} {wf : Nat} (h : ∀ g, g < wf → stL idx g = true)
    (h' : stL idx wf = true) : ∀ g, g < wf + 1 → stL idx g = true := by
  intro g hg
  rcases Nat.lt_or_ge g wf with h1 | h1
  · exact h g h1
  · have : g = wf := by omega
    subst this; exact h'

set_option hygiene false in
macro "wfWriteD" : tactic =>
  `(tactic| (
      simp only [Option.some.injEq] at hs0; subst hs0
      have hF := StepA.of_step' hA hp hs (p'' := _) rfl
      have hlk : s.lock = some i := hL.lock.1 (by simp [dep, hpc])
      refine hD.step_gen hA hp hF ?_ (by simp [hlk])
      obtain ⟨d1, d2, d3, d4, d5, d6, d7, d8⟩ := hLD
      have hw := wfLow_succ (d4 (by simp [hpc, midCnt])) (d6 (by simp [hpc]))
      have ht := d8 (by simp [hpc])
      clear hs hF
      constructor <;> simp_all [midCnt, FullV] <;> (try assumption)))

stepD InvD.s_sWfWrite1 .sWfWrite1 => wfWriteD
stepD InvD.s_sLoopWfW .sLoopWfW => wfWriteD

stepD InvD.s_sLoopCnt .sLoopCnt =>
  split at hs0
  · midD
  · rename_i hge
    obtain ⟨d1, d2, d3, d4, d5, d6, d7, d8⟩ := hLD
    have hc := d3 (by simp [hpc, midCnt]) (by simp [hpc]) (by simp [hpc])
    have hlow := d4 (by simp [hpc, midCnt])
    have ht := d8 (by simp [hpc])
    have h3 : stL s.index s.wf = false := by
      cases h : stL s.index s.wf
      · rfl
      · have := (pigeon s.index s.wf hlow).2 (by omega) s.wf h
        omega
    simp only [Option.some.injEq] at hs0; subst hs0
    have hF := StepA.of_step' hA hp hs (p'' := _) rfl
    have hlk : s.lock = some i := hL.lock.1 (by simp [dep, hpc])
    exact hD.step_gen hA hp hF (LocD.of_notmid rfl (fun _ => ⟨hc, hlow, h3⟩)) (by simp [hlk])

stepD InvD.s_sLoopIdx .sLoopIdx =>
  obtain ⟨d1, d2, d3, d4, d5, d6, d7, d8⟩ := hLD
  have ht := d8 (by simp [hpc])
  split at hs0
  · rename_i v hv
    have hst : stL s.index s.wf = true := by rw [← ht]; exact stL_iff.2 ⟨v, hv⟩
    have hLD : LocD s i p := ⟨d1, d2, d3, d4, d5, d6, d7, d8⟩
    midD
  · rename_i hne
    have hc := d3 (by simp [hpc, midCnt]) (by simp [hpc]) (by simp [hpc])
    have hlow := d4 (by simp [hpc, midCnt])
    have h3 : stL s.index s.wf = false := by
      cases h : stL s.index s.wf
      · rfl
      · obtain ⟨e, he⟩ := stL_iff.1 h
        rw [← ht] at he
        exact absurd he (hne e)
    simp only [Option.some.injEq] at hs0; subst hs0
    have hF := StepA.of_step' hA hp hs (p'' := _) rfl
    have hlk : s.lock = some i := hL.lock.1 (by simp [dep, hpc])
    exact hD.step_gen hA hp hF (LocD.of_notmid rfl (fun _ => ⟨hc, hlow, h3⟩)) (by simp [hlk])

/-- the counter layer is preserved by every step -/
theorem InvD.step {scripts : List (List Op)} {s s' : St} {i : Nat} (hA : InvA scripts s) (hB : InvB s)
    (hC : InvC scripts s) (hD : InvD s) (hs : step s i = some s') : InvD s' := by
  obtain ⟨p, hp⟩ := step_proc hs
  cases hpc : p.pc with
    | idle => simp [Storage.step, hp, hpc] at hs
    | oAcq => exact InvD.s_oAcq hA hB hC hD hp hpc hs
    | oPathsLen => exact InvD.s_oPathsLen hA hB hC hD hp hpc hs
    | oPathsAppend => exact InvD.s_oPathsAppend hA hB hC hD hp hpc hs
    | oRel => exact InvD.s_oRel hA hB hC hD hp hpc hs
    | oOpenW => exact InvD.s_oOpenW hA hB hC hD hp hpc hs
    | oPathsGet => exact InvD.s_oPathsGet hA hB hC hD hp hpc hs
    | oOpenA => exact InvD.s_oOpenA hA hB hC hD hp hpc hs
    | sAcq => exact InvD.s_sAcq hA hB hC hD hp hpc hs
    | sIdxLen1 => exact InvD.s_sIdxLen1 hA hB hC hD hp hpc hs
    | sIdxLen2 => exact InvD.s_sIdxLen2 hA hB hC hD hp hpc hs
    | sIdxExtend => exact InvD.s_sIdxExtend hA hB hC hD hp hpc hs
    | sIdxGet => exact InvD.s_sIdxGet hA hB hC hD hp hpc hs
    | sTell => exact InvD.s_sTell hA hB hC hD hp hpc hs
    | sWriteText => exact InvD.s_sWriteText hA hB hC hD hp hpc hs
    | sWriteNl => exact InvD.s_sWriteNl hA hB hC hD hp hpc hs
    | sFlush => exact InvD.s_sFlush hA hB hC hD hp hpc hs
    | sIdxSet => exact InvD.s_sIdxSet hA hB hC hD hp hpc hs
    | sCntRead => exact InvD.s_sCntRead hA hB hC hD hp hpc hs
    | sCntWrite => exact InvD.s_sCntWrite hA hB hC hD hp hpc hs
    | sWfRead1 => exact InvD.s_sWfRead1 hA hB hC hD hp hpc hs
    | sWfRead2 => exact InvD.s_sWfRead2 hA hB hC hD hp hpc hs
    | sWfWrite1 => exact InvD.s_sWfWrite1 hA hB hC hD hp hpc hs
    | sLoopWf => exact InvD.s_sLoopWf hA hB hC hD hp hpc hs
    | sLoopCnt => exact InvD.s_sLoopCnt hA hB hC hD hp hpc hs
    | sLoopWf2 => exact InvD.s_sLoopWf2 hA hB hC hD hp hpc hs
    | sLoopIdx => exact InvD.s_sLoopIdx hA hB hC hD hp hpc hs
    | sLoopWfR => exact InvD.s_sLoopWfR hA hB hC hD hp hpc hs
    | sLoopWfW => exact InvD.s_sLoopWfW hA hB hC hD hp hpc hs
    | sRelErr => exact InvD.s_sRelErr hA hB hC hD hp hpc hs
    | sRel => exact InvD.s_sRel hA hB hC hD hp hpc hs
    | gAcq => exact InvD.s_gAcq hA hB hC hD hp hpc hs
    | gIdxLen => exact InvD.s_gIdxLen hA hB hC hD hp hpc hs
    | gIdxGet => exact InvD.s_gIdxGet hA hB hC hD hp hpc hs
    | gRelErr => exact InvD.s_gRelErr hA hB hC hD hp hpc hs
    | gRel => exact InvD.s_gRel hA hB hC hD hp hpc hs
    | gPathsGet => exact InvD.s_gPathsGet hA hB hC hD hp hpc hs
    | gOpenR => exact InvD.s_gOpenR hA hB hC hD hp hpc hs
    | gSeek => exact InvD.s_gSeek hA hB hC hD hp hpc hs
    | gReadline => exact InvD.s_gReadline hA hB hC hD hp hpc hs
    | lCnt => exact InvD.s_lCnt hA hB hC hD hp hpc hs
    | cWf => exact InvD.s_cWf hA hB hC hD hp hpc hs
    | cCnt => exact InvD.s_cCnt hA hB hC hD hp hpc hs
    | iAcq => exact InvD.s_iAcq hA hB hC hD hp hpc hs
    | iIdxLen => exact InvD.s_iIdxLen hA hB hC hD hp hpc hs
    | iRel => exact InvD.s_iRel hA hB hC hD hp hpc hs
    | fAcq => exact InvD.s_fAcq hA hB hC hD hp hpc hs
    | fPathsGet => exact InvD.s_fPathsGet hA hB hC hD hp hpc hs
    | fRemove => exact InvD.s_fRemove hA hB hC hD hp hpc hs
    | fPathsClear => exact InvD.s_fPathsClear hA hB hC hD hp hpc hs
    | fIdxClear => exact InvD.s_fIdxClear hA hB hC hD hp hpc hs
    | fCntZero => exact InvD.s_fCntZero hA hB hC hD hp hpc hs
    | fWfZero => exact InvD.s_fWfZero hA hB hC hD hp hpc hs
    | fRel => exact InvD.s_fRel hA hB hC hD hp hpc hs
    | xClose => exact InvD.s_xClose hA hB hC hD hp hpc hs

theorem InvD.init (presize : Nat) (scripts : List (List Op)) : InvD (start (init presize scripts)) := by
  have hfull : FullV (start (Storage.init presize scripts)).index (start (Storage.init presize scripts)).cnt
      (start (Storage.init presize scripts)).wf := by
    refine ⟨?_, ?_, ?_⟩
    · simp [start, Storage.init, nSt, List.countP_replicate]
    · intro g hg; simp [start, Storage.init] at hg
    · simp [start, Storage.init, stL, List.getElem?_replicate]
  refine ⟨?_, fun _ => hfull⟩
  intro i p hp
  simp only [start, Storage.init, List.map_map, List.getElem?_map, Option.map_eq_some_iff] at hp
  obtain ⟨sc, _, rfl⟩ := hp
  exact LocD.of_notmid (midCnt_of_entry (fetch_entry _ rfl)) (fun _ => hfull)

theorem reach_ABCD {scripts : List (List Op)} (hnf : ∀ sc ∈ scripts, Op.flush ∉ sc) {presize : Nat} {s : St}
    {sched : List Nat} (hr : run (start (init presize scripts)) sched = some s) :
    InvA scripts s ∧ InvB s ∧ InvC scripts s ∧ InvD s :=
  run_preserves (fun s => InvA scripts s ∧ InvB s ∧ InvC scripts s ∧ InvD s)
    (fun _ _ _ h hs => ⟨h.1.step hs, h.2.1.step h.1 hs, h.2.2.1.step h.1 h.2.1 hs, h.2.2.2.step h.1 h.2.1 h.2.2.1 hs⟩)
    ⟨InvA.init hnf presize, InvB.init presize scripts, InvC.init presize scripts, InvD.init presize scripts⟩ hr

end WindVerif.Storage
