import WindVerif.Model.FMap
/-! Definitions for the proofs about the `FunctorMap` / `mul_p_map` interleaving model: the inductive invariant `Inv`,
the call-boundary condition `Bnd`, the termination measure `mu`. -/
namespace WindVerif.FMap

/-- same as `Reach` of the main file -/
def Reachable (cfg : Cfg) (s : St) : Prop := ∃ sched, run (init cfg) sched = some s

/-- same as `outOf` of the main file -/
def outK (out : List (Nat × Nat)) (k : Nat) : List Nat := (out.filter (fun p => p.1 == k)).map (·.2)

def chunksQ (q : List (Option Nat)) : List Nat := q.filterMap id
def nonesQ (q : List (Option Nat)) : Nat := q.countP (fun x => x.isNone)
def heldL (ws : List Worker) : List Nat := ws.filterMap (·.held)
def live (ws : List Worker) : Nat := ws.countP (fun w => decide (w.pc ≠ .exited))

/-- number of stop orders posted so far for the current generation of workers -/
def posted (cfg : Cfg) : PPc → Nat
  | .start _ | .put | .nowait => 0
  | .stopPut i => i
  | .finalGet => if cfg.mulP then cfg.nWorkers else 0
  | .join _ | .done => cfg.nWorkers

/-- number of workers of the current generation known to have been joined -/
def joined (cfg : Cfg) : PPc → Nat
  | .join i => i
  | .done => cfg.nWorkers
  | _ => 0

/-- number of chunks of the current call handed to the caller -/
def cur (cfg : Cfg) (ppc : PPc) (total wf : Nat) : Nat :=
  if cfg.mulP then (match ppc with | .join _ | .done => total | _ => 0) else wf

def PhaseOK (cfg : Cfg) (s : St) : Prop :=
  match s.ppc with
  | .start i => i < cfg.nWorkers ∧ s.dataCnt = 0 ∧ s.finished = 0 ∧ s.next = 0 ∧
      (cfg.mulP = true → 1 ≤ s.callNo) ∧ (cfg.mulP = false → s.total = 0) ∧
      (∀ w ∈ s.workers, s.base + i ≤ w.wid → w.pc = .notStarted)
  | .put => s.dataCnt = s.next ∧ s.next < s.total ∧ 1 ≤ s.callNo
  | .nowait => s.dataCnt = s.next + 1 ∧ s.next < s.total ∧ 1 ≤ s.callNo
  | .stopPut i => i < cfg.nWorkers ∧ s.dataCnt = s.total ∧
      (cfg.mulP = true → 1 ≤ s.callNo) ∧ (cfg.mulP = false → s.finished = s.dataCnt ∧ s.callsLeft = [])
  | .finalGet => s.dataCnt = s.total ∧ 1 ≤ s.callNo
  | .join i => i < cfg.nWorkers ∧ s.finished = s.dataCnt ∧ s.dataCnt = s.total ∧ (cfg.mulP = false → s.callsLeft = [])
  | .done => s.finished = s.dataCnt ∧ s.dataCnt = s.total ∧ s.callsLeft = []

/-- the expected value of `outK s.out k` -/
def expOut (cfg : Cfg) (callNo c : Nat) (k : Nat) : List Nat :=
  if k = 0 then [] else if k < callNo then List.range (cfg.calls[k - 1]?.getD 0)
  else if k = callNo then List.range c else []

/-- the invariant without the strictness of the final drain -/
structure Main (cfg : Cfg) (s : St) : Prop where
  cfg_eq : s.cfg = cfg
  wids : s.workers.map (·.wid) = List.range s.workers.length
  held_put : ∀ w ∈ s.workers, (w.pc = .put ↔ w.held ≠ none)
  cons : (chunksQ s.workQ ++ heldL s.workers ++ s.resQ ++ s.buffer ++ s.got ++ List.range s.wf).Perm (List.range s.dataCnt)
  fin : s.finished = s.got.length + s.wf
  modeP : cfg.mulP = true → s.buffer = [] ∧ s.wf = 0
  modeF : cfg.mulP = false → s.got = []
  wfbuf : s.wf ∉ s.buffer
  count : live s.workers + posted cfg s.ppc = cfg.nWorkers + nonesQ s.workQ
  nonone : posted cfg s.ppc = 0 → none ∉ s.workQ
  sortedQ : s.workQ.Pairwise (fun a b => a = none → b = none)
  exitedQ : live s.workers < cfg.nWorkers → ∀ x ∈ s.workQ, x = none
  joinedEx : ∀ w ∈ s.workers, w.wid < s.base + joined cfg s.ppc → w.pc = .exited
  notStarted : ∀ w ∈ s.workers, w.pc = .notStarted → ∃ i, s.ppc = .start i ∧ s.base + i ≤ w.wid
  len : s.workers.length = s.base + cfg.nWorkers ∨ (s.workers = [] ∧ s.ppc = .done)
  histDrop : cfg.calls.drop s.callNo = s.callsLeft
  histLe : s.callNo ≤ cfg.calls.length
  histTot : 1 ≤ s.callNo → cfg.calls[s.callNo - 1]? = some s.total
  outs : ∀ k, outK s.out k = expOut cfg s.callNo (cur cfg s.ppc s.total s.wf) k
  phase : PhaseOK cfg s

structure Inv (cfg : Cfg) (s : St) : Prop extends Main cfg s where
  strict : s.ppc = .finalGet → s.finished < s.dataCnt

/-- the condition under which `startCallGo s l` is called: everything is quiet, the calls up to `callNo` are complete -/
structure Bnd (cfg : Cfg) (s : St) (l : List Nat) : Prop where
  cfg_eq : s.cfg = cfg
  wids : s.workers.map (·.wid) = List.range s.workers.length
  held : ∀ w ∈ s.workers, w.held = none ∧ w.pc ≠ .put ∧ w.pc ≠ .notStarted
  workQ : s.workQ = []
  resQ : s.resQ = []
  buffer : s.buffer = []
  cc : s.finished = s.dataCnt ∧ s.dataCnt = s.total
  fin : s.finished = s.got.length + s.wf
  gotp : (s.got ++ List.range s.wf).Perm (List.range s.dataCnt)
  modeP : cfg.mulP = true → s.wf = 0 ∧ ∀ w ∈ s.workers, w.pc = .exited
  modeF : cfg.mulP = false → s.got = [] ∧ live s.workers = cfg.nWorkers ∧ s.workers ≠ []
  len : s.workers.length = s.base + cfg.nWorkers ∨ s.workers = []
  old : ∀ w ∈ s.workers, w.wid < s.base → w.pc = .exited
  histDrop : cfg.calls.drop s.callNo = l
  histLe : s.callNo ≤ cfg.calls.length
  histTot : 1 ≤ s.callNo → cfg.calls[s.callNo - 1]? = some s.total
  outs : ∀ k, outK s.out k = expOut cfg (s.callNo + 1) 0 k

/-! the termination measure -/
def wOmega (w : Worker) : Nat := match w.pc with | .notStarted => 1 | .get => 1 | .put => 3 | .exited => 0

def phi (mulP : Bool) (N : Nat) : PPc → Nat
  | .done => 0
  | .join i => N - i + 1
  | .stopPut i => if mulP then (N - i) + N + 3 else (N - i) + N + 2
  | .finalGet => if mulP then N + 2 else 2 * N + 2
  | .nowait => if mulP then 2 * N + 4 else 2 * N + 3
  | .put => if mulP then 2 * N + 8 else 2 * N + 7
  | .start i => 2 * (N - i) + (if mulP then 2 * N + 10 else 2 * N + 4)

def callW (N n : Nat) : Nat := 5 * n + 5 * N + 10

/-- the part of the measure owned by the queues and the workers -/
def muA (s : St) : Nat := 3 * (chunksQ s.workQ).length + s.resQ.length + (s.workers.map wOmega).sum

def mu (s : St) : Nat :=
  muA s + (s.callsLeft.map (callW s.cfg.nWorkers)).sum + 5 * (s.total - (s.next + 1)) + phi s.cfg.mulP s.cfg.nWorkers s.ppc

end WindVerif.FMap
