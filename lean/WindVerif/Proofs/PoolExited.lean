import WindVerif.Proofs.PoolLifeMidB
/-!
`join_timeout=None` (`Cfg.joinTimeout = false`): a worker the pool does not list any more has EXITED.

Every worker runs its `end()` as a step of its own (`WPc.ending`) after the operation that ended its loop, so "has left its
loop" (`gone`) and "has exited" are different things in every configuration.  What makes the difference disappear for the
replaced workers of a pool without a join timeout is the blocking `join` of the replace thread: the slot of a retired
worker is overwritten (`procs[idx] = successor`) only by the step that follows a join that has returned, i.e. after the
retired process has an exit code.  `UnlExited` is that invariant; `exit_joins_all`, `unlisted_exited`, `alive_le_workers`
and `exit_skip_all_gone` rest on it.
-/
namespace WindVerif.Pool

/-- without a join timeout every worker that is not listed (any more) has exited -/
def UnlExited (s : St) : Prop :=
  s.cfg.joinTimeout = false → ∀ w ∈ s.workers, w.wid ∉ s.procs → w.pc = .exited

theorem UnlExited_init (cfg : Cfg) : UnlExited (init cfg) := by
  intro _ w hw hn
  exfalso; apply hn
  obtain ⟨k, hk, rfl⟩ := List.mem_map.1 hw
  exact hk

theorem UnlExited_frame {s s' : St} (hU : UnlExited s) (h1 : s'.cfg = s.cfg) (h2 : s'.workers = s.workers)
    (h3 : s'.procs = s.procs) : UnlExited s' := by
  unfold UnlExited; rw [h1, h2, h3]; exact hU

/-- one worker record is replaced by one that is not unlisted-and-running -/
theorem UnlExited_upd {s s' : St} {w w' : Worker} (hU : UnlExited s) (h1 : s'.cfg = s.cfg)
    (h2 : s'.workers = upd w.wid w' s.workers) (h3 : s'.procs = s.procs)
    (hw' : s.cfg.joinTimeout = false → w'.wid ∉ s.procs → w'.pc = .exited) : UnlExited s' := by
  intro hjt x hx hn
  rw [h1] at hjt; rw [h3] at hn; rw [h2] at hx
  rcases mem_upd.1 hx with ⟨rfl, _⟩ | ⟨hx', _⟩
  · exact hw' hjt hn
  · exact hU hjt x hx' hn

theorem UnlExited_stepR {s s' : St} (hL : LInv s) (hU : UnlExited s) (h : stepR s = some s') : UnlExited s' := by
  unfold stepR at h
  split at h
  · cases h
  · split at h
    · cases h
    · split at h
      · cases h
      · simp only [Option.some.injEq] at h; subst h; exact UnlExited_frame hU rfl rfl rfl
      · simp only [Option.some.injEq] at h; subst h; exact UnlExited_frame hU rfl rfl rfl
    · -- join wid: the slot of the retired worker is overwritten
      rename_i wid hrpc
      split at h
      · rename_i hj
        simp only [Option.some.injEq] at h; subst h
        intro hjt x hx hn
        have hjt' : s.cfg.joinTimeout = false := hjt
        have hex : workerExited s wid = true := by
          rw [hjt'] at hj; simpa using hj
        have hx' : x ∈ s.workers ++ [mkWorker s.cfg s.widCounter] := hx
        have hn' : x.wid ∉ s.procs.map (fun y => if y = wid then s.widCounter else y) := hn
        have hwid : wid ∈ s.procs := by
          have hp : wid ∈ pending s := by unfold pending; rw [hrpc]; exact List.mem_append_left _ (List.mem_singleton.2 rfl)
          exact (hL.pend wid hp).1
        rcases List.mem_append.1 hx' with hx0 | hx0
        · by_cases hin : x.wid ∈ s.procs
          · by_cases he : x.wid = wid
            · exact workerExited_all hL hex x hx0 he
            · exact absurd (List.mem_map.2 ⟨x.wid, hin, by simp [he]⟩) hn'
          · exact hU hjt' x hx0 hin
        · simp at hx0; subst hx0
          exact absurd (List.mem_map.2 ⟨wid, hwid, by simp [mkWorker]⟩) hn'
      · cases h
    · -- start nw
      rename_i nw hrpc
      split at h
      · cases h
      · rename_i w hg
        simp only [Option.some.injEq] at h; subst h
        obtain ⟨hwm, hwid⟩ := getWorker_some hg
        have hpc : w.pc = .notStarted := hL.rStarting nw hrpc w hwm hwid
        refine UnlExited_upd (w := w) (w' := { w with pc := .bfClear }) hU rfl rfl rfl ?_
        intro _ hn
        exact absurd (hL.listed w hwm (by rw [hpc]; rfl)) hn

theorem UnlExited_step {s s' : St} {t : Tid} (hL : LInv s) (hU : UnlExited s) (h : step s t = some s') : UnlExited s' := by
  have hcfg := step_cfg h
  cases t with
  | c =>
    have hp := (stepC_procsM h).1
    rcases stepC_workers h with e | ⟨w, hw, e⟩
    · exact UnlExited_frame hU hcfg e hp
    · have hL' := LInv_step hL (t := .c) h
      refine UnlExited_upd hU hcfg e hp ?_
      intro _ hn
      have hmem : ({ w with pc := .bfClear } : Worker) ∈ s'.workers := by
        rw [e]; exact mem_upd.2 (Or.inl ⟨rfl, w, hw, rfl⟩)
      have := hL'.listed _ hmem rfl
      rw [hp] at this
      exact absurd this hn
  | f => exact UnlExited_frame hU hcfg (stepF_frameM h).2.1 (stepF_procsM h).1
  | r => exact UnlExited_stepR hL hU h
  | w k =>
    obtain ⟨w, w', hg, _, hn2, hwid, _, _, hf⟩ := stepW_summary h
    refine UnlExited_upd hU hcfg hf.workers hf.procs ?_
    intro hjt hn
    rw [hwid] at hn
    exact absurd (hU hjt w (getWorker_some hg).1 hn) hn2

theorem UnlExited_run {s s' : St} {sched : List Tid} (hL : LInv s) (hU : UnlExited s) (h : run s sched = some s') :
    UnlExited s' := by
  induction sched generalizing s with
  | nil => simp only [run, Option.some.injEq] at h; subst h; exact hU
  | cons t ts ih =>
    simp only [run] at h
    split at h
    · cases h
    · rename_i s1 hs1
      exact ih (LInv_step hL hs1) (UnlExited_step hL hU hs1) h

theorem UnlExited_reach {cfg : Cfg} {s : St} (h : Reach cfg s) : UnlExited s := by
  obtain ⟨sched, hs⟩ := h
  exact UnlExited_run (LInv_init cfg) (UnlExited_init cfg) hs

/-- without a join timeout every worker that is not listed any more has exited -/
theorem unlisted_exited' (cfg : Cfg) (hjt : cfg.joinTimeout = false) (s : St) (h : Reach cfg s) (w : Worker)
    (hw : w ∈ s.workers) (hn : w.wid ∉ s.procs) : w.pc = .exited := by
  obtain ⟨_, hc⟩ := LInv_reach h
  exact UnlExited_reach h (by rw [hc]; exact hjt) w hw hn

end WindVerif.Pool
