import WindVerif.Proofs.PoolLiveAux8
import WindVerif.Proofs.PoolLifeMid
/-! Liveness of the pool model (C02): the invariant `MidI` about the mid-call `until_all_ready()` (the worker waited for
exists; flow control is engaged only in an ordered call) holds initially and along every step. -/
namespace WindVerif.Pool

variable {s s' : St}

theorem init_not_mid (cfg : Cfg) (i wid : Nat) : (init cfg).cpc ≠ .midReady i wid := by
  unfold init
  dsimp only
  split
  · split <;> (intro h; cases h)
  · intro h; cases h

theorem MidI_init (cfg : Cfg) : MidI (init cfg) :=
  ⟨fun i wid h => absurd h (init_not_mid cfg i wid), fun i wid h => absurd h (init_not_mid cfg i wid)⟩

theorem MidI_stepC (hS : SafeInv s) (hV : LiveInv s) (hM : MidI s) (hw : WellCfg s.cfg) (h : stepC s = some s') :
    MidI s' := by
  constructor
  · intro i wid hm
    obtain ⟨h1, h2, _⟩ := stepC_mid h hm
    obtain ⟨w, hwm, hwid⟩ := hV.pr.procsEx wid (List.mem_of_getElem? h1)
    exact ⟨w, by rw [h2.workers]; exact hwm, hwid⟩
  · intro i wid hm hfr
    obtain ⟨_, h2, h3⟩ := stepC_mid h hm
    rw [h2.fRun] at hfr
    rw [h2.cur]
    rcases h3 with ⟨_, hpc, _⟩ | ⟨j, w0, _, hpc⟩
    · have hloop : loopPc s.cpc = true ∧ flowChk s.cpc = false ∧ preStart s = false ∧ exitPhasePc s.cpc = false := by
        rcases hpc with hpc | hpc <;> simp [hpc, loopPc, flowChk, preStart, exitPhasePc]
      obtain ⟨call, hcall⟩ := Option.isSome_iff_exists.1 (cur_isSome_of hS hloop.2.2.1 hloop.2.2.2)
      refine ⟨call, hcall, ?_⟩
      cases ho : call.ordered
      · have := fRun_of_unordered hS hV hw hloop.1 hloop.2.1 hcall ho
        rw [hfr] at this; cases this
      · rfl
    · exact hM.flow j w0 hpc hfr

theorem MidI_step {t : Tid} (hf : NoFaults s.cfg) (hw : WellCfg s.cfg) (hS : SafeInv s) (hL : LInv s) (hV : LiveInv s)
    (hM : MidI s) (h : step s t = some s') : MidI s' := by
  cases t with
  | c => exact MidI_stepC hS hV hM hw h
  | f =>
    obtain ⟨e1, e2, e3, e4⟩ := stepF_frameM h
    exact ⟨by rw [e1, e2]; exact hM.ex, by rw [e1, e3, e4]; exact hM.flow⟩
  | r =>
    obtain ⟨e1, e3, e4, hmono⟩ := stepR_frameM hL h
    refine ⟨?_, by rw [e1, e3, e4]; exact hM.flow⟩
    rw [e1]
    intro i wid hpc
    obtain ⟨x, hx, hxw⟩ := hM.ex i wid hpc
    obtain ⟨y, hy, hyw, _⟩ := hmono x hx
    exact ⟨y, hy, hyw.trans hxw⟩
  | w k =>
    obtain ⟨w, w', hst⟩ := stepW_cases hf hw hL h
    refine ⟨?_, by rw [hst.same.cpc, hst.same.fRun, hst.same.cur]; exact hM.flow⟩
    rw [hst.same.cpc]
    intro i wid hpc
    obtain ⟨x, hx, hxw⟩ := hM.ex i wid hpc
    obtain ⟨y, hy, hyw⟩ := hst.succ hx
    exact ⟨y, hy, hyw.trans hxw⟩

end WindVerif.Pool
