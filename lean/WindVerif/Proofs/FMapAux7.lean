import WindVerif.Proofs.FMapAux6
/-! The invariant holds in every reachable state; consequences for the results and the workers. -/
namespace WindVerif.FMap

theorem expOut_zero (cfg : Cfg) (c k : Nat) : expOut cfg 0 c k = [] := by
  unfold expOut
  by_cases h : k = 0 <;> simp [h]

theorem inv_init {cfg : Cfg} (hw : 1 ≤ cfg.nWorkers) : Inv cfg (init cfg) := by
  unfold init
  cases hm : cfg.mulP
  · have hn0 : ¬ cfg.nWorkers = 0 := by omega
    simp only [Bool.false_eq_true, if_false, hn0]
    refine ⟨?_, by simp⟩
    exact {
      cfg_eq := rfl
      wids := by simp [mkWorkers_wids]
      held_put := fun w hw' => by have := mem_mkWorkers hw'; simp [this]
      cons := by simp
      fin := rfl
      modeP := by simp [hm]
      modeF := fun _ => rfl
      wfbuf := by simp
      count := by simp [posted]
      nonone := by simp
      sortedQ := by simp
      exitedQ := by simp
      joinedEx := fun w _ hlt => by simp [joined] at hlt
      notStarted := fun w hw' _ => ⟨0, rfl, by simp⟩
      len := Or.inl (by simp)
      histDrop := rfl
      histLe := Nat.zero_le _
      histTot := fun h => by simp at h
      outs := fun k => by simp [expOut_zero]
      phase := by
        show PhaseOK cfg _
        unfold PhaseOK; simp only
        exact ⟨by omega, trivial, trivial, trivial, by simp [hm], fun _ => trivial, fun w hw' _ => (mem_mkWorkers hw').1⟩ }
  · simp only [if_true, startCall]
    apply inv_startCallGo hw
    exact {
      cfg_eq := rfl
      wids := rfl
      held := by simp
      workQ := rfl
      resQ := rfl
      buffer := rfl
      cc := ⟨rfl, rfl⟩
      fin := rfl
      gotp := by simp
      modeP := fun _ => ⟨rfl, by simp⟩
      modeF := by simp [hm]
      len := Or.inr rfl
      old := by simp
      histDrop := rfl
      histLe := Nat.zero_le _
      histTot := fun h => by simp at h
      outs := fun k => by
        rw [expOut_complete cfg 0 0 (fun h => by simp at h), expOut_zero]; rfl }

theorem inv_of_reachable {cfg : Cfg} (hw : 1 ≤ cfg.nWorkers) {s : St} (h : Reachable cfg s) : Inv cfg s := by
  obtain ⟨sched, hr⟩ := h
  exact inv_run hw sched (inv_init hw) hr

/-- what the caller has received from call `k` is always a prefix `0 … m-1` -/
theorem prefix_of_inv {cfg : Cfg} {s : St} (h : Inv cfg s) (k : Nat) : ∃ m, outK s.out k = List.range m := by
  rw [h.outs k]
  unfold expOut
  split
  · exact ⟨0, rfl⟩
  · split
    · exact ⟨_, rfl⟩
    · split
      · exact ⟨_, rfl⟩
      · exact ⟨0, rfl⟩

theorem result_of_inv {cfg : Cfg} {s : St} (h : Inv cfg s) (hd : s.ppc = .done) (k n : Nat)
    (hk : cfg.calls[k]? = some n) : outK s.out (k + 1) = List.range n := by
  have hph := h.phase; unfold PhaseOK at hph; simp only [hd] at hph
  obtain ⟨hfd, hdt, hcl⟩ := hph
  have hdrop := h.histDrop; rw [hcl] at hdrop
  have hcn : s.callNo = cfg.calls.length := by
    have := h.histLe
    have h2 : cfg.calls.length ≤ s.callNo := by
      rcases Nat.lt_or_ge s.callNo cfg.calls.length with h' | h'
      · have := List.drop_eq_nil_iff.1 hdrop; omega
      · exact h'
    omega
  have hklt : k < cfg.calls.length := by
    rcases Nat.lt_or_ge k cfg.calls.length with h' | h'
    · exact h'
    · rw [List.getElem?_eq_none h'] at hk; cases hk
  rw [h.outs (k + 1)]
  unfold expOut
  by_cases h1 : k + 1 < s.callNo
  · simp [h1, hk]
  · have h2 : k + 1 = s.callNo := by omega
    have ht := h.histTot (by omega)
    rw [← h2] at ht; simp at ht; rw [hk] at ht; cases ht
    simp only [h2, if_true]
    have : s.callNo ≠ 0 := by omega
    simp only [this, if_false]
    cases hm : cfg.mulP
    · have : s.wf = s.total := by have := h.fin; rw [h.modeF hm] at this; simp at this; omega
      simp [cur, hm, this]
    · simp [cur, hm, hd]

theorem workers_exited_of_inv {cfg : Cfg} {s : St} (h : Inv cfg s) (hd : s.ppc = .done) :
    (∀ w ∈ s.workers, w.pc = .exited) ∧ s.workQ = [] ∧ s.resQ = [] := by
  have hph := h.phase; unfold PhaseOK at hph; simp only [hd] at hph
  obtain ⟨hfd, hdt, hcl⟩ := hph
  obtain ⟨q1, q2, q3, q4, q5⟩ := main_quiet h.toMain hfd
  have hex : ∀ w ∈ s.workers, w.pc = .exited := by
    intro w hw
    apply h.joinedEx w hw
    rw [hd]; simp only [joined]
    rcases h.len with h' | h'
    · have := wid_lt_of_mem h.wids hw; omega
    · rw [h'.1] at hw; simp at hw
  refine ⟨hex, ?_, q3⟩
  apply queue_nil_of _ q1
  have := h.count; rw [hd, live_zero_iff.2 hex] at this; simp only [posted] at this; omega

end WindVerif.FMap
