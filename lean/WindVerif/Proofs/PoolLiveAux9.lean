import WindVerif.Proofs.PoolLiveAux8
import WindVerif.Proofs.PoolLiveAux2
/-! Liveness of the pool model (C02): the liveness invariant holds initially and along every step; hence no deadlock in
any state in which the safety, lifecycle and liveness invariants hold. -/
namespace WindVerif.Pool

theorem LiveInv_init (cfg : Cfg) (hw : WellCfg cfg) : LiveInv (init cfg) := by
  have hn : cfg.nWorkers ≠ 0 := by have := hw.1; omega
  have hcpc : (init cfg).cpc = .enterStart 0 := by unfold init; simp [hn]
  have hwk : ∀ w ∈ (init cfg).workers, ∃ k, k < cfg.nWorkers ∧ w = mkWorker cfg k := by
    intro w hw
    obtain ⟨k, hk, rfl⟩ := List.mem_map.1 hw
    exact ⟨k, List.mem_range.1 hk, rfl⟩
  have hlive : liveCnt (init cfg) = cfg.nWorkers := by
    unfold liveCnt
    have : ∀ w ∈ (init cfg).workers, (!gone w.pc) = true := by
      intro w hm; obtain ⟨k, _, rfl⟩ := hwk w hm; rfl
    rw [List.countP_eq_length.2 this]
    simp [init]
  have hpend : pending (init cfg) = [] := rfl
  have hprocs : (init cfg).procs = List.range cfg.nWorkers := rfl
  refine ⟨?_, ?_, ?_, ?_, ?_⟩
  · constructor
    · intro t ht; cases ht
    · rw [hcpc]; intro hh; cases hh
    · intro w hm hin; obtain ⟨k, _, rfl⟩ := hwk w hm; cases hin
    · intro w hm hp; obtain ⟨k, _, rfl⟩ := hwk w hm; simp [mkWorker] at hp
  · constructor
    · intro k hk
      rw [hprocs] at hk
      exact ⟨mkWorker cfg k, List.mem_map.2 ⟨k, hk, rfl⟩, rfl⟩
    · rw [hprocs]; simp [init]
    · rw [hcpc, hprocs]; simp [idxV]; omega
    · intro nw hh; cases hh
    · intro w hm _; obtain ⟨k, _, rfl⟩ := hwk w hm; exact Or.inl rfl
    · intro w hm hp; obtain ⟨k, _, rfl⟩ := hwk w hm; cases hp
  · constructor
    · rw [hcpc]; intro _ hh; cases hh
    · intro hh; cases hh
    · rw [hcpc]; rfl
    · intro w hm hp; obtain ⟨k, _, rfl⟩ := hwk w hm; cases hp
    · intro _ hh; cases hh
    · rw [hcpc]; intro hh; rcases hh with hh | hh | hh <;> cases hh
  · constructor
    · rw [hcpc]; intro hh; cases hh
    · rw [hcpc]; intro hh; cases hh
    · intro hh; cases hh
    · rw [hcpc]; intro hh; cases hh
    · intro hh; cases hh
    · rw [hcpc]; intro hh; cases hh
    · rw [hcpc]; intro hh; cases hh
  · have hss : stopsSent (init cfg) = 0 := by unfold stopsSent; rw [hcpc]; rfl
    have hnq : noneCount (init cfg).workQ = 0 := rfl
    have hpl : (init cfg).procs.length = cfg.nWorkers := by rw [hprocs]; simp
    constructor
    · rw [hlive, hpend, hpl]; simp
    · rw [hcpc]; intro hh; cases hh
    · rw [hcpc]; intro hh; cases hh
    · intro _; rw [hlive, hss, hnq, hpl]; omega

theorem LiveInv_step {s s' : St} {t : Tid} (hf : NoFaults s.cfg) (hw : WellCfg s.cfg) (hS : SafeInv s) (hL : LInv s)
    (hV : LiveInv s) (hM : MidI s) (h : step s t = some s') : LiveInv s' := by
  cases t with
  | c => exact LiveInv_stepC hS hL hV hM hw h
  | f => exact LiveInv_stepF hS hV h
  | r => exact LiveInv_stepR hL hV h
  | w wid => exact LiveInv_stepW hf hw hL hV h

end WindVerif.Pool
