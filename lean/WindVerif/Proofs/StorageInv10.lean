import WindVerif.Proofs.StorageInv9
/-! Auxiliary development for `Storage.lean`, part 10: the iteration layer `InvE` of the invariant. -/
namespace WindVerif.Storage
set_option linter.unusedSimpArgs false

@[simp] theorem entryLine'_setProc (s : St) (i : Nat) (p : Proc) (g : Nat) :
    entryLine' (setProc s i p) g = entryLine' s g := rfl
@[simp] theorem entryLine'_release (s : St) (i : Nat) (p : Proc) (g : Nat) :
    entryLine' (release s i p).1 g = entryLine' s g := by
  unfold entryLine'; simp
@[simp] theorem entryLine'_mk_lock (s : St) (f : Option Nat) (g : Nat) :
    entryLine' { s with lock := f } g = entryLine' s g := rfl

@[simp] theorem entryLine'_setProc_fn (s : St) (i : Nat) (p : Proc) :
    entryLine' (setProc s i p) = entryLine' s := rfl
@[simp] theorem entryLine'_release_fn (s : St) (i : Nat) (p : Proc) :
    entryLine' (release s i p).1 = entryLine' s := funext (entryLine'_release s i p)
@[simp] theorem entryLine'_mk_lock_fn (s : St) (f : Option Nat) :
    entryLine' { s with lock := f } = entryLine' s := rfl

/-- with an unchanged index, the lines of the entries do not change -/
theorem entryLine'_eq_of {s s' : St} (hB : InvB s) (hB' : InvB s') (hS : StepB s s') (hidx : s'.index = s.index)
    (g : Nat) : entryLine' s' g = entryLine' s g := by
  cases h : entryLine' s g with
  | some l => exact (hB.stable hB' hS h).1
  | none =>
    apply entryLine'_none
    intro w off hi
    rw [hidx] at hi
    rw [entryLine'_of_entry hi] at h; cases h

def isG : Pc → Bool
  | .gAcq | .gIdxLen | .gIdxGet | .gRelErr | .gRel | .gPathsGet | .gOpenR | .gSeek | .gReadline => true
  | _ => false

structure LocE (s : St) (p : Proc) : Prop where
  itInit : p.pc = .iAcq ∨ p.pc = .iIdxLen → p.iterAcc = []
  itRead : isG p.pc = true → p.inIter = true → p.iterLen = s.index.length ∧ p.iterPos < p.iterLen ∧ p.gid = p.iterPos ∧
    p.iterAcc = (List.range p.iterPos).filterMap (entryLine' s)
  itErr : p.pc = .gRelErr → p.inIter = true → entryLine' s p.gid = none
  itDone : p.pc = .iRel → p.iterAcc = (List.range s.index.length).filterMap (entryLine' s)

structure InvE (s : St) : Prop where
  loc : ∀ (i : Nat) (p : Proc), s.procs[i]? = some p → LocE s p

theorem LocE.of_notE {s : St} {p : Proc} (h1 : isG p.pc = false) (h2 : p.pc ≠ .iAcq) (h3 : p.pc ≠ .iIdxLen)
    (h4 : p.pc ≠ .iRel) : LocE s p := by
  constructor <;> intro h <;> cases hpc : p.pc <;> simp_all [isG]

theorem LocE.fetch {s : St} {p : Proc} (h : p.pc = .idle) : LocE s (fetch p) := by
  cases hsc : p.script with
  | nil =>
    simp only [Storage.fetch, hsc]
    exact LocE.of_notE (by simp [h, isG]) (by simp [h]) (by simp [h]) (by simp [h])
  | cons op rest =>
    cases op <;> simp only [Storage.fetch, hsc] <;> (try split) <;> (try split) <;> constructor <;> (intros; simp_all [isG])

theorem LocE.finish {s : St} {p : Proc} {r : Res} : LocE s (finish p r) := LocE.fetch rfl

theorem LocE.frame {scripts : List (List Op)} {s s' : St} {j : Nat} {q : Proc} (hE : LocE s q)
    (hAq : LocA scripts s j q) (hB : InvB s) (hB' : InvB s') (hS : StepB s s')
    (hidx : s.lock = some j → s'.index = s.index) : LocE s' q := by
  by_cases hlk : s.lock = some j
  · have hi := hidx hlk
    have he : entryLine' s' = entryLine' s := funext (entryLine'_eq_of hB hB' hS hi)
    obtain ⟨e1, e2, e3, e4⟩ := hE
    constructor <;> (try simp only [hi, he]) <;> assumption
  · have hd : dep q = 0 := by
      rcases Nat.eq_zero_or_pos (dep q) with h | h
      · exact h
      · exact absurd (hAq.lock.1 h) hlk
    constructor
    · exact hE.itInit
    · intro h1 h2
      exfalso; unfold dep at hd; cases hq : q.pc <;> simp_all [isG]
    · intro h1 h2
      exfalso; unfold dep at hd; simp [h1, h2] at hd
    · intro h1
      exfalso; unfold dep at hd; simp [h1] at hd

/-- general form of the preservation of `InvE` -/
theorem InvE.step_gen {scripts : List (List Op)} {s s' : St} {i : Nat} {p p' : Proc} (hA : InvA scripts s)
    (hB : InvB s) (hB' : InvB s') (hE : InvE s) (hp : s.procs[i]? = some p) (hF : StepA s s' i p p') (hS : StepB s s')
    (hloc : LocE s' p') : InvE s' := by
  constructor
  intro j q hq
  rw [hF.procs, getElem?_set_proc _ _ _ _ _ _ hp] at hq
  rcases hq with ⟨rfl, rfl⟩ | ⟨hji, hq⟩
  · exact hloc
  · refine (hE.loc j q hq).frame (hA.loc j q hq) hB hB' hS (fun h => ?_)
    exact (hF.shared (by rw [h]; simpa using hji)).1

set_option hygiene false in
macro "stepE " name:ident pc:term " => " tac:tacticSeq : command =>
  `(theorem $name {scripts : List (List Op)} {s s' : St} {i : Nat} {p : Proc} (hA : InvA scripts s) (hB : InvB s)
      (hE : InvE s) (hp : s.procs[i]? = some p) (hpc : p.pc = $pc)
      (hs : step s i = some s') : InvE s' := by
    have hL := hA.loc i p hp
    have hLB := hB.loc i p hp
    have hLE := hE.loc i p hp
    have hB' := hB.step hA hs
    have hS := StepB.of_step hA hB hs
    have hs0 := hs
    simp only [step, getProc_eq, hp, hpc] at hs0
    ($tac))

/-- steps after which the process is not inside a read or an iteration -/
macro "notE" : tactic =>
  `(tactic| exact LocE.of_notE (by simp [isG]) (by simp) (by simp) (by simp))

set_option hygiene false in
macro "outE" : tactic =>
  `(tactic| (
      simp only [Option.some.injEq] at hs0; subst hs0
      have hF := StepA.of_step' hA hp hs (p'' := _) (by first | rfl | rw [setProc_procs, release_fst_procs])
      refine InvE.step_gen hA hB hB' hE hp hF hS ?_
      first | exact LocE.finish | notE))

stepE InvE.s_oPathsLen .oPathsLen => outE
stepE InvE.s_oPathsAppend .oPathsAppend => outE
stepE InvE.s_oRel .oRel => outE
stepE InvE.s_oOpenW .oOpenW => outE
stepE InvE.s_oPathsGet .oPathsGet => outE
stepE InvE.s_oOpenA .oOpenA => outE
stepE InvE.s_sIdxLen2 .sIdxLen2 => outE
stepE InvE.s_sIdxExtend .sIdxExtend => outE
stepE InvE.s_sTell .sTell => outE
stepE InvE.s_sWriteText .sWriteText => outE
stepE InvE.s_sWriteNl .sWriteNl => outE
stepE InvE.s_sFlush .sFlush => outE
stepE InvE.s_sIdxSet .sIdxSet => outE
stepE InvE.s_sCntRead .sCntRead => outE
stepE InvE.s_sCntWrite .sCntWrite => outE
stepE InvE.s_sWfRead2 .sWfRead2 => outE
stepE InvE.s_sWfWrite1 .sWfWrite1 => outE
stepE InvE.s_sLoopWf .sLoopWf => outE
stepE InvE.s_sLoopWf2 .sLoopWf2 => outE
stepE InvE.s_sLoopWfR .sLoopWfR => outE
stepE InvE.s_sLoopWfW .sLoopWfW => outE
stepE InvE.s_sRel .sRel => outE
stepE InvE.s_sRelErr .sRelErr => outE
stepE InvE.s_lCnt .lCnt => outE
stepE InvE.s_cWf .cWf => outE
stepE InvE.s_cCnt .cCnt => outE
stepE InvE.s_xClose .xClose => outE
stepE InvE.s_iRel .iRel => outE
stepE InvE.s_sIdxLen1 .sIdxLen1 => split at hs0 <;> outE
stepE InvE.s_sIdxGet .sIdxGet => split at hs0 <;> outE
stepE InvE.s_sWfRead1 .sWfRead1 => split at hs0 <;> outE
stepE InvE.s_sLoopCnt .sLoopCnt => split at hs0 <;> outE
stepE InvE.s_sLoopIdx .sLoopIdx => split at hs0 <;> outE
stepE InvE.s_fAcq .fAcq => flushA
stepE InvE.s_fPathsGet .fPathsGet => flushA
stepE InvE.s_fRemove .fRemove => flushA
stepE InvE.s_fPathsClear .fPathsClear => flushA
stepE InvE.s_fIdxClear .fIdxClear => flushA
stepE InvE.s_fCntZero .fCntZero => flushA
stepE InvE.s_fWfZero .fWfZero => flushA
stepE InvE.s_fRel .fRel => flushA

set_option hygiene false in
macro "inE" : tactic =>
  `(tactic| (
      have hF := StepA.of_step' hA hp hs (p'' := _) (by first | rfl | rw [setProc_procs, release_fst_procs])
      refine InvE.step_gen hA hB hB' hE hp hF hS ?_
      clear hs hF hS hB'
      obtain ⟨e1, e2, e3, e4⟩ := hLE
      constructor <;> simp_all [isG] <;> (try (intro hin; obtain ⟨a1, a2, a3, a4⟩ := e2 hin; omega))))

stepE InvE.s_oAcq .oAcq => obtain ⟨d, rfl, hl⟩ := acquire_shape hs0; inE
stepE InvE.s_sAcq .sAcq => obtain ⟨d, rfl, hl⟩ := acquire_shape hs0; inE
stepE InvE.s_gAcq .gAcq => obtain ⟨d, rfl, hl⟩ := acquire_shape hs0; inE
stepE InvE.s_iAcq .iAcq => obtain ⟨d, rfl, hl⟩ := acquire_shape hs0; inE
stepE InvE.s_gPathsGet .gPathsGet => simp only [Option.some.injEq] at hs0; subst hs0; inE
stepE InvE.s_gOpenR .gOpenR => simp only [Option.some.injEq] at hs0; subst hs0; inE
stepE InvE.s_gSeek .gSeek => simp only [Option.some.injEq] at hs0; subst hs0; inE
stepE InvE.s_gRel .gRel => split at hs0 <;> (simp only [Option.some.injEq] at hs0; subst hs0; inE)
stepE InvE.s_gIdxLen .gIdxLen => split at hs0 <;> (simp only [Option.some.injEq] at hs0; subst hs0; inE)
stepE InvE.s_gIdxGet .gIdxGet =>
  split at hs0
  · simp only [Option.some.injEq] at hs0; subst hs0; inE
  · rename_i hne
    have hnone : entryLine' s p.gid = none := entryLine'_none hne
    simp only [Option.some.injEq] at hs0; subst hs0
    have hF := StepA.of_step' hA hp hs (p'' := _) rfl
    refine InvE.step_gen hA hB hB' hE hp hF hS ?_
    obtain ⟨e1, e2, e3, e4⟩ := hLE
    constructor
    · intro h; simp at h
    · intro _ hin; exact e2 (by simp [hpc, isG]) hin
    · intro _ _; exact hnone
    · intro h; simp at h
stepE InvE.s_iIdxLen .iIdxLen =>
  split at hs0
  · simp only [Option.some.injEq] at hs0; subst hs0; inE
  · rename_i hne
    have hpos : 0 < s.index.length := by omega
    simp only [Option.some.injEq] at hs0; subst hs0; inE

theorem LocE.iterAdvance {s : St} {p : Proc} (hlen : p.iterLen = s.index.length)
    (hpos : p.iterPos < p.iterLen) (hacc : p.iterAcc = (List.range (p.iterPos + 1)).filterMap (entryLine' s)) :
    LocE s (iterAdvance p) := by
  unfold Storage.iterAdvance
  dsimp only
  split
  · constructor <;> simp_all [isG]
  · have : p.iterPos + 1 = s.index.length := by omega
    constructor <;> simp_all [isG]

theorem filterMap_range_succ_none {f : Nat → Option (List (Option Nat))} {n : Nat} (h : f n = none) :
    (List.range (n + 1)).filterMap f = (List.range n).filterMap f := by
  rw [List.range_succ, List.filterMap_append]; simp [h]

theorem filterMap_range_succ_some {f : Nat → Option (List (Option Nat))} {n : Nat} {l : List (Option Nat)}
    (h : f n = some l) : (List.range (n + 1)).filterMap f = (List.range n).filterMap f ++ [l] := by
  rw [List.range_succ, List.filterMap_append]; simp [h]

stepE InvE.s_gRelErr .gRelErr =>
  cases hin : p.inIter
  · simp only [release_snd_inIter, hin, Bool.false_eq_true, if_false] at hs0
    outE
  · simp only [release_snd_inIter, hin, if_true] at hs0
    simp only [Option.some.injEq] at hs0; subst hs0
    have hF := StepA.of_step' hA hp hs (p'' := _) (by rw [setProc_procs, release_fst_procs])
    refine InvE.step_gen hA hB hB' hE hp hF hS ?_
    obtain ⟨a1, a2, a3, a4⟩ := hLE.itRead (by simp [hpc, isG]) hin
    have hnone := hLE.itErr hpc hin
    rw [a3] at hnone
    refine LocE.iterAdvance (by simpa using a1) (by simpa using a2) ?_
    simp only [release_snd_iterAcc, release_snd_iterPos, entryLine'_setProc_fn, entryLine'_release_fn]
    rw [filterMap_range_succ_none hnone]; exact a4

stepE InvE.s_gReadline .gReadline =>
  cases hin : p.inIter
  · simp only [hin, Bool.false_eq_true, if_false] at hs0
    outE
  · simp only [hin, if_true] at hs0
    simp only [Option.some.injEq] at hs0; subst hs0
    have hF := StepA.of_step' hA hp hs (p'' := _) rfl
    refine InvE.step_gen hA hB hB' hE hp hF hS ?_
    obtain ⟨a1, a2, a3, a4⟩ := hLE.itRead (by simp [hpc, isG]) hin
    have hsome := entryLine'_of_entry (hLB.rdIdx (Or.inr (Or.inr (Or.inr (Or.inr hpc)))))
    rw [a3] at hsome
    refine LocE.iterAdvance (by simpa using a1) (by simpa using a2) ?_
    simp only [entryLine'_setProc_fn]
    rw [filterMap_range_succ_some hsome, a4]

/-- the iteration layer is preserved by every step -/
theorem InvE.step {scripts : List (List Op)} {s s' : St} {i : Nat} (hA : InvA scripts s) (hB : InvB s)
    (hE : InvE s) (hs : step s i = some s') : InvE s' := by
  obtain ⟨p, hp⟩ := step_proc hs
  cases hpc : p.pc with
    | idle => simp [Storage.step, hp, hpc] at hs
    | oAcq => exact InvE.s_oAcq hA hB hE hp hpc hs
    | oPathsLen => exact InvE.s_oPathsLen hA hB hE hp hpc hs
    | oPathsAppend => exact InvE.s_oPathsAppend hA hB hE hp hpc hs
    | oRel => exact InvE.s_oRel hA hB hE hp hpc hs
    | oOpenW => exact InvE.s_oOpenW hA hB hE hp hpc hs
    | oPathsGet => exact InvE.s_oPathsGet hA hB hE hp hpc hs
    | oOpenA => exact InvE.s_oOpenA hA hB hE hp hpc hs
    | sAcq => exact InvE.s_sAcq hA hB hE hp hpc hs
    | sIdxLen1 => exact InvE.s_sIdxLen1 hA hB hE hp hpc hs
    | sIdxLen2 => exact InvE.s_sIdxLen2 hA hB hE hp hpc hs
    | sIdxExtend => exact InvE.s_sIdxExtend hA hB hE hp hpc hs
    | sIdxGet => exact InvE.s_sIdxGet hA hB hE hp hpc hs
    | sTell => exact InvE.s_sTell hA hB hE hp hpc hs
    | sWriteText => exact InvE.s_sWriteText hA hB hE hp hpc hs
    | sWriteNl => exact InvE.s_sWriteNl hA hB hE hp hpc hs
    | sFlush => exact InvE.s_sFlush hA hB hE hp hpc hs
    | sIdxSet => exact InvE.s_sIdxSet hA hB hE hp hpc hs
    | sCntRead => exact InvE.s_sCntRead hA hB hE hp hpc hs
    | sCntWrite => exact InvE.s_sCntWrite hA hB hE hp hpc hs
    | sWfRead1 => exact InvE.s_sWfRead1 hA hB hE hp hpc hs
    | sWfRead2 => exact InvE.s_sWfRead2 hA hB hE hp hpc hs
    | sWfWrite1 => exact InvE.s_sWfWrite1 hA hB hE hp hpc hs
    | sLoopWf => exact InvE.s_sLoopWf hA hB hE hp hpc hs
    | sLoopCnt => exact InvE.s_sLoopCnt hA hB hE hp hpc hs
    | sLoopWf2 => exact InvE.s_sLoopWf2 hA hB hE hp hpc hs
    | sLoopIdx => exact InvE.s_sLoopIdx hA hB hE hp hpc hs
    | sLoopWfR => exact InvE.s_sLoopWfR hA hB hE hp hpc hs
    | sLoopWfW => exact InvE.s_sLoopWfW hA hB hE hp hpc hs
    | sRelErr => exact InvE.s_sRelErr hA hB hE hp hpc hs
    | sRel => exact InvE.s_sRel hA hB hE hp hpc hs
    | gAcq => exact InvE.s_gAcq hA hB hE hp hpc hs
    | gIdxLen => exact InvE.s_gIdxLen hA hB hE hp hpc hs
    | gIdxGet => exact InvE.s_gIdxGet hA hB hE hp hpc hs
    | gRelErr => exact InvE.s_gRelErr hA hB hE hp hpc hs
    | gRel => exact InvE.s_gRel hA hB hE hp hpc hs
    | gPathsGet => exact InvE.s_gPathsGet hA hB hE hp hpc hs
    | gOpenR => exact InvE.s_gOpenR hA hB hE hp hpc hs
    | gSeek => exact InvE.s_gSeek hA hB hE hp hpc hs
    | gReadline => exact InvE.s_gReadline hA hB hE hp hpc hs
    | lCnt => exact InvE.s_lCnt hA hB hE hp hpc hs
    | cWf => exact InvE.s_cWf hA hB hE hp hpc hs
    | cCnt => exact InvE.s_cCnt hA hB hE hp hpc hs
    | iAcq => exact InvE.s_iAcq hA hB hE hp hpc hs
    | iIdxLen => exact InvE.s_iIdxLen hA hB hE hp hpc hs
    | iRel => exact InvE.s_iRel hA hB hE hp hpc hs
    | fAcq => exact InvE.s_fAcq hA hB hE hp hpc hs
    | fPathsGet => exact InvE.s_fPathsGet hA hB hE hp hpc hs
    | fRemove => exact InvE.s_fRemove hA hB hE hp hpc hs
    | fPathsClear => exact InvE.s_fPathsClear hA hB hE hp hpc hs
    | fIdxClear => exact InvE.s_fIdxClear hA hB hE hp hpc hs
    | fCntZero => exact InvE.s_fCntZero hA hB hE hp hpc hs
    | fWfZero => exact InvE.s_fWfZero hA hB hE hp hpc hs
    | fRel => exact InvE.s_fRel hA hB hE hp hpc hs
    | xClose => exact InvE.s_xClose hA hB hE hp hpc hs

theorem InvE.init (presize : Nat) (scripts : List (List Op)) : InvE (start (init presize scripts)) := by
  constructor
  intro i p hp
  simp only [start, Storage.init, List.map_map, List.getElem?_map, Option.map_eq_some_iff] at hp
  obtain ⟨sc, _, rfl⟩ := hp
  exact LocE.fetch rfl

theorem reach_ABE {scripts : List (List Op)} (hnf : ∀ sc ∈ scripts, Op.flush ∉ sc) {presize : Nat} {s : St}
    {sched : List Nat} (hr : run (start (init presize scripts)) sched = some s) :
    InvA scripts s ∧ InvB s ∧ InvE s :=
  run_preserves (fun s => InvA scripts s ∧ InvB s ∧ InvE s)
    (fun _ _ _ h hs => ⟨h.1.step hs, h.2.1.step h.1 hs, h.2.2.step h.1 h.2.1 hs⟩)
    ⟨InvA.init hnf presize, InvB.init presize scripts, InvE.init presize scripts⟩ hr

/-- the result of an iteration -/
theorem iter_result {s s' : St} {i : Nat} {p : Proc} (hE : InvE s)
    (hp : s.procs[i]? = some p) (hpc : p.pc = .iRel) (hs : step s i = some s') :
    ∃ p', s'.procs[i]? = some p' ∧
      p'.results = p.results ++ [.texts ((List.range s.index.length).filterMap (entryLine' s))] := by
  have hi : i < s.procs.length := by
    rcases Nat.lt_or_ge i s.procs.length with h' | h'
    · exact h'
    · simp [List.getElem?_eq_none h'] at hp
  simp only [Storage.step, getProc_eq, hp, hpc, Option.some.injEq] at hs
  subst hs
  refine ⟨?w, ?h1, ?h2⟩
  case h1 => simp only [setProc_procs, release_fst_procs]; exact List.getElem?_set_self hi
  simp only [finish_results, release_snd_results, release_snd_iterAcc]
  rw [(hE.loc i p hp).itDone hpc]

end WindVerif.Storage
