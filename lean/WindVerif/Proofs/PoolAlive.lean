import WindVerif.Proofs.PoolJoinTimeout
/-!
How many worker processes of a pool are alive at once (C03 / C04).

`ReplaceWorkerThread.run` JOINS the retired worker before it creates and starts the successor.  With `join_timeout=None`
(`Cfg.joinTimeout = false`) the join returns only when the retired process has exited, so a replacement never raises the
number of running worker processes: `alive_le_workers` — in every reachable state at most `nWorkers` worker processes run
(`aliveCnt`: pc neither `notStarted` nor `exited`); even together with the processes that are created but not yet started
(`alive_notStarted_le_workers`).  With a finite `join_timeout` the join may return while the retired worker is still inside
`end()` (`WPc.ending`) and the bound fails (`alive_exceeds_with_timeout`, `alive_grows_with_timeout`: one more running
process with every replacement); what remains true for every configuration is `alive_le_general`: the running processes
beyond `nWorkers` are retired workers inside `end()`.

Bookkeeping: the pool always lists exactly `nWorkers` distinct wids (`listed_length`, `listed_nodup`); the wids ever created
are `0 … widCounter-1`, and the number of workers ever created is `nWorkers` + the number of replacements performed
(`created_eq`; `replCount` = steps of the replace thread that create a successor), which is also `nWorkers` + the number of
workers the pool does not list any more (`created_unlisted`); without a join timeout all of those have exited
(`unlisted_exited`).  A plain `FunctorPool` never creates a worker after `__init__` (`created_plain`).

The invariants used are `LInv` (Proofs/PoolLifeAux2.lean: wids distinct, a worker that is not `gone` is listed), `UnlExited`
(Proofs/PoolExited.lean: without a join timeout an unlisted worker has exited — the replace thread's join blocks while the
retired worker is inside `end()`) and the small `AInv` below (wids are `range widCounter`, `procs` has no duplicates and length
`nWorkers`).  `liveCnt` (Proofs/PoolLiveAux1.lean) counts the workers that are not `gone` — it includes `notStarted` and
excludes `ending` —; `alive_balance` relates the two counts.
-/
namespace WindVerif.Pool

/-! ### the counts -/

/-- the worker is a running process: started and not exited -/
def running : WPc → Bool
  | .notStarted | .exited => false
  | _ => true

/-- number of running worker processes -/
def aliveCnt (s : St) : Nat := s.workers.countP (fun w => running w.pc)

/-- worker processes created (`_init_process`) but not started yet -/
def notStartedCnt (s : St) : Nat := s.workers.countP (fun w => w.pc == .notStarted)

/-- workers inside `end()` (stop order taken / wid posted / raised; the `finally:` of `run` still to finish) -/
def endingCnt (s : St) : Nat := s.workers.countP (fun w => w.pc == .ending)

/-- workers the pool does not list (any more) -/
def unlistedCnt (s : St) : Nat := s.workers.countP (fun w => !s.procs.contains w.wid)

/-- the step creates a successor: the replace thread at its `join` -/
def isJoin : RPc → Bool
  | .join _ => true
  | _ => false

def isRepl (s : St) (t : Tid) : Bool := decide (t = .r) && isJoin s.rpc

/-- number of replacements performed along a schedule (steps of the replace thread that create and list a successor) -/
def replCount (s : St) : List Tid → Nat
  | [] => 0
  | t :: ts =>
    match step s t with
    | none => 0
    | some s' => (if isRepl s t then 1 else 0) + replCount s' ts

/-! ### list facts -/

theorem nodup_subset_length_le {l m : List Nat} (hl : l.Nodup) (hs : ∀ a ∈ l, a ∈ m) : l.length ≤ m.length := by
  induction l generalizing m with
  | nil => exact Nat.zero_le _
  | cons a l ih =>
    rw [List.nodup_cons] at hl
    have ham : a ∈ m := hs a (List.mem_cons_self ..)
    have hsub : ∀ b ∈ l, b ∈ m.erase a := by
      intro b hb
      have hne : b ≠ a := fun e => hl.1 (e ▸ hb)
      exact (List.mem_erase_of_ne hne).2 (hs b (List.mem_cons_of_mem _ hb))
    have h1 := ih hl.2 hsub
    rw [List.length_erase_of_mem ham] at h1
    have h2 := List.length_pos_of_mem ham
    simp only [List.length_cons]; omega

/-- workers with distinct wids that all sit in `procs` are at most `procs.length` many -/
theorem countP_le_of_listed {l : List Worker} {p : Worker → Bool} {procs : List Nat}
    (hnd : (l.map (·.wid)).Nodup) (h : ∀ w ∈ l, p w = true → w.wid ∈ procs) : l.countP p ≤ procs.length := by
  rw [List.countP_eq_length_filter, ← List.length_map (f := (·.wid))]
  apply nodup_subset_length_le
  · exact ((List.filter_sublist (l := l)).map _).nodup hnd
  · intro a ha
    obtain ⟨w, hw, rfl⟩ := List.mem_map.1 ha
    rw [List.mem_filter] at hw
    exact h w hw.1 hw.2

theorem countP_balance {α} {l : List α} {p q r t : α → Bool}
    (h : ∀ x ∈ l, (if p x = true then 1 else 0) + (if q x = true then 1 else 0) =
      (if r x = true then 1 else 0) + (if t x = true then 1 else 0)) :
    l.countP p + l.countP q = l.countP r + l.countP t := by
  induction l with
  | nil => rfl
  | cons a l ih =>
    have h1 := h a (List.mem_cons_self ..)
    have h2 := ih (fun x hx => h x (List.mem_cons_of_mem _ hx))
    simp only [List.countP_cons]
    omega

/-- renaming one entry of a duplicate-free list to a fresh value keeps it duplicate-free -/
theorem nodup_rename {l : List Nat} {a nw : Nat} (hl : l.Nodup) (hnw : nw ∉ l) :
    (l.map (fun x => if x = a then nw else x)).Nodup := by
  induction l with
  | nil => exact List.nodup_nil
  | cons b l ih =>
    rw [List.nodup_cons] at hl
    have hnw' : nw ∉ l := fun hh => hnw (List.mem_cons_of_mem _ hh)
    have hnb : nw ≠ b := fun e => hnw (e ▸ List.mem_cons_self ..)
    rw [List.map_cons, List.nodup_cons]
    refine ⟨?_, ih hl.2 hnw'⟩
    intro hmem
    obtain ⟨c, hc, hce⟩ := List.mem_map.1 hmem
    by_cases hb : b = a
    · rw [if_pos hb] at hce
      by_cases hca : c = a
      · exact hl.1 (by rw [hb, ← hca]; exact hc)
      · rw [if_neg hca] at hce; exact hnw' (hce ▸ hc)
    · rw [if_neg hb] at hce
      by_cases hca : c = a
      · rw [if_pos hca] at hce; exact hnb hce
      · rw [if_neg hca] at hce; exact hl.1 (hce ▸ hc)

/-! ### what a step does to the listing and to the set of workers -/

/-- the step creates no worker and leaves the listing alone -/
structure KeepW (s s' : St) : Prop where
  procs : s'.procs = s.procs
  widCounter : s'.widCounter = s.widCounter
  wids : s'.workers.map (·.wid) = s.workers.map (·.wid)

/-- the step is a replacement: a fresh worker (not started) is created and takes the slot of the retired one -/
structure ReplW (s s' : St) (wid : Nat) : Prop where
  rpc : s.rpc = .join wid
  joined : workerExited s wid = true ∨ s.cfg.joinTimeout = true
  procs : s'.procs = s.procs.map (fun x => if x = wid then s.widCounter else x)
  widCounter : s'.widCounter = s.widCounter + 1
  workers : s'.workers = s.workers ++ [mkWorker s.cfg s.widCounter]

theorem stepR_shape {s s' : St} (h : stepR s = some s') :
    s.rAlive = true ∧ ((KeepW s s' ∧ isJoin s.rpc = false) ∨ ∃ wid, ReplW s s' wid) := by
  unfold stepR at h
  split at h
  · cases h
  · rename_i hal
    refine ⟨by simpa using hal, ?_⟩
    split at h
    · cases h
    · rename_i hrpc
      split at h
      · cases h
      · simp only [Option.some.injEq] at h; subst h
        exact Or.inl ⟨⟨rfl, rfl, rfl⟩, by rw [hrpc]; rfl⟩
      · simp only [Option.some.injEq] at h; subst h
        exact Or.inl ⟨⟨rfl, rfl, rfl⟩, by rw [hrpc]; rfl⟩
    · rename_i wid hrpc
      split at h
      · rename_i hj
        simp only [Option.some.injEq] at h; subst h
        exact Or.inr ⟨wid, hrpc, by simpa using hj, rfl, rfl, rfl⟩
      · cases h
    · rename_i nw hrpc
      split at h
      · cases h
      · rename_i w hg
        simp only [Option.some.injEq] at h; subst h
        refine Or.inl ⟨⟨rfl, rfl, ?_⟩, by rw [hrpc]; rfl⟩
        show (upd w.wid { w with pc := .bfClear } s.workers).map (·.wid) = _
        exact upd_wids _ rfl

theorem step_shape {s s' : St} {t : Tid} (h : step s t = some s') :
    (KeepW s s' ∧ isRepl s t = false) ∨ (t = .r ∧ s.rAlive = true ∧ ∃ wid, ReplW s s' wid) := by
  cases t with
  | c =>
    refine Or.inl ⟨⟨(stepC_procsM h).1, (stepC_procsM h).2, ?_⟩, rfl⟩
    rcases stepC_workers h with e | ⟨w, _, e⟩
    · rw [e]
    · rw [e]; exact upd_wids _ rfl
  | f =>
    refine Or.inl ⟨⟨(stepF_procsM h).1, (stepF_procsM h).2, ?_⟩, rfl⟩
    rw [(stepF_frameM h).2.1]
  | r =>
    obtain ⟨hal, hk | hr⟩ := stepR_shape h
    · exact Or.inl ⟨hk.1, by unfold isRepl; rw [hk.2]; rfl⟩
    · exact Or.inr ⟨rfl, hal, hr⟩
  | w k =>
    obtain ⟨w, w', _, _, _, hwid, _, _, hf⟩ := stepW_summary h
    refine Or.inl ⟨⟨hf.procs, hf.widCounter, ?_⟩, rfl⟩
    rw [hf.workers]; exact upd_wids _ hwid

/-! ### the bookkeeping invariant -/

structure AInv (s : St) : Prop where
  /-- the wids ever created are `0 … widCounter-1`, in creation order -/
  wids : s.workers.map (·.wid) = List.range s.widCounter
  procsNodup : s.procs.Nodup
  len : s.procs.length = s.cfg.nWorkers

theorem AInv_init (cfg : Cfg) : AInv (init cfg) := by
  refine ⟨?_, List.nodup_range, List.length_range⟩
  show (((List.range cfg.nWorkers).map (mkWorker cfg)).map (·.wid)) = List.range cfg.nWorkers
  rw [List.map_map]
  have : ((fun w : Worker => w.wid) ∘ mkWorker cfg) = id := rfl
  rw [this, List.map_id]

theorem AInv_step {s s' : St} {t : Tid} (hL : LInv s) (hA : AInv s) (h : step s t = some s') :
    AInv s' ∧ s'.workers.length = s.workers.length + (if isRepl s t then 1 else 0) := by
  have hcfg := step_cfg h
  rcases step_shape h with ⟨hk, hnr⟩ | ⟨ht, _, wid, hr⟩
  · refine ⟨⟨?_, ?_, ?_⟩, ?_⟩
    · rw [hk.wids, hk.widCounter]; exact hA.wids
    · rw [hk.procs]; exact hA.procsNodup
    · rw [hk.procs, hcfg]; exact hA.len
    · rw [hnr]
      have := congrArg List.length hk.wids
      simpa using this
  · have hfresh : s.widCounter ∉ s.procs := fun hm => Nat.lt_irrefl _ (hL.procsLt _ hm)
    refine ⟨⟨?_, ?_, ?_⟩, ?_⟩
    · rw [hr.workers, hr.widCounter, List.map_append, hA.wids, List.range_succ]; rfl
    · rw [hr.procs]; exact nodup_rename hA.procsNodup hfresh
    · rw [hr.procs, List.length_map, hcfg]; exact hA.len
    · have : isRepl s t = true := by unfold isRepl; rw [ht, hr.rpc]; rfl
      rw [this, hr.workers]; simp

theorem AInv_run {s s' : St} {sched : List Tid} (hL : LInv s) (hA : AInv s) (h : run s sched = some s') :
    AInv s' ∧ s'.workers.length = s.workers.length + replCount s sched := by
  induction sched generalizing s with
  | nil => simp only [run, Option.some.injEq] at h; subst h; exact ⟨hA, rfl⟩
  | cons t ts ih =>
    simp only [run] at h
    split at h
    · cases h
    · rename_i s1 hs1
      obtain ⟨hA1, hl1⟩ := AInv_step hL hA hs1
      obtain ⟨hA2, hl2⟩ := ih (LInv_step hL hs1) hA1 h
      refine ⟨hA2, ?_⟩
      simp only [replCount, hs1]
      omega

theorem AInv_reach {cfg : Cfg} {s : St} (h : Reach cfg s) : AInv s := by
  obtain ⟨sched, hs⟩ := h
  exact (AInv_run (LInv_init cfg) (AInv_init cfg) hs).1

/-- a plain `FunctorPool` has no replace thread: no step is a replacement -/
theorem replCount_plain {s s' : St} {sched : List Tid} (hL : LInv s) (hf : s.cfg.factory = false)
    (h : run s sched = some s') : replCount s sched = 0 := by
  induction sched generalizing s with
  | nil => rfl
  | cons t ts ih =>
    simp only [run] at h
    split at h
    · cases h
    · rename_i s1 hs1
      have hnr : isRepl s t = false := by
        rcases step_shape hs1 with ⟨_, hnr⟩ | ⟨_, hal, _⟩
        · exact hnr
        · have := (hL.rAliveIn hal).2; rw [hf] at this; cases this
      have := ih (LInv_step hL hs1) (by rw [step_cfg hs1]; exact hf) h
      simp only [replCount, hs1, hnr, this]
      rfl

/-! ### the listing -/

/-- the pool lists exactly `nWorkers` workers, always (a replacement overwrites a slot) -/
theorem listed_length (cfg : Cfg) (s : St) (h : Reach cfg s) : s.procs.length = cfg.nWorkers := by
  rw [← (LInv_reach h).2]; exact (AInv_reach h).len

/-- … and no wid twice -/
theorem listed_nodup (cfg : Cfg) (s : St) (h : Reach cfg s) : s.procs.Nodup := (AInv_reach h).procsNodup

/-- every listed wid is the wid of exactly one worker record -/
theorem listed_exists (cfg : Cfg) (s : St) (h : Reach cfg s) (wid : Nat) (hw : wid ∈ s.procs) :
    ∃ w ∈ s.workers, w.wid = wid := by
  have hlt := (LInv_reach h).1.procsLt wid hw
  have : wid ∈ s.workers.map (·.wid) := by rw [(AInv_reach h).wids]; exact List.mem_range.2 hlt
  obtain ⟨w, hw, he⟩ := List.mem_map.1 this
  exact ⟨w, hw, he⟩

/-! ### workers ever created -/

/-- the number of workers ever created is `nWorkers` + the number of replacements performed; their wids are
`0 … (number created) - 1` and the wid counter is that number -/
theorem created_eq (cfg : Cfg) (sched : List Tid) (s : St) (h : run (init cfg) sched = some s) :
    s.workers.length = cfg.nWorkers + replCount (init cfg) sched ∧ s.widCounter = s.workers.length ∧
    s.workers.map (·.wid) = List.range s.workers.length := by
  obtain ⟨hA, hl⟩ := AInv_run (LInv_init cfg) (AInv_init cfg) h
  have hw : s.workers.length = s.widCounter := by
    have := congrArg List.length hA.wids
    simpa using this
  refine ⟨?_, hw.symm, by rw [hw]; exact hA.wids⟩
  rw [hl]
  show ((List.range cfg.nWorkers).map (mkWorker cfg)).length + _ = _
  rw [List.length_map, List.length_range]

theorem created_le (cfg : Cfg) (sched : List Tid) (s : St) (h : run (init cfg) sched = some s) :
    s.workers.length ≤ cfg.nWorkers + replCount (init cfg) sched :=
  Nat.le_of_eq (created_eq cfg sched s h).1

/-- a plain `FunctorPool` (no factory) never creates a worker after `__init__` -/
theorem created_plain (cfg : Cfg) (hf : cfg.factory = false) (s : St) (h : Reach cfg s) :
    s.workers.length = cfg.nWorkers := by
  obtain ⟨sched, hs⟩ := h
  have := (created_eq cfg sched s hs).1
  rw [replCount_plain (LInv_init cfg) hf hs] at this
  exact this

/-- the workers the pool lists are exactly `nWorkers` many records -/
theorem listed_count (cfg : Cfg) (s : St) (h : Reach cfg s) :
    s.workers.countP (fun w => s.procs.contains w.wid) = cfg.nWorkers := by
  obtain ⟨hL, _⟩ := LInv_reach h
  rw [← listed_length cfg s h]
  apply Nat.le_antisymm
  · apply countP_le_of_listed hL.nodup
    intro w _ hp
    simpa using hp
  · rw [List.countP_eq_length_filter,
      ← List.length_map (f := fun w : Worker => w.wid) (as := s.workers.filter (fun w => s.procs.contains w.wid))]
    apply nodup_subset_length_le (listed_nodup cfg s h)
    intro a ha
    obtain ⟨w, hw, rfl⟩ := listed_exists cfg s h a ha
    exact List.mem_map.2 ⟨w, List.mem_filter.2 ⟨hw, by simpa using ha⟩, rfl⟩

/-- the number of workers ever created is `nWorkers` + the number of workers that are not listed any more (each
replacement unlists exactly one) -/
theorem created_unlisted (cfg : Cfg) (s : St) (h : Reach cfg s) : s.workers.length = cfg.nWorkers + unlistedCnt s := by
  have h1 := List.length_eq_countP_add_countP (fun w : Worker => s.procs.contains w.wid) (l := s.workers)
  rw [listed_count cfg s h] at h1
  rw [h1]
  unfold unlistedCnt
  congr 1
  apply List.countP_congr
  intro w _
  cases s.procs.contains w.wid <;> simp

/-- a worker that is not listed has left its loop for good: it has exited — or, with a join timeout, it may still be inside
`end()` -/
theorem unlisted_gone (cfg : Cfg) (s : St) (h : Reach cfg s) (w : Worker) (hw : w ∈ s.workers) (hn : w.wid ∉ s.procs) :
    w.pc = .exited ∨ (w.pc = .ending ∧ cfg.joinTimeout = true) := by
  obtain ⟨hL, hc⟩ := LInv_reach h
  cases hjt : cfg.joinTimeout
  · left; exact unlisted_exited' cfg hjt s h w hw hn
  · cases hg : gone w.pc
    · exact absurd (hL.listed w hw hg) hn
    · cases hp : w.pc <;> rw [hp] at hg <;> first | (left; rfl) | cases hg | skip
      right; exact ⟨rfl, rfl⟩

/-- without a join timeout every worker that is not listed any more has exited: the replaced workers hold nothing -/
theorem unlisted_exited (cfg : Cfg) (hjt : cfg.joinTimeout = false) (s : St) (h : Reach cfg s) (w : Worker)
    (hw : w ∈ s.workers) (hn : w.wid ∉ s.procs) : w.pc = .exited := by
  rcases unlisted_gone cfg s h w hw hn with e | ⟨_, e⟩
  · exact e
  · rw [hjt] at e; cases e

/-! ### running worker processes -/

/-- the workers that have not left their loop (created-but-not-started ones included) are never more than `nWorkers`, in
every configuration -/
theorem liveCnt_le_workers (cfg : Cfg) (s : St) (h : Reach cfg s) : liveCnt s ≤ cfg.nWorkers := by
  obtain ⟨hL, _⟩ := LInv_reach h
  rw [← listed_length cfg s h]
  apply countP_le_of_listed hL.nodup
  intro w hw hp
  exact hL.listed w hw (by simpa using hp)

/-- running + not yet started = not gone + inside `end()` -/
theorem alive_balance (s : St) : aliveCnt s + notStartedCnt s = liveCnt s + endingCnt s := by
  unfold aliveCnt notStartedCnt liveCnt endingCnt
  apply countP_balance
  intro w _
  cases w.pc <;> rfl

/-- every configuration: the running worker processes (and the ones created but not started) beyond `nWorkers` are retired
workers still inside `end()` -/
theorem alive_le_general (cfg : Cfg) (s : St) (h : Reach cfg s) :
    aliveCnt s + notStartedCnt s ≤ cfg.nWorkers + endingCnt s := by
  rw [alive_balance]
  exact Nat.add_le_add_right (liveCnt_le_workers cfg s h) _

/-- running or created-but-not-started = not exited -/
theorem alive_notStarted_eq (s : St) :
    aliveCnt s + notStartedCnt s = s.workers.countP (fun w => w.pc != .exited) + s.workers.countP (fun _ => false) := by
  unfold aliveCnt notStartedCnt
  apply countP_balance
  intro w _
  cases w.pc <;> rfl

/-- `join_timeout=None`: worker processes running or created-but-not-started are never more than `nWorkers`: each of them is
listed (a replaced worker has exited before its slot was overwritten — the replace thread's join blocks while the retired
worker is still inside `end()`), and the pool lists `nWorkers` distinct wids -/
theorem alive_notStarted_le_workers (cfg : Cfg) (hjt : cfg.joinTimeout = false) (s : St) (h : Reach cfg s) :
    aliveCnt s + notStartedCnt s ≤ cfg.nWorkers := by
  obtain ⟨hL, _⟩ := LInv_reach h
  rw [alive_notStarted_eq, ← listed_length cfg s h]
  have h0 : s.workers.countP (fun _ => false) = 0 := by rw [List.countP_eq_zero]; intro _ _ hh; cases hh
  rw [h0, Nat.add_zero]
  apply countP_le_of_listed hL.nodup
  intro w hw hp
  by_cases hn : w.wid ∈ s.procs
  · exact hn
  · have := unlisted_exited' cfg hjt s h w hw hn
    rw [this] at hp; cases hp

/-- **`join_timeout=None`: in every reachable state at most `nWorkers` worker processes are running** — a successor is
started only after the worker it replaces has exited, so replacement never raises the number of running processes -/
theorem alive_le_workers (cfg : Cfg) (hjt : cfg.joinTimeout = false) (s : St) (h : Reach cfg s) :
    aliveCnt s ≤ cfg.nWorkers :=
  Nat.le_trans (Nat.le_add_right _ _) (alive_notStarted_le_workers cfg hjt s h)

/-- the same, worker by worker: a running worker is listed, and at most one running worker per listed wid -/
theorem alive_listed (cfg : Cfg) (hjt : cfg.joinTimeout = false) (s : St) (h : Reach cfg s) (w : Worker)
    (hw : w ∈ s.workers) (hr : running w.pc = true) : w.wid ∈ s.procs := by
  by_cases hn : w.wid ∈ s.procs
  · exact hn
  · have := unlisted_exited cfg hjt s h w hw hn
    rw [this] at hr; cases hr

/-- `join_timeout=None`: whenever the replace thread PERFORMS its `join` step for worker `wid` (the step that creates the
successor: `step s .r = some s'` at `rpc = .join wid`), that worker has already exited.  RESTATED (hypothesis `hs` added): the
retired worker posts its wid and only then runs `end()`, so the replace thread can ARRIVE at the join while the worker is
still inside `end()` (`successor_join_waits`); the join then blocks until the exit -/
theorem successor_after_exit (cfg : Cfg) (hjt : cfg.joinTimeout = false) (s : St) (h : Reach cfg s) (wid : Nat)
    (hr : s.rpc = .join wid) (s' : St) (hs : step s .r = some s') : ∀ w ∈ s.workers, w.wid = wid → w.pc = .exited := by
  obtain ⟨hL, hc⟩ := LInv_reach h
  have hs : stepR s = some s' := hs
  unfold stepR at hs
  split at hs
  · cases hs
  · simp only [hr] at hs
    split at hs
    · rename_i hj
      rw [hc, hjt] at hj
      exact workerExited_all hL (by simpa using hj)
    · cases hs

/-- every configuration: the worker the replace thread is about to join has left its loop for good (exited or inside
`end()`) -/
theorem successor_after_gone (cfg : Cfg) (s : St) (h : Reach cfg s) (wid : Nat) (hr : s.rpc = .join wid) :
    ∀ w ∈ s.workers, w.wid = wid → gone w.pc = true := by
  obtain ⟨hL, _⟩ := LInv_reach h
  have hp : wid ∈ pending s := by unfold pending; rw [hr]; exact List.mem_append_left _ (List.mem_singleton.2 rfl)
  exact (hL.pend wid hp).2

/-! ### with a join timeout the bound fails -/

theorem jtSched_alive : (run (init jtCfg) jtSched).map (fun s => (aliveCnt s, s.workers.length)) = some (2, 2) := by
  decide +kernel

/-- finite `join_timeout`: a reachable state with `nWorkers + 1` running worker processes (the retired worker 0 inside
`end()`, its successor started) -/
theorem alive_exceeds_with_timeout :
    ∃ sched s, jtCfg.joinTimeout = true ∧ run (init jtCfg) sched = some s ∧ aliveCnt s = jtCfg.nWorkers + 1 := by
  obtain ⟨s, hs, hv⟩ := exists_of_map_eq jtSched_run
  obtain ⟨s2, hs2, hv2⟩ := exists_of_map_eq jtSched_alive
  rw [hs] at hs2; cases hs2
  simp only [Prod.mk.injEq] at hv2
  exact ⟨jtSched, s, rfl, hs, hv2.1⟩

/-- … the successor (worker 1) processes chunk 1, retires, and is replaced too while workers 0 and 1 are both still inside
`end()` -/
def jtSched2 : List Tid := jtSched ++ [.f, .w 1, .w 1, .w 1, .w 1, .w 1, .w 1, .w 1, .r, .r, .r]

theorem jtSched2_alive : (run (init jtCfg) jtSched2).map (fun s => (aliveCnt s, s.workers.map (fun w => (w.wid, w.pc)))) =
    some (3, [(0, .ending), (1, .ending), (2, .bfClear)]) := by
  decide +kernel

/-- finite `join_timeout`: the number of running worker processes grows with every replacement — a reachable state with
`nWorkers + 2` of them after two replacements -/
theorem alive_grows_with_timeout :
    ∃ sched s, jtCfg.joinTimeout = true ∧ run (init jtCfg) sched = some s ∧ replCount (init jtCfg) sched = 2 ∧
      aliveCnt s = jtCfg.nWorkers + 2 := by
  obtain ⟨s, hs, hv⟩ := exists_of_map_eq jtSched2_alive
  simp only [Prod.mk.injEq] at hv
  exact ⟨jtSched2, s, rfl, hs, by decide +kernel, hv.1⟩

/-- hence `alive_le_workers` needs its hypothesis `cfg.joinTimeout = false` -/
theorem alive_bound_needs_no_timeout : ¬ ∀ (cfg : Cfg) (s : St), Reach cfg s → aliveCnt s ≤ cfg.nWorkers := by
  intro hall
  obtain ⟨sched, s, _, hs, ha⟩ := alive_exceeds_with_timeout
  have := hall jtCfg s ⟨sched, hs⟩
  rw [ha] at this
  exact Nat.not_succ_le_self _ this

/-! ### non-vacuity: the same pool with `join_timeout=None` -/

/-- `jtCfg` without the join timeout: 1 worker, factory, quota 1, one ordered call of 2 chunks -/
def njCfg : Cfg := { jtCfg with joinTimeout := false }

/-- as `jtSched`, but the retiring worker 0 posts its wid, runs `end()` and exits (two steps) BEFORE the replace thread
moves (`join_timeout=None`): the replace thread's join finds it exited -/
def njSched : List Tid :=
  [.c, .c, .c, .c, .c, .c, .c, .w 0, .w 0, .f, .f, .f, .f, .f, .w 0, .w 0, .w 0, .w 0, .w 0, .w 0, .r, .r, .r]

/-- after the replacement: worker 0 exited, worker 1 listed and running — the bound `nWorkers = 1` is attained, two workers
have been created, one replacement performed, one worker unlisted -/
theorem njSched_run : (run (init njCfg) njSched).map
    (fun s => (s.procs, s.workers.map (fun w => (w.wid, w.pc)), aliveCnt s, unlistedCnt s)) =
    some ([1], [(0, .exited), (1, .bfClear)], 1, 1) ∧ replCount (init njCfg) njSched = 1 := by
  decide +kernel

/-- the other order: worker 0 posts its wid, the replace thread takes it and arrives at its join while worker 0 is still inside
`end()`: the join BLOCKS (the replace thread is not enabled; worker 0 is), one running process — the former form of
`successor_after_exit` (without the step) is false in this state -/
def njSchedWait : List Tid :=
  [.c, .c, .c, .c, .c, .c, .c, .w 0, .w 0, .f, .f, .f, .f, .f, .w 0, .w 0, .w 0, .w 0, .w 0, .r]

theorem successor_join_waits : (run (init njCfg) njSchedWait).map
    (fun s => (s.rpc, s.workers.map (fun w => (w.wid, w.pc)), (step s .r).isSome, (step s (.w 0)).isSome, aliveCnt s)) =
    some (.join 0, [(0, .ending)], false, true, 1) := by
  decide +kernel

end WindVerif.Pool
