import WindVerif.Spec.Cache
/-
The operation language of the cache property (stores, lookups, deletions, membership tests, views and the other
`MutableMapping` mixins) and its interpretation over any implementation of the three primitives.
-/
namespace WindVerif.Cache

inductive COp
  | set (k : Key) (v : Val) | get (k : Key) | del (k : Key) | has (k : Key)
  | len | keys | values | items
  | getd (k : Key) | pop (k : Key) | popitem | clear
  | update (ps : List (Key × Val)) | setdefault (k : Key) (v : Val) | eq (other : List (Key × Val))

/-- what the caller observes -/
inductive Out
  | unit | val (v : Val) | none | bool (b : Bool) | nat (n : Nat) | keys (ks : List Key) | vals (vs : List Val)
  | pairs (ps : List (Key × Val)) | err (e : Err)
  deriving DecidableEq

variable {σ : Type} (P : Prim σ)

def stepOp (s : σ) : COp → σ × Out
  | .set k v => match P.set s k v with | .ok s' => (s', .unit) | .error e => (s, .err e)
  | .get k => match P.get s k with | .ok (s', v) => (s', .val v) | .error e => (s, .err e)
  | .del k => match P.del s k with | .ok s' => (s', .unit) | .error e => (s, .err e)
  | .has k => match contains P s k with | .ok (s', b) => (s', .bool b) | .error e => (s, .err e)
  | .len => (s, .nat (P.len s))
  | .keys => (s, .keys (P.keys s))
  | .values => match items P s with | .ok (s', its) => (s', .vals (its.map (·.2))) | .error e => (s, .err e)
  | .items => match items P s with | .ok (s', its) => (s', .pairs its) | .error e => (s, .err e)
  | .getd k => match getD P s k with
    | .ok (s', some v) => (s', .val v)
    | .ok (s', Option.none) => (s', .none)
    | .error e => (s, .err e)
  | .pop k => match pop P s k with | .ok (s', v) => (s', .val v) | .error e => (s, .err e)
  | .popitem => match popitem P s with | .ok (s', k, v) => (s', .pairs [(k, v)]) | .error e => (s, .err e)
  | .clear => match clear P s with | .ok s' => (s', .unit) | .error e => (s, .err e)
  | .update ps => match update P s ps with | .ok s' => (s', .unit) | .error e => (s, .err e)
  | .setdefault k v => match setdefault P s k v with | .ok (s', w) => (s', .val w) | .error e => (s, .err e)
  | .eq other => match eqDict P s other with | .ok (s', b) => (s', .bool b) | .error e => (s, .err e)

/-- run a history; returns the final state and everything the caller observed -/
def runOps (s : σ) : List COp → σ × List Out
  | [] => (s, [])
  | op :: ops =>
    let (s', o) := stepOp P s op
    let (s'', os) := runOps s' ops
    (s'', o :: os)

/-- all mixins are transported by a simulation -/
structure MixinSim {σ τ : Type} (P : Prim σ) (Q : Prim τ) (R : σ → τ → Prop) : Prop where
  contains   : ∀ s t k, R s t → RelRes R s t (contains P s k) (contains Q t k)
  getD       : ∀ s t k, R s t → RelRes R s t (getD P s k) (getD Q t k)
  items      : ∀ s t, R s t → RelRes R s t (items P s) (items Q t)
  pop        : ∀ s t k, R s t → RelRes R s t (pop P s k) (pop Q t k)
  popitem    : ∀ s t, R s t → RelRes R s t (popitem P s) (popitem Q t)
  clear      : ∀ s t, R s t → RelSt R s t (clear P s) (clear Q t)
  update     : ∀ s t ps, R s t → RelSt R s t (update P s ps) (update Q t ps)
  setdefault : ∀ s t k v, R s t → RelRes R s t (setdefault P s k v) (setdefault Q t k v)
  eqDict     : ∀ s t o, R s t → RelRes R s t (eqDict P s o) (eqDict Q t o)

end WindVerif.Cache
