import WindVerif.Model.Cache
import WindVerif.Spec.Dll
/-
Abstract specifications of the two caches and the notion of simulation that transports every `MutableMapping` mixin
from the concrete (dict + linked list) model to the abstract one.
-/
namespace WindVerif.Cache
open WindVerif.Dll

/-! ## Simulation between two implementations of the primitive operations -/

/-- outputs agree and the relation is re-established; errors agree and (on the concrete side) change nothing -/
def RelRes {σ τ α} (R : σ → τ → Prop) (s : σ) (t : τ) : Except Err (σ × α) → Except Err (τ × α) → Prop
  | .ok (s', a), .ok (t', b) => R s' t' ∧ a = b
  | .error e, .error e' => e = e' ∧ R s t
  | _, _ => False

def RelSt {σ τ} (R : σ → τ → Prop) (s : σ) (t : τ) : Except Err σ → Except Err τ → Prop
  | .ok s', .ok t' => R s' t'
  | .error e, .error e' => e = e' ∧ R s t
  | _, _ => False

structure Sim {σ τ : Type} (P : Prim σ) (Q : Prim τ) (R : σ → τ → Prop) : Prop where
  get  : ∀ s t k, R s t → RelRes R s t (P.get s k) (Q.get t k)
  set  : ∀ s t k v, R s t → RelSt R s t (P.set s k v) (Q.set t k v)
  del  : ∀ s t k, R s t → RelSt R s t (P.del s k) (Q.del t k)
  keys : ∀ s t, R s t → P.keys s = Q.keys t
  len  : ∀ s t, R s t → P.len s = Q.len t

/-! ## LRU: the abstract cache is the list of `(key, value)` from the most to the least recently used -/

namespace LruSpec

abbrev St := List (Key × Val)

def without (l : St) (k : Key) : St := l.filter (fun p => p.1 ≠ k)

def get (l : St) (k : Key) : Except Err (St × Val) :=
  match l.lookup k with
  | some v => .ok ((k, v) :: without l k, v)
  | none => .error .keyError

def set (cap : Nat) (l : St) (k : Key) (v : Val) : Except Err St :=
  if (l.lookup k).isSome then .ok ((k, v) :: without l k)
  else if l.length ≥ cap then .ok ((k, v) :: l.dropLast)
  else .ok ((k, v) :: l)

def del (l : St) (k : Key) : Except Err St :=
  if (l.lookup k).isSome then .ok (without l k) else .error .keyError

def prim (cap : Nat) : Prim St := ⟨get, set cap, del, fun l => l.map (·.1), fun l => l.length⟩

/-- well-formed abstract state -/
def Wf (cap : Nat) (l : St) : Prop := (l.map (·.1)).Nodup ∧ l.length ≤ cap

end LruSpec

/-- what the concrete LRU state represents -/
def Lru.abs (s : Lru) : LruSpec.St := (walkF s.dll s.dll.size.toNat s.dll.head).map s.data

/-- consistency of the concrete LRU state: the linked list is consistent, dict and list describe the same key set, every
dict entry points at the node that carries its key, keys are not repeated, the capacity is respected -/
structure Lru.Inv (s : Lru) : Prop where
  cap_pos : 1 ≤ s.cap
  rep     : ∃ l, Rep s.dll l ∧ l.length ≤ s.cap ∧ (l.map (fun n => (s.data n).1)).Nodup ∧
              (∀ k n, (k, n) ∈ s.cache ↔ (n ∈ l ∧ (s.data n).1 = k)) ∧ s.cache.length = l.length
  dict    : (s.cache.map (·.1)).Nodup

def Lru.R (cap : Nat) (s : Lru) (t : LruSpec.St) : Prop := s.Inv ∧ s.cap = cap ∧ s.abs = t

/-! ### LRU by time stamps: the textbook definition, against which the move-to-front list is justified -/

namespace LruTs

/-- entries with the time of their last use; `clock` is larger than every stamp -/
structure St where
  entries : List (Key × Val × Nat)
  clock   : Nat

def lookup (t : St) (k : Key) : Option (Val × Nat) := (t.entries.map (fun e => (e.1, (e.2.1, e.2.2)))).lookup k

def without (t : St) (k : Key) : List (Key × Val × Nat) := t.entries.filter (fun e => e.1 ≠ k)

/-- an entry whose stamp is the least -/
def IsOldest (t : St) (e : Key × Val × Nat) : Prop := e ∈ t.entries ∧ ∀ e' ∈ t.entries, e.2.2 ≤ e'.2.2

/-- the list `l` (most recent first) presents the stamped entries: same entries, ordered by strictly descending stamp -/
def Presents (l : LruSpec.St) (t : St) : Prop :=
  ∃ stamps : List Nat, stamps.length = l.length ∧ stamps.Pairwise (· > ·) ∧ (∀ x ∈ stamps, x < t.clock) ∧
    t.entries = List.zipWith (fun p c => (p.1, p.2, c)) l stamps

end LruTs

/-! ## LFU: the abstract cache is the list of `(key, value, count)` in list order (non-decreasing count) -/

namespace LfuSpec

abbrev St := List (Key × Val × Nat)

def lookup (l : St) (k : Key) : Option (Val × Nat) := (l.map (fun e => (e.1, (e.2.1, e.2.2)))).lookup k

def without (l : St) (k : Key) : St := l.filter (fun e => e.1 ≠ k)

/-- put the entry behind all entries with a smaller count that follow position-wise: the code's `_inc_freq` walk.
`insertBump e l` inserts `e` into `l` (which is the rest of the list *behind* the old position of `e`) in front of the
first entry whose count is not smaller than `e`'s. -/
def insertBump (e : Key × Val × Nat) : St → St
  | [] => [e]
  | x :: xs => if x.2.2 < e.2.2 then x :: insertBump e xs else e :: x :: xs

/-- bump the count of key `k` (and optionally store a new value) and move it to its place -/
def bump (k : Key) (newVal : Option Val) : St → St
  | [] => []
  | x :: xs =>
    if x.1 = k then insertBump (k, (newVal.getD x.2.1), x.2.2 + 1) xs
    else x :: bump k newVal xs

def get (l : St) (k : Key) : Except Err (St × Val) :=
  match lookup l k with
  | some (v, _) => .ok (bump k none l, v)
  | none => .error .keyError

def set (cap : Nat) (l : St) (k : Key) (v : Val) : Except Err St :=
  if (lookup l k).isSome then .ok (bump k (some v) l)
  else if l.length ≥ cap then
    match l with
    | [] => .error .attributeError
    | _ :: xs => .ok ((k, v, 1) :: xs)
  else .ok ((k, v, 1) :: l)

def del (l : St) (k : Key) : Except Err St :=
  if (lookup l k).isSome then .ok (without l k) else .error .keyError

def prim (cap : Nat) : Prim St := ⟨get, set cap, del, fun l => l.map (·.1), fun l => l.length⟩

/-- well-formed: keys not repeated, size within capacity, counts positive and non-decreasing along the list -/
def Wf (cap : Nat) (l : St) : Prop :=
  (l.map (·.1)).Nodup ∧ l.length ≤ cap ∧ (l.map (·.2.2)).Pairwise (· ≤ ·) ∧ ∀ e ∈ l, 1 ≤ e.2.2

end LfuSpec

def Lfu.abs (s : Lfu) : LfuSpec.St := (walkF s.dll s.dll.size.toNat s.dll.head).map s.data

structure Lfu.Inv (s : Lfu) : Prop where
  cap_pos : 1 ≤ s.cap
  rep     : ∃ l, Rep s.dll l ∧ l.length ≤ s.cap ∧ (l.map (fun n => (s.data n).1)).Nodup ∧
              (∀ k n, (k, n) ∈ s.cache ↔ (n ∈ l ∧ (s.data n).1 = k)) ∧ s.cache.length = l.length ∧
              (l.map (fun n => (s.data n).2.2)).Pairwise (· ≤ ·) ∧ (∀ n ∈ l, 1 ≤ (s.data n).2.2)
  dict    : (s.cache.map (·.1)).Nodup

def Lfu.R (cap : Nat) (s : Lfu) (t : LfuSpec.St) : Prop := s.Inv ∧ s.cap = cap ∧ s.abs = t

end WindVerif.Cache
