import WindVerif.Model.Pool
/-
Specification side of the pool model: reachability, the observables of a call, and the safety invariant (conservation of
chunks) from which the result theorems of C01/C03 follow.  `safeCheck` is the executable twin of `SafeInv` used to fuzz the
invariant on random schedules before proving it.
-/
namespace WindVerif.Pool

/-- reachable from the initial state of a configuration by some schedule -/
def Reach (cfg : Cfg) (s : St) : Prop := ∃ sched, run (init cfg) sched = some s

/-- no injected worker faults (the hypothesis of C01–C03: functors and `begin` return normally) -/
def NoFaults (cfg : Cfg) : Prop := cfg.beginFault = [] ∧ cfg.itemFault = []

/-- chunk indices the current call has emitted so far, in emission order -/
def curOut (s : St) : List Nat := (s.out.filter (fun p => p.1 == s.callNo)).map (·.2)

/-- chunk indices call number `k` emitted -/
def outOf (s : St) (k : Nat) : List Nat := (s.out.filter (fun p => p.1 == k)).map (·.2)

/-- the consumer has not yet started the feeder of the current call -/
def preStart (s : St) : Bool :=
  match s.cpc with
  | .enterStart _ | .readyWait _ | .nextCall | .rInitSet | .rStart | .fInitSet | .wrSending | .wrDataCnt | .fStart => true
  | _ => false

/-- the consumer has left the result loop of the current call -/
def postLoop (s : St) : Bool :=
  match s.cpc with
  | .fStopSet | .fJoin | .rPutNone | .rStopSet | .rJoin => true
  | _ => false

/-- number of chunks the feeder has put on the work queue in the current call -/
def sent (s : St) : Nat :=
  if preStart s || s.cur.isNone then 0 else
  match s.fpc with
  | .put => s.fNext
  | .rdCnt | .wrCnt | .stopIsSet | .runWait => s.fNext + 1
  | .wrSending | .token | .idle => s.fTotal

def chunksOf (q : List (Option Nat)) : List Nat := q.filterMap id
def heldChunks (s : St) : List Nat := s.workers.filterMap (·.held)

/-- every place a chunk of the current call can be -/
def places (s : St) : List Nat :=
  chunksOf s.workQ ++ heldChunks s ++ chunksOf s.resQ ++ s.batch ++ s.buffer ++ curOut s

/-- the safety invariant -/
structure SafeInv (s : St) : Prop where
  /-- conservation: every chunk sent so far is in exactly one place; nothing else is anywhere -/
  conserve : s.cur.isSome → (places s).Perm (List.range (sent s))
  /-- outside a call nothing is in flight -/
  idle : s.cur = none → chunksOf s.workQ = [] ∧ heldChunks s = [] ∧ chunksOf s.resQ = [] ∧ s.batch = [] ∧ s.buffer = []
  /-- bookkeeping of the consumer -/
  fin : s.cur.isSome → s.finished = (curOut s).length
  ordered : ∀ c, s.cur = some c → c.ordered = true → curOut s = List.range s.wf
  unordered : ∀ c, s.cur = some c → c.ordered = false → s.buffer = []
  total : ∀ c, s.cur = some c → preStart s = false → s.fTotal = c.chunks
  /-- the two progress flags -/
  sendingTrue : preStart s = false → s.cur.isSome →
    (s.sending = true ↔ (s.fpc = .put ∨ s.fpc = .rdCnt ∨ s.fpc = .wrCnt ∨ s.fpc = .stopIsSet ∨ s.fpc = .runWait ∨
      s.fpc = .wrSending))
  cntPut : preStart s = false → s.cur.isSome → (s.fpc = .put ∨ s.fpc = .rdCnt) → s.dataCnt = s.fNext ∧ s.fNext < s.fTotal
  cntWr : preStart s = false → s.cur.isSome → s.fpc = .wrCnt → s.dataCnt = s.fNext ∧ s.fRead = s.fNext ∧ s.fNext < s.fTotal
  cntAfter : preStart s = false → s.cur.isSome → (s.fpc = .stopIsSet ∨ s.fpc = .runWait) →
    s.dataCnt = s.fNext + 1 ∧ s.fNext < s.fTotal
  cntDone : preStart s = false → s.cur.isSome → (s.fpc = .wrSending ∨ s.fpc = .token ∨ s.fpc = .idle) → s.dataCnt = s.fTotal
  alive : s.fAlive = (s.fpc != .idle)
  preIdle : preStart s = true → s.fpc = .idle
  readCnt : s.cpc = .rdDataCnt → s.sending = false
  post : postLoop s = true → s.sending = false ∧ s.finished = s.fTotal
  noCall : s.cur = none → preStart s = true ∨ (match s.cpc with | .exitPut _ | .exitJoin _ | .done => True | _ => False)
  batchEmpty : (match s.cpc with | .qsize2 | .getNowait | .lockRel => False | _ => True) → s.batch = []
  wids : (s.workers.map (·.wid)).Nodup
  -- clauses added to make the invariant inductive (they hold in every reachable state, but the clauses above alone are
  -- preserved only together with them)
  /-- worker ids are below the counter (freshness of the successor's wid) -/
  widLt : ∀ w ∈ s.workers, w.wid < s.widCounter
  /-- a worker has a chunk in its hands only between `work_queue.get()` and the successful put of the result -/
  heldPc : ∀ w ∈ s.workers, w.held.isSome →
    (w.pc = .lockAcq ∨ w.pc = .putNowait ∨ w.pc = .putBlock ∨ (w.pc = .lockRel ∧ w.full = true))
  /-- the process the replace thread is about to start has not been started -/
  startFresh : ∀ nw, s.rpc = .start nw → ∀ w ∈ s.workers, w.wid = nw → w.pc = .notStarted
  /-- no replace thread during `__enter__` -/
  enterR : ∀ i, s.cpc = .enterStart i → s.rpc = .idle
  /-- no feeder outside a call, nor after it has been joined -/
  noCallF : s.cur = none → s.fpc = .idle
  postF : (s.cpc = .rPutNone ∨ s.cpc = .rStopSet ∨ s.cpc = .rJoin) → s.fpc = .idle
  /-- the stop event of the feeder is set only after it has left its loop -/
  stopF : s.fStop = true → (s.fpc = .token ∨ s.fpc = .idle)
  /-- what the consumer has written before it starts the feeder -/
  setupStop : (s.cpc = .wrSending ∨ s.cpc = .wrDataCnt ∨ s.cpc = .fStart) → s.fStop = false
  setupSending : (s.cpc = .wrDataCnt ∨ s.cpc = .fStart) → s.sending = true
  setupCnt : s.cpc = .fStart → s.dataCnt = 0
  /-- emitted entries carry call numbers seen so far -/
  outLe : ∀ p ∈ s.out, p.1 ≤ s.callNo

/-- executable twin of `SafeInv` (for fuzzing the invariant; not used in proofs) -/
def safeCheck (s : St) : List String :=
  let bad (name : String) (b : Bool) : List String := if b then [] else [name]
  let active := !preStart s && s.cur.isSome
  let fIn (l : List FPc) := l.contains s.fpc
  bad "conserve" (s.cur.isNone || (places s).mergeSort (· ≤ ·) == List.range (sent s)) ++
  bad "idle" (s.cur.isSome || (chunksOf s.workQ == [] && heldChunks s == [] && chunksOf s.resQ == [] && s.batch == [] && s.buffer == [])) ++
  bad "fin" (s.cur.isNone || s.finished == (curOut s).length) ++
  bad "ordered" (match s.cur with | some c => !c.ordered || curOut s == List.range s.wf | none => true) ++
  bad "unordered" (match s.cur with | some c => c.ordered || s.buffer == [] | none => true) ++
  bad "total" (match s.cur with | some c => preStart s || s.fTotal == c.chunks | none => true) ++
  bad "sendingTrue" (!active || (s.sending == fIn [.put, .rdCnt, .wrCnt, .stopIsSet, .runWait, .wrSending])) ++
  bad "cntPut" (!active || !fIn [.put, .rdCnt] || (s.dataCnt == s.fNext && s.fNext < s.fTotal)) ++
  bad "cntWr" (!active || !fIn [.wrCnt] || (s.dataCnt == s.fNext && s.fRead == s.fNext && s.fNext < s.fTotal)) ++
  bad "cntAfter" (!active || !fIn [.stopIsSet, .runWait] || (s.dataCnt == s.fNext + 1 && s.fNext < s.fTotal)) ++
  bad "cntDone" (!active || !fIn [.wrSending, .token, .idle] || s.dataCnt == s.fTotal) ++
  bad "alive" (s.fAlive == (s.fpc != .idle)) ++
  bad "preIdle" (!preStart s || s.fpc == .idle) ++
  bad "readCnt" (s.cpc != .rdDataCnt || s.sending == false) ++
  bad "post" (!postLoop s || (s.sending == false && s.finished == s.fTotal)) ++
  bad "noCall" (s.cur.isSome || preStart s || (match s.cpc with | .exitPut _ | .exitJoin _ | .done => true | _ => false)) ++
  bad "batchEmpty" ((match s.cpc with | .qsize2 | .getNowait | .lockRel => true | _ => false) || s.batch == []) ++
  bad "wids" ((s.workers.map (·.wid)).eraseDups.length == s.workers.length) ++
  bad "widLt" (s.workers.all (fun w => decide (w.wid < s.widCounter))) ++
  bad "heldPc" (s.workers.all (fun w => w.held.isNone || w.pc == .lockAcq || w.pc == .putNowait || w.pc == .putBlock ||
    (w.pc == .lockRel && w.full))) ++
  bad "startFresh" (match s.rpc with
    | .start nw => s.workers.all (fun w => w.wid != nw || w.pc == .notStarted)
    | _ => true) ++
  bad "enterR" (match s.cpc with | .enterStart _ => s.rpc == .idle | _ => true) ++
  bad "noCallF" (s.cur.isSome || s.fpc == .idle) ++
  bad "postF" (!(s.cpc == .rPutNone || s.cpc == .rStopSet || s.cpc == .rJoin) || s.fpc == .idle) ++
  bad "stopF" (!s.fStop || fIn [.token, .idle]) ++
  bad "setupStop" (!(s.cpc == .wrSending || s.cpc == .wrDataCnt || s.cpc == .fStart) || !s.fStop) ++
  bad "setupSending" (!(s.cpc == .wrDataCnt || s.cpc == .fStart) || s.sending) ++
  bad "setupCnt" (s.cpc != .fStart || s.dataCnt == 0) ++
  bad "outLe" (s.out.all (fun p => decide (p.1 ≤ s.callNo)))

end WindVerif.Pool

namespace WindVerif.Pool

/-! ## data level: chunks of the input and what the caller receives -/

/-- the `chunking` generator of `SendWorkThread.run`: consecutive chunks of `k` elements, a shorter non-empty last one -/
def chunkingGo {α} (k : Nat) : List α → List α → List (List α)
  | acc, [] => if acc.length > 0 then [acc] else []
  | acc, x :: r =>
    let acc' := acc ++ [x]
    if acc'.length = k then acc' :: chunkingGo k [] r else chunkingGo k acc' r

def chunking {α} (data : List α) (k : Nat) : List (List α) := chunkingGo k [] data

/-- what the caller receives when the chunks are emitted in the order `order` (each chunk mapped element-wise) -/
def yielded {α β} (f : α → β) (data : List α) (k : Nat) (order : List Nat) : List β :=
  order.flatMap (fun i => (((chunking data k)[i]?).getD []).map f)

/-! ## worker lifecycle (C04) -/

def isItem : WEv → Bool
  | .item _ => true
  | _ => false

def itemCount (w : Worker) : Nat := (w.log.filter isItem).length

/-- the event log of a worker has the shape `begin · item* · end`, cut off where the worker currently is -/
def LifeOk (cfg : Cfg) (w : Worker) : Prop :=
  (match w.pc with
   | .notStarted | .bfClear => w.log = []
   | .exited => ∃ items, (∀ e ∈ items, isItem e = true) ∧ w.log = .begin :: items ++ [.end_]
   | _ => ∃ items, (∀ e ∈ items, isItem e = true) ∧ w.log = .begin :: items) ∧
  (∀ q, cfg.quota = some q → itemCount w ≤ q)

def lifeCheck (cfg : Cfg) (w : Worker) : Bool :=
  let items := w.log.filter isItem
  let shape := match w.pc with
    | .notStarted | .bfClear => w.log == []
    | .exited => w.log == WEv.begin :: items ++ [.end_]
    | _ => w.log == WEv.begin :: items
  shape && (match cfg.quota with | some q => decide (items.length ≤ q) | none => true)

/-- every worker ever created has finished -/
def AllExited (s : St) : Prop := ∀ w ∈ s.workers, w.pc = .exited

/-- the worker has left its loop for good: it has exited, or it has done what ends its loop (stop order taken, wid posted to
the replace queue, quota of a plain pool used up, `begin()` / the functor raised) and has only `end()` left to run -/
def gone : WPc → Bool
  | .exited | .ending => true
  | _ => false

def lifeCheckAll (s : St) : List String :=
  (s.workers.filter (fun w => !lifeCheck s.cfg w)).map (fun w => s!"life{w.wid}") ++
  (if s.cpc == .done && !s.cfg.joinTimeout && s.workers.any (fun w => w.pc != .exited) then ["exit_joins_all"] else []) ++
  (if s.cfg.waitReady && (match s.cpc with | .enterStart _ | .readyWait _ => false | _ => true) &&
      s.workers.any (fun w => w.wid < s.cfg.nWorkers && !w.log.contains .begin) then ["ready_after_begin"] else [])

end WindVerif.Pool

namespace WindVerif.Pool

/-! ## liveness side (C02): no deadlock, termination

D19 repaired: the liveness theorems need no hypothesis on the work-queue bound any more (the former `ExitCap`: plain pool,
or unbounded, or at least one slot per worker).  `__exit__` posts its stop orders with a timeout in a loop and leaves the
loop when the queue is full and every listed worker has an exit code, so workers that retired unreplaced (which take no
stop order) cannot block it. -/

/-- well-formed configuration of the property -/
def WellCfg (cfg : Cfg) : Prop :=
  1 ≤ cfg.nWorkers ∧ (∀ c, cfg.resCap = some c → 1 ≤ c) ∧ (∀ q, cfg.quota = some q → 1 ≤ q ∧ cfg.factory = true) ∧
  (cfg.factory = true → cfg.quota.isSome ∨ True)

def inLoop (s : St) : Bool :=
  match s.cpc with
  | .rdSending | .rdDataCnt | .qsize1 | .lockAcq | .qsize2 | .getNowait | .lockRel | .getBlock
  | .flowClear | .flowIsSet | .flowSet => true
  | _ => false

def getPath (s : St) : Bool :=
  match s.cpc with
  | .qsize1 | .lockAcq | .qsize2 | .getNowait | .lockRel | .getBlock => true
  | _ => false

def exitPhase (s : St) : Bool :=
  match s.cpc with
  | .exitPut _ | .exitJoin _ | .done => true
  | _ => false

def noneCount (q : List (Option Nat)) : Nat := (q.filter Option.isNone).length

def wpc (s : St) (wid : Nat) : Option WPc := (getWorker s wid).map (·.pc)

/-- executable candidate clauses of the liveness invariant (fuzzed; the proof may need to adjust them) -/
def liveCheck (s : St) : List String :=
  let bad (name : String) (b : Bool) : List String := if b then [] else [name]
  let cIn := match s.cpc with | .qsize2 | .getNowait | .lockRel => true | _ => false
  let started (wid : Nat) := match wpc s wid with | some .notStarted => false | some _ => true | none => false
  -- left its loop for good (`gone`): exited, or only `end()` left (`.ending`)
  let goneW (wid : Nat) := match wpc s wid with | some p => gone p | none => false
  -- L1 lock discipline
  bad "L1c" ((s.lock == some .c) == cIn) ++
  bad "L1w" (s.workers.all (fun w => (s.lock == some (.w w.wid)) == (w.pc == .putNowait || w.pc == .lockRel))) ++
  bad "L1o" (s.lock != some .f && s.lock != some .r) ++
  -- L2 every listed worker is started once the enter phase is over (or R is about to start it)
  bad "L2" ((match s.cpc with | .enterStart _ => true | _ => false) ||
            s.procs.all (fun wid => started wid || s.rpc == .start wid)) ++
  bad "L2e" (match s.cpc with
             | .enterStart i => (List.range s.procs.length).all (fun j =>
                 match s.procs[j]? with | some wid => (started wid) == decide (j < i) | none => true)
             | _ => true) ++
  -- L3 a listed worker that has exited: plain pool only in the exit phase; factory: its id waits for / is at the replace thread
  bad "L3" (s.procs.all (fun wid => !(goneW wid) || exitPhase s ||
            (s.cfg.factory && (s.replQ.contains (some wid) || s.rpc == .join wid)))) ++
  bad "L3n" (exitPhase s || !(s.workQ.contains none)) ++
  -- L4 the replace thread lives exactly from its start to the consumption of its stop token
  bad "L4a" (!s.cfg.factory || !(inLoop s || postLoop s && s.cpc != .rJoin && s.cpc != .rStopSet ||
             (match s.cpc with | .fInitSet | .wrSending | .wrDataCnt | .fStart => true | _ => false)) ||
             (s.rAlive && !(s.replQ.contains none))) ++
  bad "L4b" (s.rAlive == (s.rpc != .idle)) ++
  bad "L4c" (!(s.cpc == .rStopSet || s.cpc == .rJoin) || !s.rAlive || s.replQ.contains none) ++
  bad "L4d" (s.cfg.factory || (!s.rAlive && s.replQ == [])) ++
  bad "L4e" (!(preStart s && s.cpc != .fInitSet && s.cpc != .wrSending && s.cpc != .wrDataCnt && s.cpc != .fStart && s.cpc != .rStart) ||
             exitPhase s || !s.rAlive) ++
  -- L5 wake-up token: feeder finished, everything emitted, consumer looking for results it has not found yet → a token waits
  bad "L5" (!(inLoop s && getPath s && s.batch == [] && !s.woken && s.fpc == .idle && s.finished == s.fTotal) ||
            s.resQ.contains none) ++
  -- L6 the reorder buffer never holds the chunk it waits for
  bad "L6" (!(s.buffer.contains s.wf)) ++
  -- L7 flow control engaged only with a full reorder buffer
  bad "L7" (!(inLoop s && !s.fRun && s.cpc != .flowIsSet && s.cpc != .flowSet) || bufferFull s) ++
  -- L8 exit phase: no chunk anywhere, the stop orders match the live listed workers
  bad "L8a" (!exitPhase s || (chunksOf s.workQ == [] && !s.fAlive && !s.rAlive)) ++
  bad "L8b" (match s.cpc with
             | .exitJoin _ | .done =>
               decide (noneCount s.workQ + (s.procs.filter goneW).length ≥ s.procs.length)
             | _ => true) ++
  -- L9 a worker that is neither started nor exited holds nothing and waits at a well-defined pc
  bad "L9" (s.workers.all (fun w => (w.held.isSome == (w.pc == .lockAcq || w.pc == .putNowait || w.pc == .putBlock ||
            (w.pc == .lockRel && w.full))))) ++
  -- feeder events
  bad "L10" (!(s.fpc == .runWait || s.fpc == .stopIsSet) || !s.fStop) ++
  -- clauses added for the proof (`LiveInv` in Proofs/PoolLiveAux1.lean)
  (let pend := (match s.rpc with | .join wid => [wid] | _ => []) ++ s.replQ.filterMap id
   let liveCnt := s.workers.countP (fun w => !gone w.pc)
   let stopsSent := match s.cpc with | .exitPut i => i | .exitJoin _ | .done => s.procs.length | _ => 0
   let rCall := match s.cpc with
     | .fInitSet | .wrSending | .wrDataCnt | .fStart | .fStopSet | .fJoin | .rPutNone | .midReady _ _ => true
     | _ => inLoop s
   let setup := match s.cpc with
     | .rInitSet | .rStart | .fInitSet | .wrSending | .wrDataCnt | .fStart => true
     | _ => false
   bad "M_lockH" (match s.lock with
     | none => true
     | some .c => cIn
     | some (.w wid) => s.workers.any (fun w => w.wid == wid && (w.pc == .putNowait || w.pc == .lockRel))
     | _ => false) ++
   bad "M_lockC" (!cIn || s.lock == some .c) ++
   bad "M_procsEx" (s.procs.all (fun wid => (getWorker s wid).isSome)) ++
   bad "M_procsLen" (s.procs.length == s.cfg.nWorkers) ++
   bad "M_idx" (match s.cpc with
     | .enterStart i | .readyWait i | .exitPut i | .exitJoin i => decide (i < s.procs.length)
     | _ => true) ++
   bad "M_rStartIn" (match s.rpc with | .start nw => s.procs.contains nw | _ => true) ++
   bad "M_bfPc" (s.workers.all (fun w => w.bf || w.pc == .notStarted || w.pc == .bfClear || w.pc == .bfSet)) ++
   bad "M_retireF" (s.workers.all (fun w => w.pc != .retire || s.cfg.factory)) ++
   bad "M_rLive" (!s.cfg.factory || !rCall || s.rAlive) ++
   bad "M_tokR" (noneCount s.replQ == (if (s.cpc == .rStopSet || s.cpc == .rJoin) && s.rAlive then 1 else 0)) ++
   bad "M_exitedL" (s.workers.all (fun w => !gone w.pc || !s.procs.contains w.wid || exitPhase s ||
     (s.cfg.factory && pend.contains w.wid))) ++
   bad "M_curSome" (!setup || s.cur.isSome) ++
   bad "M_curNone" (!exitPhase s || s.cur.isNone) ++
   bad "M_wokenPc" (!s.woken || cIn) ++
   bad "M_runSetup" (!(s.cpc == .wrSending || s.cpc == .wrDataCnt || s.cpc == .fStart) || s.fRun) ++
   bad "M_cnt1" (decide (liveCnt + pend.length ≤ s.procs.length)) ++
   bad "M_cnt2" (!exitPhase s || decide (liveCnt + stopsSent ≤ noneCount s.workQ + s.procs.length)) ++
   bad "M_cnt3" (!exitPhase s || decide (noneCount s.workQ ≤ stopsSent)) ++
   bad "M_cnt4" (s.cfg.factory || decide (noneCount s.workQ + s.procs.length ≤ liveCnt + stopsSent)) ++
   bad "M_flowClear" (s.cpc != .flowClear || bufferFull s) ++
   bad "M_rFac" (!(s.cpc == .rPutNone || s.cpc == .rStopSet || s.cpc == .rJoin) || s.cfg.factory) ++
   -- mid-call `until_all_ready()` (`MidI` in Proofs/PoolLiveAux1.lean): the worker waited for exists; flow control is
   -- engaged only in an ordered call
   bad "M_midEx" (match s.cpc with | .midReady _ wid => (getWorker s wid).isSome | _ => true) ++
   bad "M_midFlow" (match s.cpc with
     | .midReady _ _ => s.fRun || (match s.cur with | some c => c.ordered | none => false)
     | _ => true))

/-- stuck: nobody can move although the caller has not finished -/
def stuck (s : St) : Bool := s.cpc != .done && (enabledTids s).isEmpty

end WindVerif.Pool
