import WindVerif.Model.Dll
/-
Abstract specification of the doubly linked list: the reference sequence of node identities, the operations on it,
and the representation predicate that says "the pointer structure `d` represents the sequence `l`".
-/
namespace WindVerif.Dll

/-- doubly linked segment: the nodes of `l`, in order, are linked to each other; the first one's `prev` is `p`
and the last one's `next` is `q`. -/
def Seg (d : Dll) : Option Node → List Node → Option Node → Prop
  | _, [], _ => True
  | p, x :: xs, q => d.prev x = p ∧ d.next x = (match xs with | [] => q | y :: _ => some y) ∧ Seg d (some x) xs q

/-- `d` represents the sequence `l`: head/tail, every prev/next link and the length are mutually consistent. -/
structure Rep (d : Dll) (l : List Node) : Prop where
  nodup : l.Nodup
  seg   : Seg d none l none
  head  : d.head = l.head?
  tail  : d.tail = l.getLast?
  size  : d.size = (l.length : Int)
  fresh : ∀ x ∈ l, x < d.fresh

/-- the operations of the list, on node identities -/
inductive Op
  | append | prepend
  | remove (n : Node) | popBack | popFront
  | moveToFront (n : Node) | moveToBack (n : Node) | moveAfter (n a : Node)
  | rotate (frontToBack : Bool)
  deriving _root_.Repr

/-- insert `n` right behind `a` -/
def insertAfter (n a : Node) : List Node → List Node
  | [] => []
  | x :: xs => if x = a then x :: n :: xs else x :: insertAfter n a xs

/-- the reference sequence semantics; `fresh` = identity the next created node gets -/
def specOp (l : List Node) (fresh : Node) : Op → List Node
  | .append => l ++ [fresh]
  | .prepend => fresh :: l
  | .remove n => l.erase n
  | .popBack => l.dropLast
  | .popFront => l.tail
  | .moveToFront n => n :: l.erase n
  | .moveToBack n => l.erase n ++ [n]
  | .moveAfter n a => if n = a then l else insertAfter n a (l.erase n)
  | .rotate true => match l with
    | [] => []
    | x :: xs => xs ++ [x]
  | .rotate false => match l.getLast? with
    | none => []
    | some t => t :: l.dropLast

/-- the property's restriction: node arguments belong to the list. (Pops on the empty list raise `IndexError` and leave
the list unchanged — covered here too, `[].dropLast = []` —; moves on the empty list raise `RuntimeError`, which cannot
happen for a member node.) -/
def Op.Valid (l : List Node) : Op → Prop
  | .remove n => n ∈ l
  | .moveToFront n => n ∈ l
  | .moveToBack n => n ∈ l
  | .moveAfter n a => n ∈ l ∧ a ∈ l
  | _ => True

/-- the model operation; an operation that raises leaves the structure as it is -/
def applyOp (d : Dll) : Op → Dll
  | .append => (append d).1
  | .prepend => (prepend d).1
  | .remove n => remove d n
  | .popBack => match popBack d with | .ok (d', _) => d' | .error _ => d
  | .popFront => match popFront d with | .ok (d', _) => d' | .error _ => d
  | .moveToFront n => match moveToFront d n with | .ok d' => d' | .error _ => d
  | .moveToBack n => match moveToBack d n with | .ok d' => d' | .error _ => d
  | .moveAfter n a => moveAfter d n a
  | .rotate b => rotate d b

/-- run a whole operation sequence on the model and on the reference sequence side by side -/
def runOps : Dll → List Node → List Op → Dll × List Node
  | d, l, [] => (d, l)
  | d, l, op :: ops => runOps (applyOp d op) (specOp l d.fresh op) ops

/-- every operation of the sequence is applied to member nodes of the list as it is at that moment -/
def ValidSeq : Dll → List Node → List Op → Prop
  | _, _, [] => True
  | d, l, op :: ops => op.Valid l ∧ ValidSeq (applyOp d op) (specOp l d.fresh op) ops

end WindVerif.Dll
