import WindVerif.Proofs.CacheSim
import WindVerif.Proofs.LruRefine
import WindVerif.Proofs.LruSpec
/-!
# C06 — LRUCache is a bounded mapping that evicts exactly the least recently used key

Property theorems only; proofs are in `Proofs/LruRefine.lean` (dict + linked list ⟶ recency list), `Proofs/CacheSim.lean`
(a simulation of the primitives transports every `MutableMapping` mixin and every history) and `Proofs/LruSpec.lean`
(the recency list against the textbook time-stamp definition of LRU, and the mixins on it).

Reading guide: `lru_refines` + `mixins_refine` + `run_refines` say that *every history* of stores, lookups, deletions,
membership tests, views and mixins on the concrete model (the code's dict and linked list) is observationally equal to the
same history on the abstract recency list `LruSpec`; the remaining theorems are about that abstract list.
-/
namespace WindVerif.C06
open WindVerif.Cache WindVerif.Dll

section refinement
theorem lru_init (cap : Nat) (h : 1 ≤ cap) : Lru.R cap (Lru.new cap) [] := by
  first | exact WindVerif.Cache.lru_init .. | (apply WindVerif.Cache.lru_init <;> assumption)

/-- the relation implies well-formedness of the abstract state -/
theorem lru_R_wf (cap : Nat) (s : Lru) (t : LruSpec.St) (h : Lru.R cap s t) : LruSpec.Wf cap t ∧ 1 ≤ cap := by
  first | exact WindVerif.Cache.lru_R_wf .. | (apply WindVerif.Cache.lru_R_wf <;> assumption)

/-- the dict + linked-list model simulates the abstract recency list on the three primitives -/
theorem lru_refines (cap : Nat) : Sim lruPrim (LruSpec.prim cap) (Lru.R cap) := lru_sim cap

/-- hence on every mixin (`in`, `get`, `values`/`items`, `pop`, `popitem`, `clear`, `update`, `setdefault`, `==`) -/
theorem lru_mixins_refine (cap : Nat) : MixinSim lruPrim (LruSpec.prim cap) (Lru.R cap) :=
  mixins_refine (lru_sim cap)

/-- and on every finite history from a fresh cache: the caller observes exactly what the abstract cache shows, all
operations are total (they are functions) and the consistency invariant of dict and list holds at the end -/
theorem lru_run_refines (cap : Nat) (h : 1 ≤ cap) (ops : List COp) :
    (runOps lruPrim (Lru.new cap) ops).2 = (runOps (LruSpec.prim cap) [] ops).2 ∧
    Lru.R cap (runOps lruPrim (Lru.new cap) ops).1 (runOps (LruSpec.prim cap) [] ops).1 :=
  run_refines (lru_sim cap) _ _ (lru_init cap h) ops

/-- the cache never holds more than `max_size` entries and never two entries for one key, after any history -/
theorem lru_bounded (cap : Nat) (h : 1 ≤ cap) (ops : List COp) :
    LruSpec.Wf cap (runOps (LruSpec.prim cap) [] ops).1 ∧
    (runOps lruPrim (Lru.new cap) ops).1.cache.length ≤ cap := by
  have hr := (lru_run_refines cap h ops).2
  have hw := (lru_R_wf cap _ _ hr).1
  refine ⟨hw, ?_⟩
  have hlen : (runOps lruPrim (Lru.new cap) ops).1.cache.length
      = (runOps (LruSpec.prim cap) [] ops).1.length := (lru_sim cap).len _ _ hr
  rw [hlen]; exact hw.2

end refinement

section abstract
open WindVerif.Cache.LruSpec
/-- well-formedness (no repeated key, at most `cap` entries) is preserved by every primitive -/
theorem wf_get (cap : Nat) (l l' : St) (k : Key) (v : Val) (h : Wf cap l) (hg : get l k = .ok (l', v)) : Wf cap l' := by
  first | exact WindVerif.Cache.LruSpec.wf_get .. | (apply WindVerif.Cache.LruSpec.wf_get <;> assumption)

theorem wf_set (cap : Nat) (hc : 1 ≤ cap) (l : St) (k : Key) (v : Val) (h : Wf cap l) :
    ∃ l', set cap l k v = .ok l' ∧ Wf cap l' := by
  first | exact WindVerif.Cache.LruSpec.wf_set .. | (apply WindVerif.Cache.LruSpec.wf_set <;> assumption)

theorem wf_del (cap : Nat) (l l' : St) (k : Key) (h : Wf cap l) (hd : del l k = .ok l') : Wf cap l' := by
  first | exact WindVerif.Cache.LruSpec.wf_del .. | (apply WindVerif.Cache.LruSpec.wf_del <;> assumption)

/-- a lookup returns what is stored, fails with `KeyError` exactly for absent keys, and changes no content -/
theorem get_spec (cap : Nat) (l : St) (k : Key) (h : Wf cap l) :
    (∀ v, l.lookup k = some v → ∃ l', get l k = .ok (l', v) ∧ l'.Perm l ∧ l'.head? = some (k, v)) ∧
    (l.lookup k = none → get l k = .error .keyError) := by
  first | exact WindVerif.Cache.LruSpec.get_spec .. | (apply WindVerif.Cache.LruSpec.get_spec <;> assumption)

/-- after `c[k] = v` a lookup of `k` gives `v`; every other key that is still present keeps its value -/
theorem lookup_after_set (cap : Nat) (hc : 1 ≤ cap) (l l' : St) (k : Key) (v : Val) (h : Wf cap l)
    (hs : set cap l k v = .ok l') :
    l'.lookup k = some v ∧ ∀ k', k' ≠ k → ∀ w, l'.lookup k' = some w → l.lookup k' = some w := by
  first | exact WindVerif.Cache.LruSpec.lookup_after_set .. | (apply WindVerif.Cache.LruSpec.lookup_after_set <;> assumption)

/-- storing a new key into a full cache removes exactly the last (least recently used) entry and nothing else -/
theorem evicts_exactly_lru (cap : Nat) (hc : 1 ≤ cap) (l : St) (k : Key) (v : Val) (h : Wf cap l)
    (hfull : l.length = cap) (hnew : l.lookup k = none) :
    ∃ init last, l = init ++ [last] ∧ set cap l k v = .ok ((k, v) :: init) := by
  first | exact WindVerif.Cache.LruSpec.evicts_exactly_lru .. | (apply WindVerif.Cache.LruSpec.evicts_exactly_lru <;> assumption)

/-- with room left nothing is removed; storing to a present key removes nothing either -/
theorem no_eviction (cap : Nat) (l l' : St) (k : Key) (v : Val) (h : Wf cap l)
    (hroom : l.length < cap ∨ (l.lookup k).isSome) (hs : set cap l k v = .ok l') :
    ∀ k', (l.lookup k').isSome → (l'.lookup k').isSome := by
  first | exact WindVerif.Cache.LruSpec.no_eviction .. | (apply WindVerif.Cache.LruSpec.no_eviction <;> assumption)

/-- deletion removes exactly the key -/
theorem del_spec (cap : Nat) (l : St) (k : Key) (h : Wf cap l) :
    ((l.lookup k).isSome → ∃ l', del l k = .ok l' ∧ l'.lookup k = none ∧
        ∀ k', k' ≠ k → l'.lookup k' = l.lookup k') ∧
    (l.lookup k = none → del l k = .error .keyError) := by
  first | exact WindVerif.Cache.LruSpec.del_spec .. | (apply WindVerif.Cache.LruSpec.del_spec <;> assumption)

theorem presents_get (l l' : St) (t : LruTs.St) (k : Key) (v : Val) (hp : LruTs.Presents l t)
    (hg : get l k = .ok (l', v)) :
    LruTs.Presents l' { entries := (k, v, t.clock) :: LruTs.without t k, clock := t.clock + 1 } := by
  first | exact WindVerif.Cache.LruSpec.presents_get .. | (apply WindVerif.Cache.LruSpec.presents_get <;> assumption)

theorem presents_set_present (cap : Nat) (l l' : St) (t : LruTs.St) (k : Key) (v : Val) (hp : LruTs.Presents l t)
    (hin : (l.lookup k).isSome) (hs : set cap l k v = .ok l') :
    LruTs.Presents l' { entries := (k, v, t.clock) :: LruTs.without t k, clock := t.clock + 1 } := by
  first | exact WindVerif.Cache.LruSpec.presents_set_present .. | (apply WindVerif.Cache.LruSpec.presents_set_present <;> assumption)

theorem presents_set_evict (cap : Nat) (hc : 1 ≤ cap) (l l' : St) (t : LruTs.St) (k : Key) (v : Val)
    (hw : Wf cap l) (hp : LruTs.Presents l t) (hnew : l.lookup k = none) (hfull : l.length = cap)
    (hs : set cap l k v = .ok l') :
    ∃ e, LruTs.IsOldest t e ∧
      LruTs.Presents l' { entries := (k, v, t.clock) :: t.entries.filter (· ≠ e), clock := t.clock + 1 } := by
  first | exact WindVerif.Cache.LruSpec.presents_set_evict .. | (apply WindVerif.Cache.LruSpec.presents_set_evict <;> assumption)

theorem presents_set_room (cap : Nat) (l l' : St) (t : LruTs.St) (k : Key) (v : Val) (hp : LruTs.Presents l t)
    (hnew : l.lookup k = none) (hroom : l.length < cap) (hs : set cap l k v = .ok l') :
    LruTs.Presents l' { entries := (k, v, t.clock) :: t.entries, clock := t.clock + 1 } := by
  first | exact WindVerif.Cache.LruSpec.presents_set_room .. | (apply WindVerif.Cache.LruSpec.presents_set_room <;> assumption)

theorem presents_del (l l' : St) (t : LruTs.St) (k : Key) (hp : LruTs.Presents l t) (hd : del l k = .ok l') :
    LruTs.Presents l' { entries := LruTs.without t k, clock := t.clock } := by
  first | exact WindVerif.Cache.LruSpec.presents_del .. | (apply WindVerif.Cache.LruSpec.presents_del <;> assumption)

theorem items_spec (cap : Nat) (l : St) (h : Wf cap l) :
    ∃ l', items (prim cap) l = .ok (l', l) ∧ l'.Perm l := by
  first | exact WindVerif.Cache.LruSpec.items_spec .. | (apply WindVerif.Cache.LruSpec.items_spec <;> assumption)

theorem contains_spec (cap : Nat) (l : St) (k : Key) (h : Wf cap l) :
    ∃ l', contains (prim cap) l k = .ok (l', (l.lookup k).isSome) ∧ l'.Perm l := by
  first | exact WindVerif.Cache.LruSpec.contains_spec .. | (apply WindVerif.Cache.LruSpec.contains_spec <;> assumption)

theorem getD_spec (cap : Nat) (l : St) (k : Key) (h : Wf cap l) :
    ∃ l', getD (prim cap) l k = .ok (l', l.lookup k) ∧ l'.Perm l := by
  first | exact WindVerif.Cache.LruSpec.getD_spec .. | (apply WindVerif.Cache.LruSpec.getD_spec <;> assumption)

theorem pop_spec (cap : Nat) (l : St) (k : Key) (h : Wf cap l) :
    (∀ v, l.lookup k = some v → pop (prim cap) l k = .ok (without l k, v)) ∧
    (l.lookup k = none → pop (prim cap) l k = .error .keyError) := by
  first | exact WindVerif.Cache.LruSpec.pop_spec .. | (apply WindVerif.Cache.LruSpec.pop_spec <;> assumption)

theorem popitem_spec (cap : Nat) (l : St) (h : Wf cap l) :
    match l with
    | [] => popitem (prim cap) l = .error .keyError
    | (k, v) :: r => popitem (prim cap) l = .ok (r, k, v) := by
  first | exact WindVerif.Cache.LruSpec.popitem_spec .. | (apply WindVerif.Cache.LruSpec.popitem_spec <;> assumption)

theorem clear_spec (cap : Nat) (l : St) (h : Wf cap l) : clear (prim cap) l = .ok [] := by
  first | exact WindVerif.Cache.LruSpec.clear_spec .. | (apply WindVerif.Cache.LruSpec.clear_spec <;> assumption)

theorem update_total (cap : Nat) (hc : 1 ≤ cap) (l : St) (ps : List (Key × Val)) (h : Wf cap l) :
    ∃ l', update (prim cap) l ps = .ok l' ∧ Wf cap l' := by
  first | exact WindVerif.Cache.LruSpec.update_total .. | (apply WindVerif.Cache.LruSpec.update_total <;> assumption)

theorem setdefault_spec (cap : Nat) (hc : 1 ≤ cap) (l : St) (k : Key) (v : Val) (h : Wf cap l) :
    (∀ w, l.lookup k = some w → ∃ l', setdefault (prim cap) l k v = .ok (l', w) ∧ l'.Perm l) ∧
    (l.lookup k = none → ∃ l', setdefault (prim cap) l k v = .ok (l', v) ∧ set cap l k v = .ok l') := by
  first | exact WindVerif.Cache.LruSpec.setdefault_spec .. | (apply WindVerif.Cache.LruSpec.setdefault_spec <;> assumption)

theorem eq_spec (cap : Nat) (l : St) (other : List (Key × Val)) (h : Wf cap l)
    (ho : (other.map (·.1)).Nodup) :
    ∃ l' b, eqDict (prim cap) l other = .ok (l', b) ∧ l'.Perm l ∧
      (b = true ↔ ∀ k, l.lookup k = other.lookup k) := by
  first | exact WindVerif.Cache.LruSpec.eq_spec .. | (apply WindVerif.Cache.LruSpec.eq_spec <;> assumption)

end abstract

/-- non-vacuity: a concrete history on a capacity-2 cache; the model output is what the abstract cache shows and the
victim of the third store is key 2 (key 1 was used in between) -/
example : (runOps lruPrim (Lru.new 2) [.set 1 10, .set 2 20, .get 1, .set 3 30, .keys, .has 2]).2 =
    [.unit, .unit, .val 10, .unit, .keys [3, 1], .bool false] := by
  have h := (lru_run_refines 2 (by decide) [.set 1 10, .set 2 20, .get 1, .set 3 30, .keys, .has 2]).1
  rw [h]; decide

example : LruSpec.Wf 2 [(1, 10), (2, 20)] := by simp [LruSpec.Wf]

end WindVerif.C06
