import WindVerif.Proofs.Generic
import WindVerif.Proofs.GenericEq
import WindVerif.Proofs.BatcherLazy
/-!
# C19 — Generic sequence helpers equal their brute-force definitions

Property theorems only (proofs in `Proofs/Roman.lean`, kernel evaluation over the whole domain 1..3999 through a balanced
range checker with a soundness lemma — no `native_decide` —, and `Proofs/Generic.lean`).
-/
namespace WindVerif.C19
open WindVerif.Generic

theorem roman_canonical (n : Nat) (h1 : 1 ≤ n) (h2 : n ≤ 3999) : int2roman n = canonical n := by
  first | exact WindVerif.Generic.roman_canonical .. | (apply WindVerif.Generic.roman_canonical <;> assumption)

theorem roman_roundtrip (n : Nat) (h1 : 1 ≤ n) (h2 : n ≤ 3999) : roman2int (int2roman n) = .ok (n : Int) := by
  first | exact WindVerif.Generic.roman_roundtrip .. | (apply WindVerif.Generic.roman_roundtrip <;> assumption)

/-- and the other way round: on the numerals of 1..3999 `int_2_roman ∘ roman_2_int` is the identity -/
theorem roman_inverse (n : Nat) (h1 : 1 ≤ n) (h2 : n ≤ 3999) :
    ∃ v : Int, roman2int (canonical n) = .ok v ∧ int2roman v.toNat = canonical n := by
  first | exact WindVerif.Generic.roman_inverse .. | (apply WindVerif.Generic.roman_inverse <;> assumption)

theorem argSort_perm (xs : List Int) (rev : Bool) : (argSort xs rev).Perm (List.range xs.length) := by
  first | exact WindVerif.Generic.argSort_perm .. | (apply WindVerif.Generic.argSort_perm <;> assumption)

theorem argSort_sorted (xs : List Int) : ((argSort xs false).map (keyAt xs)).Pairwise (· ≤ ·) := by
  first | exact WindVerif.Generic.argSort_sorted .. | (apply WindVerif.Generic.argSort_sorted <;> assumption)

theorem argSort_sorted_rev (xs : List Int) : ((argSort xs true).map (keyAt xs)).Pairwise (· ≥ ·) := by
  first | exact WindVerif.Generic.argSort_sorted_rev .. | (apply WindVerif.Generic.argSort_sorted_rev <;> assumption)

/-- equal keys keep their index order, also with `reverse=True` -/
theorem argSort_stable (xs : List Int) (rev : Bool) :
    (argSort xs rev).Pairwise (fun i j => keyAt xs i = keyAt xs j → i < j) := by
  first | exact WindVerif.Generic.argSort_stable .. | (apply WindVerif.Generic.argSort_stable <;> assumption)

theorem subSeq_iff (s1 s2 : List Int) : subSeq s1 s2 = true ↔ s1 <:+: s2 := by
  first | exact WindVerif.Generic.subSeq_iff .. | (apply WindVerif.Generic.subSeq_iff <;> assumption)

theorem searchSubSeq_empty (s1 s2 : List Int) (h : s1 = [] ∨ s2 = []) : searchSubSeq s1 s2 = .error .valueError := by
  first | exact WindVerif.Generic.searchSubSeq_empty .. | (apply WindVerif.Generic.searchSubSeq_empty <;> assumption)

theorem searchSubSeq_spec (s1 s2 : List Int) (h1 : s1 ≠ []) (h2 : s2 ≠ []) :
    ∃ l, searchSubSeq s1 s2 = .ok l ∧
      (∀ o e, (o, e) ∈ l ↔ (e = o + s1.length ∧ e ≤ s2.length ∧ window s2 o s1.length = s1)) ∧
      (l.map (·.1)).Pairwise (· < ·) := by
  first | exact WindVerif.Generic.searchSubSeq_spec .. | (apply WindVerif.Generic.searchSubSeq_spec <;> assumption)

theorem comparePos_iff (a b : List Int) : comparePos a b = true ↔ a.Perm b := by
  first | exact WindVerif.Generic.comparePos_iff .. | (apply WindVerif.Generic.comparePos_iff <;> assumption)

theorem batcherLen_ceil (n b : Nat) (hb : 0 < b) : batcherLen n b = n / b + (if n % b = 0 then 0 else 1) := by
  first | exact WindVerif.Generic.batcherLen_ceil .. | (apply WindVerif.Generic.batcherLen_ceil <;> assumption)

theorem batcher_concat (data : List Int) (b : Nat) (hb : 0 < b) :
    ((List.range (batcherLen data.length b)).map (batchAt data b)).flatten = data := by
  first | exact WindVerif.Generic.batcher_concat .. | (apply WindVerif.Generic.batcher_concat <;> assumption)

/-- all batches have size `batch_size` except possibly a shorter, non-empty last one -/
theorem batcher_sizes (data : List Int) (b i : Nat) (hb : 0 < b) (hi : i < batcherLen data.length b) :
    (i + 1 < batcherLen data.length b → (batchAt data b i).length = b) ∧
    0 < (batchAt data b i).length ∧ (batchAt data b i).length ≤ b := by
  first | exact WindVerif.Generic.batcher_sizes .. | (apply WindVerif.Generic.batcher_sizes <;> assumption)

theorem batcherGet_spec (data : List Int) (b i : Nat) :
    (i < batcherLen data.length b → batcherGet data b i = .ok (batchAt data b i)) ∧
    (batcherLen data.length b ≤ i → batcherGet data b i = .error .indexError) := by
  first | exact WindVerif.Generic.batcherGet_spec .. | (apply WindVerif.Generic.batcherGet_spec <;> assumption)

theorem batcherIter_eq (data : List Int) (b : Nat) (hb : 0 < b) :
    batcherIter data b = (List.range (batcherLen data.length b)).map (batchAt data b) := by
  first | exact WindVerif.Generic.batcherIter_eq .. | (apply WindVerif.Generic.batcherIter_eq <;> assumption)

/-- batching a `range(n)` object by arithmetic on its bounds is batching the list `0..n-1` -/
theorem batcherGetRange_spec (n b i : Nat) (hb : 0 < b) (hi : i < batcherLen n b) :
    ∃ s e, batcherGetRange n b i = .ok (s, e) ∧ s ≤ e ∧
      List.range' s (e - s) = ((List.range n).drop (i * b)).take b := by
  first | exact WindVerif.Generic.batcherGetRange_spec .. | (apply WindVerif.Generic.batcherGetRange_spec <;> assumption)

theorem batcherNew_spec (lens : List Nat) (b : Int) :
    batcherNew lens b = .ok () ↔ ((∀ x ∈ lens, ∀ y ∈ lens, x = y) ∧ 0 < b) := by
  first | exact WindVerif.Generic.batcherNew_spec .. | (apply WindVerif.Generic.batcherNew_spec <;> assumption)

/-- non-vacuity -/
example : int2roman 1994 = "MCMXCIV".toList ∧ canonical 3999 = "MMMCMXCIX".toList := by decide
example : batcherLen (2 ^ 53 + 1) 1 = 2 ^ 53 + 1 := by decide
example : comparePos [1, 2, 2] [2, 1, 2] = true ∧ subSeq [1, 2] [0, 1, 2, 3] = true := by decide

/-! ### BatcherIter on a tuple of iterables of different lengths -/

/-- a tuple of two iterables is batched in lock-step and stops with the shorter one: the batches are exactly the batches of the
two inputs cut to the common length, paired up -/
theorem batcherIterPair_spec (xs ys : List Int) (b : Nat) (hb : 0 < b) :
    batcherIterPair xs ys b =
      (batcherIter (xs.take (min xs.length ys.length)) b).zip (batcherIter (ys.take (min xs.length ys.length)) b) := by
  first | exact WindVerif.Generic.batcherIterPair_spec .. | (apply WindVerif.Generic.batcherIterPair_spec <;> assumption)

/-- … and the two batch lists have the same shape (so nothing is lost by the `zip` above) -/
theorem batcherIterPair_shape (xs ys : List Int) (b : Nat) (hb : 0 < b) :
    (batcherIter (xs.take (min xs.length ys.length)) b).map List.length =
      (batcherIter (ys.take (min xs.length ys.length)) b).map List.length := by
  first | exact WindVerif.Generic.batcherIterPair_shape .. | (apply WindVerif.Generic.batcherIterPair_shape <;> assumption)

/-- non-vacuity: `BatcherIter(([1,2,3], [7,8,9,10]), 2)` -/
example : batcherIterPair [1, 2, 3] [7, 8, 9, 10] 2 = [([1, 2], [7, 8]), ([3], [9])] := by decide

/-! ### sub_seq / search_sub_seq over arbitrary elements: the windows are compared with "identical or equal"

Elements are object identities (`Nat`); `eqv a b` is the outcome of the elements' own `a == b`, an arbitrary relation (not
assumed reflexive, symmetric or transitive); `pyEq eqv a b = (a == b || eqv a b)` is CPython's item comparison inside
`list == list` (definitions in `Model/GenericEq.lean`, proofs in `Proofs/GenericEq.lean`). -/

/-- `list == list`: same length and the items pairwise identical or equal -/
theorem listEq_iff (eqv : Nat → Nat → Bool) (a b : List Nat) :
    listEq eqv a b = true ↔
      (a.length = b.length ∧ ∀ i (ha : i < a.length) (hb : i < b.length), pyEq eqv a[i] b[i] = true) := by
  first | exact WindVerif.Generic.listEq_iff .. | (apply WindVerif.Generic.listEq_iff <;> assumption)

/-- `sub_seq` is true iff some window of `s2` equals `s1` in that sense -/
theorem subSeqE_iff (eqv : Nat → Nat → Bool) (s1 s2 : List Nat) :
    subSeqE eqv s1 s2 = true ↔
      ∃ o, o + s1.length ≤ s2.length ∧ listEq eqv s1 (windowN s2 o s1.length) = true := by
  first | exact WindVerif.Generic.subSeqE_iff .. | (apply WindVerif.Generic.subSeqE_iff <;> assumption)

/-- `search_sub_seq` raises (`ValueError`) exactly when one of the sequences is empty -/
theorem searchSubSeqE_error_iff (eqv : Nat → Nat → Bool) (s1 s2 : List Nat) :
    (∃ e, searchSubSeqE eqv s1 s2 = .error e) ↔ (s1 = [] ∨ s2 = []) := by
  first | exact WindVerif.Generic.searchSubSeqE_error_iff .. | (apply WindVerif.Generic.searchSubSeqE_error_iff <;> assumption)

theorem searchSubSeqE_empty (eqv : Nat → Nat → Bool) (s1 s2 : List Nat) (h : s1 = [] ∨ s2 = []) :
    searchSubSeqE eqv s1 s2 = .error .valueError := by
  first | exact WindVerif.Generic.searchSubSeqE_empty .. | (apply WindVerif.Generic.searchSubSeqE_empty <;> assumption)

/-- … and otherwise returns exactly the `(start, end)` pairs of the matching windows, ascending, each once -/
theorem searchSubSeqE_spec (eqv : Nat → Nat → Bool) (s1 s2 : List Nat) (h1 : s1 ≠ []) (h2 : s2 ≠ []) :
    ∃ l, searchSubSeqE eqv s1 s2 = .ok l ∧
      (∀ o e, (o, e) ∈ l ↔
        (e = o + s1.length ∧ e ≤ s2.length ∧ listEq eqv s1 (windowN s2 o s1.length) = true)) ∧
      (l.map (·.1)).Pairwise (· < ·) := by
  first | exact WindVerif.Generic.searchSubSeqE_spec .. | (apply WindVerif.Generic.searchSubSeqE_spec <;> assumption)

/-- a pattern that occurs as the same objects is always found, whatever the elements' `==` is (NaN: not equal to itself) -/
theorem subSeqE_of_infix (eqv : Nat → Nat → Bool) (s1 s2 : List Nat) (h : s1 <:+: s2) : subSeqE eqv s1 s2 = true := by
  first | exact WindVerif.Generic.subSeqE_of_infix .. | (apply WindVerif.Generic.subSeqE_of_infix <;> assumption)

theorem searchSubSeqE_of_infix (eqv : Nat → Nat → Bool) (s s1 t : List Nat) (h1 : s1 ≠ []) :
    ∃ l, searchSubSeqE eqv s1 (s ++ s1 ++ t) = .ok l ∧ (s.length, s.length + s1.length) ∈ l := by
  first | exact WindVerif.Generic.searchSubSeqE_of_infix .. | (apply WindVerif.Generic.searchSubSeqE_of_infix <;> assumption)

/-- for elements compared by their value (`val` = the payload of an object) the new functions are the old ones … -/
theorem agree_with_old (val : Nat → Int) (s1 s2 : List Nat) :
    subSeqE (fun a b => val a == val b) s1 s2 = subSeq (s1.map val) (s2.map val) ∧
    searchSubSeqE (fun a b => val a == val b) s1 s2 = searchSubSeq (s1.map val) (s2.map val) := by
  first | exact WindVerif.Generic.agree_with_old .. | (apply WindVerif.Generic.agree_with_old <;> assumption)

/-- … and every input of the old functions is of that form -/
theorem lists_are_images (l1 l2 : List Int) :
    ∃ (val : Nat → Int) (s1 s2 : List Nat), s1.map val = l1 ∧ s2.map val = l2 := by
  first | exact WindVerif.Generic.lists_are_images .. | (apply WindVerif.Generic.lists_are_images <;> assumption)

/-- testing the first elements with plain `==` before comparing the window is NOT equivalent: object 0 is a NaN, the pattern
`[0]` occurs in `[5, 0]` as the same object -/
theorem first_element_pretest_wrong :
    subSeqE (nanEq 1) [0] [5, 0] = true ∧ subSeqPre (nanEq 1) [0] [5, 0] = false := by
  first | exact WindVerif.Generic.first_element_pretest_wrong .. | (apply WindVerif.Generic.first_element_pretest_wrong <;> assumption)

/-- non-vacuity: objects 0 and 1 are NaNs (equal to nothing), 2.. are compared by value; an irreflexive, a non-symmetric
relation; the hypotheses of `searchSubSeqE_spec` / `subSeqE_of_infix` / `searchSubSeqE_of_infix` on concrete inputs -/
example : searchSubSeqE (nanEq 2) [0, 2] [0, 2, 1, 2, 0, 2] = .ok [(0, 2), (4, 6)] ∧
    subSeqE (nanEq 2) [1, 2] [0, 2, 1, 2] = true ∧ subSeqE (nanEq 2) [1, 2] [0, 2, 0, 2] = false :=
  ⟨by rfl, by decide, by decide⟩
example : ([0, 2] : List Nat) ≠ [] ∧ ([0, 2, 1, 2, 0, 2] : List Nat) ≠ [] := by decide
example : ([0] : List Nat) <:+: [5, 0] := ⟨[5], [], rfl⟩
example : subSeqE (fun a b => decide (a < b)) [1, 2] [0, 2, 3] = true ∧
    subSeqE (fun a b => decide (a < b)) [2, 3] [0, 1, 2] = false := by decide
example : searchSubSeqE (nanEq 1) [] [0] = .error .valueError ∧ searchSubSeqE (nanEq 1) [0] [] = .error .valueError ∧
    searchSubSeqE (nanEq 1) [0, 0] [0] = .ok [] := ⟨by rfl, by rfl, by rfl⟩

/-! ### BatcherIter as a lazy consumer of its source

`Model/BatcherLazy.lean`: the generator as a state machine advanced one `next()` call at a time over a source `⟨items, fails⟩`
(`fails`: the pull after the last item raises instead of ending the iteration).  `BatcherLazy.take b src k` = the outcomes of the first
`k` calls (`batch l` / `stop` = StopIteration / `raised` = the source's exception) and the state afterwards (`pulled` = number of items
taken from the source so far).  The constructor rejects `batch_size ≤ 0`: hypothesis `0 < b`.  `takeAhead` is the same for a variant
that holds a full batch back until one more item has been pulled. -/

/-- no read-ahead: when the `j`-th full batch is handed over exactly `j * b` items have been pulled, and the batches so far are the
consecutive slices of the source -/
theorem lazy_pulled (items : List Int) (fails : Bool) (b j : Nat) (hb : 0 < b) (hj : j * b ≤ items.length) :
    (BatcherLazy.take b ⟨items, fails⟩ j).2.pulled = j * b ∧
    (BatcherLazy.take b ⟨items, fails⟩ j).1 =
      (List.range j).map (fun i => BatcherLazy.Outcome.batch ((items.drop (i * b)).take b)) := by
  first | exact WindVerif.BatcherLazy.lazy_pulled .. | (apply WindVerif.BatcherLazy.lazy_pulled <;> assumption)

/-- … and nothing is held back inside the generator between two calls -/
theorem lazy_clean (items : List Int) (fails : Bool) (b j : Nat) (hb : 0 < b) (hj : j * b ≤ items.length) :
    (BatcherLazy.take b ⟨items, fails⟩ j).2 = ⟨j * b, [], false⟩ := by
  first | exact WindVerif.BatcherLazy.lazy_clean .. | (apply WindVerif.BatcherLazy.lazy_clean <;> assumption)

/-- a source that ends normally: calling `next` yields exactly the batches of the list model `batcherIter`, then `stop` for ever, and
the number of items pulled is the length of the source -/
theorem agrees_with_list (items : List Int) (b k : Nat) (hb : 0 < b) :
    (BatcherLazy.take b ⟨items, false⟩ ((batcherIter items b).length + k)).1 =
      (batcherIter items b).map BatcherLazy.Outcome.batch ++ List.replicate k BatcherLazy.Outcome.stop ∧
    (BatcherLazy.take b ⟨items, false⟩ ((batcherIter items b).length + k)).2.pulled = items.length := by
  first | exact WindVerif.BatcherLazy.agrees_with_list .. | (apply WindVerif.BatcherLazy.agrees_with_list <;> assumption)

/-- a source that raises after its items: all `items.length / b` complete batches are handed over first (in particular the last one
when `items.length % b = 0`), then the exception passes through, then `stop` for ever -/
theorem failing_source_batches (items : List Int) (b k : Nat) (hb : 0 < b) :
    (BatcherLazy.take b ⟨items, true⟩ (items.length / b + 1 + k)).1 =
      (List.range (items.length / b)).map (fun i => BatcherLazy.Outcome.batch ((items.drop (i * b)).take b))
        ++ BatcherLazy.Outcome.raised :: List.replicate k BatcherLazy.Outcome.stop ∧
    (BatcherLazy.take b ⟨items, true⟩ (items.length / b + 1 + k)).2.pulled = items.length := by
  first | exact WindVerif.BatcherLazy.failing_source_batches .. | (apply WindVerif.BatcherLazy.failing_source_batches <;> assumption)

/-- the read-ahead variant gives the same batches over a source that ends normally (reading to the end cannot see the difference) … -/
theorem ahead_same_list (items : List Int) (b k : Nat) (hb : 0 < b) :
    (BatcherLazy.takeAhead b ⟨items, false⟩ ((batcherIter items b).length + k)).1 =
      (batcherIter items b).map BatcherLazy.Outcome.batch ++ List.replicate k BatcherLazy.Outcome.stop ∧
    (BatcherLazy.takeAhead b ⟨items, false⟩ ((batcherIter items b).length + k)).1 =
      (BatcherLazy.take b ⟨items, false⟩ ((batcherIter items b).length + k)).1 := by
  first | exact WindVerif.BatcherLazy.ahead_same_list .. | (apply WindVerif.BatcherLazy.ahead_same_list <;> assumption)

/-- … but it has pulled one item too many whenever it hands over a batch that is followed by another item -/
theorem ahead_pulled (items : List Int) (fails : Bool) (b j : Nat) (hb : 0 < b) (h1 : 1 ≤ j) (hj : j * b + 1 ≤ items.length) :
    (BatcherLazy.takeAhead b ⟨items, fails⟩ j).2.pulled = j * b + 1 ∧ (BatcherLazy.take b ⟨items, fails⟩ j).2.pulled = j * b := by
  first | exact WindVerif.BatcherLazy.ahead_pulled .. | (apply WindVerif.BatcherLazy.ahead_pulled <;> assumption)

/-- … and over a source that raises it hands over all batches of the list but the last one, complete or not -/
theorem ahead_failing_batches (items : List Int) (b k : Nat) (hb : 0 < b) :
    (BatcherLazy.takeAhead b ⟨items, true⟩ ((batcherIter items b).dropLast.length + (1 + k))).1 =
      (batcherIter items b).dropLast.map BatcherLazy.Outcome.batch
        ++ BatcherLazy.Outcome.raised :: List.replicate k BatcherLazy.Outcome.stop := by
  first | exact WindVerif.BatcherLazy.ahead_failing_batches .. | (apply WindVerif.BatcherLazy.ahead_failing_batches <;> assumption)

/-- that is one complete batch fewer than the real code (`failing_source_batches`) when the items fill the batches exactly -/
theorem ahead_failing_count (items : List Int) (b : Nat) (hb : 0 < b) (h0 : items.length % b = 0) (hpos : 0 < items.length) :
    (batcherIter items b).dropLast.length + 1 = items.length / b := by
  first | exact WindVerif.BatcherLazy.ahead_failing_count .. | (apply WindVerif.BatcherLazy.ahead_failing_count <;> assumption)

/-- witness, items `[0,1,2,3]`, `b = 2`: after the first batch the variant has pulled 3 items (and holds `2` back), the code 2 -/
theorem ahead_reads_ahead :
    (BatcherLazy.takeAhead 2 ⟨[0, 1, 2, 3], false⟩ 1) = ([.batch [0, 1]], ⟨3, [2], false⟩) ∧
    (BatcherLazy.take 2 ⟨[0, 1, 2, 3], false⟩ 1) = ([.batch [0, 1]], ⟨2, [], false⟩) := by
  first | exact WindVerif.BatcherLazy.ahead_reads_ahead .. | (apply WindVerif.BatcherLazy.ahead_reads_ahead <;> assumption)

/-- witness, the same items over a source that raises: the variant hands over `[0,1]` only, the code `[0,1]` and `[2,3]` -/
theorem ahead_loses_batch :
    (BatcherLazy.takeAhead 2 ⟨[0, 1, 2, 3], true⟩ 5).1 = [.batch [0, 1], .raised, .stop, .stop, .stop] ∧
    (BatcherLazy.take 2 ⟨[0, 1, 2, 3], true⟩ 5).1 = [.batch [0, 1], .batch [2, 3], .raised, .stop, .stop] := by
  first | exact WindVerif.BatcherLazy.ahead_loses_batch .. | (apply WindVerif.BatcherLazy.ahead_loses_batch <;> assumption)

/-- non-vacuity: the hypotheses of `lazy_pulled` / `lazy_clean` / `ahead_pulled` / `ahead_failing_count` on concrete sources, and the
machine on sources with a short last batch, over a failing source, and with `b = 1` -/
example : 0 < 2 ∧ 2 * 2 ≤ ([0, 1, 2, 3, 4] : List Int).length ∧ 1 ≤ 2 ∧ 2 * 2 + 1 ≤ ([0, 1, 2, 3, 4] : List Int).length := by decide
example : 0 < 2 ∧ ([0, 1, 2, 3] : List Int).length % 2 = 0 ∧ 0 < ([0, 1, 2, 3] : List Int).length := by decide
example : BatcherLazy.take 2 ⟨[0, 1, 2, 3, 4], false⟩ 2 = ([.batch [0, 1], .batch [2, 3]], ⟨4, [], false⟩) ∧
    BatcherLazy.takeAhead 2 ⟨[0, 1, 2, 3, 4], false⟩ 2 = ([.batch [0, 1], .batch [2, 3]], ⟨5, [4], false⟩) := by decide
example : BatcherLazy.take 2 ⟨[0, 1, 2, 3, 4], false⟩ 5 =
    ([.batch [0, 1], .batch [2, 3], .batch [4], .stop, .stop], ⟨5, [], true⟩) := by decide
example : BatcherLazy.take 2 ⟨[0, 1, 2, 3, 4], true⟩ 4 = ([.batch [0, 1], .batch [2, 3], .raised, .stop], ⟨5, [], true⟩) := by decide
example : (BatcherLazy.take 1 ⟨[7, 8], true⟩ 3).1 = [.batch [7], .batch [8], .raised] ∧
    (BatcherLazy.takeAhead 1 ⟨[7, 8], true⟩ 3).1 = [.batch [7], .raised, .stop] := by decide
example : (BatcherLazy.take 3 ⟨[], false⟩ 2) = ([.stop, .stop], ⟨0, [], true⟩) ∧
    (BatcherLazy.take 3 ⟨[], true⟩ 2) = ([.raised, .stop], ⟨0, [], true⟩) := by decide

end WindVerif.C19
