import WindVerif.Proofs.Generic
/-!
# C19 — Generic sequence helpers equal their brute-force definitions

Property theorems only (proofs in `Proofs/Roman.lean`, kernel evaluation over the whole domain 1..3999 through a balanced
range checker with a soundness lemma — no `native_decide` —, and `Proofs/Generic.lean`).
-/
namespace WindVerif.C19
open WindVerif.Generic

theorem roman_canonical (n : Nat) (h1 : 1 ≤ n) (h2 : n ≤ 3999) : int2roman n = canonical n := by
  first | exact WindVerif.Generic.roman_canonical .. | (apply WindVerif.Generic.roman_canonical <;> assumption)

theorem roman_roundtrip (n : Nat) (h1 : 1 ≤ n) (h2 : n ≤ 3999) : roman2int (int2roman n) = .ok (n : Int) := by
  first | exact WindVerif.Generic.roman_roundtrip .. | (apply WindVerif.Generic.roman_roundtrip <;> assumption)

/-- and the other way round: on the numerals of 1..3999 `int_2_roman ∘ roman_2_int` is the identity -/
theorem roman_inverse (n : Nat) (h1 : 1 ≤ n) (h2 : n ≤ 3999) :
    ∃ v : Int, roman2int (canonical n) = .ok v ∧ int2roman v.toNat = canonical n := by
  first | exact WindVerif.Generic.roman_inverse .. | (apply WindVerif.Generic.roman_inverse <;> assumption)

theorem argSort_perm (xs : List Int) (rev : Bool) : (argSort xs rev).Perm (List.range xs.length) := by
  first | exact WindVerif.Generic.argSort_perm .. | (apply WindVerif.Generic.argSort_perm <;> assumption)

theorem argSort_sorted (xs : List Int) : ((argSort xs false).map (keyAt xs)).Pairwise (· ≤ ·) := by
  first | exact WindVerif.Generic.argSort_sorted .. | (apply WindVerif.Generic.argSort_sorted <;> assumption)

theorem argSort_sorted_rev (xs : List Int) : ((argSort xs true).map (keyAt xs)).Pairwise (· ≥ ·) := by
  first | exact WindVerif.Generic.argSort_sorted_rev .. | (apply WindVerif.Generic.argSort_sorted_rev <;> assumption)

/-- equal keys keep their index order, also with `reverse=True` -/
theorem argSort_stable (xs : List Int) (rev : Bool) :
    (argSort xs rev).Pairwise (fun i j => keyAt xs i = keyAt xs j → i < j) := by
  first | exact WindVerif.Generic.argSort_stable .. | (apply WindVerif.Generic.argSort_stable <;> assumption)

theorem subSeq_iff (s1 s2 : List Int) : subSeq s1 s2 = true ↔ s1 <:+: s2 := by
  first | exact WindVerif.Generic.subSeq_iff .. | (apply WindVerif.Generic.subSeq_iff <;> assumption)

theorem searchSubSeq_empty (s1 s2 : List Int) (h : s1 = [] ∨ s2 = []) : searchSubSeq s1 s2 = .error .valueError := by
  first | exact WindVerif.Generic.searchSubSeq_empty .. | (apply WindVerif.Generic.searchSubSeq_empty <;> assumption)

theorem searchSubSeq_spec (s1 s2 : List Int) (h1 : s1 ≠ []) (h2 : s2 ≠ []) :
    ∃ l, searchSubSeq s1 s2 = .ok l ∧
      (∀ o e, (o, e) ∈ l ↔ (e = o + s1.length ∧ e ≤ s2.length ∧ window s2 o s1.length = s1)) ∧
      (l.map (·.1)).Pairwise (· < ·) := by
  first | exact WindVerif.Generic.searchSubSeq_spec .. | (apply WindVerif.Generic.searchSubSeq_spec <;> assumption)

theorem comparePos_iff (a b : List Int) : comparePos a b = true ↔ a.Perm b := by
  first | exact WindVerif.Generic.comparePos_iff .. | (apply WindVerif.Generic.comparePos_iff <;> assumption)

theorem batcherLen_ceil (n b : Nat) (hb : 0 < b) : batcherLen n b = n / b + (if n % b = 0 then 0 else 1) := by
  first | exact WindVerif.Generic.batcherLen_ceil .. | (apply WindVerif.Generic.batcherLen_ceil <;> assumption)

theorem batcher_concat (data : List Int) (b : Nat) (hb : 0 < b) :
    ((List.range (batcherLen data.length b)).map (batchAt data b)).flatten = data := by
  first | exact WindVerif.Generic.batcher_concat .. | (apply WindVerif.Generic.batcher_concat <;> assumption)

/-- all batches have size `batch_size` except possibly a shorter, non-empty last one -/
theorem batcher_sizes (data : List Int) (b i : Nat) (hb : 0 < b) (hi : i < batcherLen data.length b) :
    (i + 1 < batcherLen data.length b → (batchAt data b i).length = b) ∧
    0 < (batchAt data b i).length ∧ (batchAt data b i).length ≤ b := by
  first | exact WindVerif.Generic.batcher_sizes .. | (apply WindVerif.Generic.batcher_sizes <;> assumption)

theorem batcherGet_spec (data : List Int) (b i : Nat) :
    (i < batcherLen data.length b → batcherGet data b i = .ok (batchAt data b i)) ∧
    (batcherLen data.length b ≤ i → batcherGet data b i = .error .indexError) := by
  first | exact WindVerif.Generic.batcherGet_spec .. | (apply WindVerif.Generic.batcherGet_spec <;> assumption)

theorem batcherIter_eq (data : List Int) (b : Nat) (hb : 0 < b) :
    batcherIter data b = (List.range (batcherLen data.length b)).map (batchAt data b) := by
  first | exact WindVerif.Generic.batcherIter_eq .. | (apply WindVerif.Generic.batcherIter_eq <;> assumption)

/-- batching a `range(n)` object by arithmetic on its bounds is batching the list `0..n-1` -/
theorem batcherGetRange_spec (n b i : Nat) (hb : 0 < b) (hi : i < batcherLen n b) :
    ∃ s e, batcherGetRange n b i = .ok (s, e) ∧ s ≤ e ∧
      List.range' s (e - s) = ((List.range n).drop (i * b)).take b := by
  first | exact WindVerif.Generic.batcherGetRange_spec .. | (apply WindVerif.Generic.batcherGetRange_spec <;> assumption)

theorem batcherNew_spec (lens : List Nat) (b : Int) :
    batcherNew lens b = .ok () ↔ ((∀ x ∈ lens, ∀ y ∈ lens, x = y) ∧ 0 < b) := by
  first | exact WindVerif.Generic.batcherNew_spec .. | (apply WindVerif.Generic.batcherNew_spec <;> assumption)

/-- non-vacuity -/
example : int2roman 1994 = "MCMXCIV".toList ∧ canonical 3999 = "MMMCMXCIX".toList := by decide
example : batcherLen (2 ^ 53 + 1) 1 = 2 ^ 53 + 1 := by decide
example : comparePos [1, 2, 2] [2, 1, 2] = true ∧ subSeq [1, 2] [0, 1, 2, 3] = true := by decide

/-! ### BatcherIter on a tuple of iterables of different lengths -/

/-- a tuple of two iterables is batched in lock-step and stops with the shorter one: the batches are exactly the batches of the
two inputs cut to the common length, paired up -/
theorem batcherIterPair_spec (xs ys : List Int) (b : Nat) (hb : 0 < b) :
    batcherIterPair xs ys b =
      (batcherIter (xs.take (min xs.length ys.length)) b).zip (batcherIter (ys.take (min xs.length ys.length)) b) := by
  first | exact WindVerif.Generic.batcherIterPair_spec .. | (apply WindVerif.Generic.batcherIterPair_spec <;> assumption)

/-- … and the two batch lists have the same shape (so nothing is lost by the `zip` above) -/
theorem batcherIterPair_shape (xs ys : List Int) (b : Nat) (hb : 0 < b) :
    (batcherIter (xs.take (min xs.length ys.length)) b).map List.length =
      (batcherIter (ys.take (min xs.length ys.length)) b).map List.length := by
  first | exact WindVerif.Generic.batcherIterPair_shape .. | (apply WindVerif.Generic.batcherIterPair_shape <;> assumption)

/-- non-vacuity: `BatcherIter(([1,2,3], [7,8,9,10]), 2)` -/
example : batcherIterPair [1, 2, 3] [7, 8, 9, 10] 2 = [([1, 2], [7, 8]), ([3], [9])] := by decide

end WindVerif.C19
