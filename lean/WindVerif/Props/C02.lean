import WindVerif.Proofs.PoolLive
/-!
# C02 — imap and imap_unordered always terminate on finite input (no deadlock)

Property theorems only (proofs in `Proofs/PoolLive*.lean`, on top of the safety invariant of C01 and the lifecycle invariant
of C04) about the interleaving model `Model/Pool.lean`.  "However slowly the input iterable produces its items or signals
exhaustion", slow workers and a slow caller are all the same thing in an interleaving model: that thread is not scheduled
for a while; flow control (`run_event` cleared while the reorder buffer is full) is part of the model.

* `imap_no_deadlock`: in every reachable state in which the caller's program (enter, any list of calls, exit) is not over,
  some thread can move — under `WellCfg` (≥ 1 worker, result bound ≥ 1, quotas ≥ 1 only with a factory pool) and
  `NoFaults`; D19 repaired: no hypothesis on the work-queue bound (the former `ExitCap`) is needed any more.
* `imap_terminates`: an explicit bound on the length of *every* schedule of a configuration.
* `imap_maximal_final`: hence every maximal execution ends with the caller finished.
* `exit_unblocked`: D19 repaired: the concrete 56-step schedule of a factory pool with 2 workers, quota 1, work-queue
  bound 1 that used to end with the caller blocked in `__exit__` for good (second stop order on a full queue, every worker
  gone) goes on, with one more step of the consumer, to the caller being done.
* `exit_skip_all_exited`: the loop of stop orders is left early (full queue) only when every worker ever created has exited.
-/
namespace WindVerif.C02
open WindVerif.Pool

/-- no deadlock: in every reachable state in which the caller's program (enter, all its calls, exit) is not over, some
thread can move — the consumer is never left blocked on a result that will not come, the feeder never on a full queue
nobody drains, `__exit__` never on its stop orders (D19 repaired: whatever the bound of the work queue) -/
theorem imap_no_deadlock (cfg : Cfg) (hw : WellCfg cfg) (hf : NoFaults cfg) (s : St) (h : Reach cfg s)
    (hnd : s.cpc ≠ .done) : ∃ t, (step s t).isSome := by
  first | exact WindVerif.Pool.imap_no_deadlock .. | (apply WindVerif.Pool.imap_no_deadlock <;> assumption)

theorem imap_terminates (cfg : Cfg) (hw : WellCfg cfg) (hf : NoFaults cfg) :
    ∃ bound, ∀ sched s, run (init cfg) sched = some s → sched.length ≤ bound := by
  first | exact WindVerif.Pool.imap_terminates .. | (apply WindVerif.Pool.imap_terminates <;> assumption)

/-- hence every maximal execution (one that cannot be extended) ends with the caller finished -/
theorem imap_maximal_final (cfg : Cfg) (hw : WellCfg cfg) (hf : NoFaults cfg) (sched : List Tid) (s : St)
    (h : run (init cfg) sched = some s) (hmax : ∀ t, step s t = none) : s.cpc = .done := by
  first | exact WindVerif.Pool.imap_maximal_final .. | (apply WindVerif.Pool.imap_maximal_final <;> assumption)

/-- D19 repaired: the schedule that used to end in a blocked `__exit__` (configuration `d19Cfg`) reaches `done` -/
theorem exit_unblocked : ∃ sched s, run (init d19Cfg) sched = some s ∧ s.cpc = .done := by
  first | exact WindVerif.Pool.exit_unblocked .. | (apply WindVerif.Pool.exit_unblocked <;> assumption)

/-- the loop of stop orders is left early only when nobody is left: a step of the consumer at a stop order on a full work
queue ends `__exit__`, and every worker ever created has exited -/
theorem exit_skip_all_exited (cfg : Cfg) (s s' : St) (h : Reach cfg s) (i : Nat) (hpc : s.cpc = .exitPut i)
    (hfull : capFull s.cfg.workCap s.workQ = true) (hs : step s .c = some s') : s'.cpc = .done ∧ AllExited s' := by
  first | exact WindVerif.Pool.exit_skip_all_exited .. | (apply WindVerif.Pool.exit_skip_all_exited <;> assumption)

/-- non-vacuity: the default configuration (work-queue bound = number of workers) satisfies the hypotheses, and so does the
configuration of the former D19 (work-queue bound below the number of workers of a factory pool) -/
example : WellCfg ⟨2, some 2, none, false, none, false, [⟨3, true⟩], [], [], false⟩ ∧ WellCfg d19Cfg ∧
    NoFaults ⟨2, some 2, none, false, none, false, [⟨3, true⟩], [], [], false⟩ ∧ NoFaults d19Cfg := by
  unfold WellCfg NoFaults d19Cfg; decide

end WindVerif.C02
