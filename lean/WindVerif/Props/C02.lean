import WindVerif.Proofs.PoolLive
/-!
# C02 — imap and imap_unordered always terminate on finite input (no deadlock)

Property theorems only (proofs in `Proofs/PoolLive*.lean`, on top of the safety invariant of C01 and the lifecycle invariant
of C04) about the interleaving model `Model/Pool.lean`.  "However slowly the input iterable produces its items or signals
exhaustion", slow workers and a slow caller are all the same thing in an interleaving model: that thread is not scheduled
for a while; flow control (`run_event` cleared while the reorder buffer is full) is part of the model.

* `imap_no_deadlock`: in every reachable state in which the caller's program (enter, any list of calls, exit) is not over,
  some thread can move — under `WellCfg` (≥ 1 worker, result bound ≥ 1, quotas ≥ 1 only with a factory pool), `NoFaults`
  and `ExitCap`.
* `imap_terminates`: an explicit bound on the length of *every* schedule of a configuration (no `ExitCap` needed).
* `imap_maximal_final`: hence every maximal execution ends with the caller finished.
* `exit_can_block`: outside `ExitCap` the block in `__exit__` is reachable (D19, a recorded known finding): a concrete
  56-step schedule of a factory pool with 2 workers, quota 1, work-queue bound 1.
-/
namespace WindVerif.C02
open WindVerif.Pool

/-- no deadlock: in every reachable state in which the caller's program (enter, all its calls, exit) is not over, some
thread can move — the consumer is never left blocked on a result that will not come, the feeder never on a full queue
nobody drains, `__exit__` never on its stop orders (under `ExitCap`) -/
theorem imap_no_deadlock (cfg : Cfg) (hw : WellCfg cfg) (hf : NoFaults cfg) (hx : ExitCap cfg) (s : St) (h : Reach cfg s)
    (hnd : s.cpc ≠ .done) : ∃ t, (step s t).isSome := by
  first | exact WindVerif.Pool.imap_no_deadlock .. | (apply WindVerif.Pool.imap_no_deadlock <;> assumption)

theorem imap_terminates (cfg : Cfg) (hw : WellCfg cfg) (hf : NoFaults cfg) :
    ∃ bound, ∀ sched s, run (init cfg) sched = some s → sched.length ≤ bound := by
  first | exact WindVerif.Pool.imap_terminates .. | (apply WindVerif.Pool.imap_terminates <;> assumption)

/-- hence every maximal execution (one that cannot be extended) ends with the caller finished -/
theorem imap_maximal_final (cfg : Cfg) (hw : WellCfg cfg) (hf : NoFaults cfg) (hx : ExitCap cfg) (sched : List Tid) (s : St)
    (h : run (init cfg) sched = some s) (hmax : ∀ t, step s t = none) : s.cpc = .done := by
  first | exact WindVerif.Pool.imap_maximal_final .. | (apply WindVerif.Pool.imap_maximal_final <;> assumption)

theorem exit_can_block : ∃ sched s, run (init d19Cfg) sched = some s ∧ s.cpc ≠ .done ∧ ∀ t, step s t = none := by
  first | exact WindVerif.Pool.exit_can_block .. | (apply WindVerif.Pool.exit_can_block <;> assumption)

/-- non-vacuity: the default configuration (work-queue bound = number of workers) satisfies the hypotheses -/
example : WellCfg ⟨2, some 2, none, false, none, false, [⟨3, true⟩], [], []⟩ ∧
    ExitCap ⟨2, some 2, none, false, none, false, [⟨3, true⟩], [], []⟩ ∧
    ExitCap ⟨3, some 1, some 1, false, none, false, [⟨3, true⟩], [], []⟩ ∧ ¬ ExitCap d19Cfg := by
  unfold WellCfg ExitCap d19Cfg; decide

end WindVerif.C02
