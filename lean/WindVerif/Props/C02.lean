import WindVerif.Proofs.PoolLive
import WindVerif.Proofs.PoolJoinTimeout
/-!
# C02 — imap and imap_unordered always terminate on finite input (no deadlock)

Property theorems only (proofs in `Proofs/PoolLive*.lean`, on top of the safety invariant of C01 and the lifecycle invariant
of C04) about the interleaving model `Model/Pool.lean`.  "However slowly the input iterable produces its items or signals
exhaustion", slow workers and a slow caller are all the same thing in an interleaving model: that thread is not scheduled
for a while; flow control (`run_event` cleared while the reorder buffer is full) is part of the model.

* `imap_no_deadlock`: in every reachable state in which the caller's program (enter, any list of calls, exit) is not over,
  some thread can move — under `WellCfg` (≥ 1 worker, result bound ≥ 1, quotas ≥ 1 only with a factory pool) and
  `NoFaults`; D19 repaired: no hypothesis on the work-queue bound (the former `ExitCap`) is needed any more.
* `imap_terminates`: an explicit bound on the length of *every* schedule of a configuration.
* `imap_maximal_final`: hence every maximal execution ends with the caller finished.
* `exit_unblocked`: D19 repaired: the concrete 58-step schedule of a factory pool with 2 workers, quota 1, work-queue
  bound 1 that used to end with the caller blocked in `__exit__` for good (second stop order on a full queue, every worker
  gone) goes on, with one more step of the consumer, to the caller being done.
* `exit_skip_all_exited`: the loop of stop orders is left early (full queue) only when every worker ever created has exited
  (no join timeout); `exit_skip_all_gone`: for every configuration.

A finite `join_timeout` (`Cfg.joinTimeout`: the joins of the replace thread and of `__exit__` return after the timeout whether
the worker has exited or not; every worker's `end()` is a step of its own, in every configuration): `imap_no_deadlock`, `imap_terminates`,
`imap_maximal_final` hold for these configurations too (same statements; `*_joinTimeout` name the corollaries).
`exit_returns_with_running_worker` / `exit_skip_running_worker`: witnesses that "every worker has exited when `__exit__`
returns" needs `join_timeout=None` — hence the hypothesis `cfg.joinTimeout = false` ADDED to `exit_skip_all_exited` (and to
`exit_joins_all` of C03/C04).  `imap_maximal_all_exited` / `eventually_all_exited`: what remains true with a timeout — every
maximal execution ends with the caller finished and every worker exited.
-/
namespace WindVerif.C02
open WindVerif.Pool

/-- no deadlock: in every reachable state in which the caller's program (enter, all its calls, exit) is not over, some
thread can move — the consumer is never left blocked on a result that will not come, the feeder never on a full queue
nobody drains, `__exit__` never on its stop orders (D19 repaired: whatever the bound of the work queue) -/
theorem imap_no_deadlock (cfg : Cfg) (hw : WellCfg cfg) (hf : NoFaults cfg) (s : St) (h : Reach cfg s)
    (hnd : s.cpc ≠ .done) : ∃ t, (step s t).isSome := by
  first | exact WindVerif.Pool.imap_no_deadlock .. | (apply WindVerif.Pool.imap_no_deadlock <;> assumption)

theorem imap_terminates (cfg : Cfg) (hw : WellCfg cfg) (hf : NoFaults cfg) :
    ∃ bound, ∀ sched s, run (init cfg) sched = some s → sched.length ≤ bound := by
  first | exact WindVerif.Pool.imap_terminates .. | (apply WindVerif.Pool.imap_terminates <;> assumption)

/-- hence every maximal execution (one that cannot be extended) ends with the caller finished -/
theorem imap_maximal_final (cfg : Cfg) (hw : WellCfg cfg) (hf : NoFaults cfg) (sched : List Tid) (s : St)
    (h : run (init cfg) sched = some s) (hmax : ∀ t, step s t = none) : s.cpc = .done := by
  first | exact WindVerif.Pool.imap_maximal_final .. | (apply WindVerif.Pool.imap_maximal_final <;> assumption)

/-- D19 repaired: the schedule that used to end in a blocked `__exit__` (configuration `d19Cfg`) reaches `done` -/
theorem exit_unblocked : ∃ sched s, run (init d19Cfg) sched = some s ∧ s.cpc = .done := by
  first | exact WindVerif.Pool.exit_unblocked .. | (apply WindVerif.Pool.exit_unblocked <;> assumption)

/-- the loop of stop orders is left early only when nobody is left: a step of the consumer at a stop order on a full work
queue ends `__exit__`, and every worker ever created has exited -/
theorem exit_skip_all_exited (cfg : Cfg) (hjt : cfg.joinTimeout = false) (s s' : St) (h : Reach cfg s) (i : Nat)
    (hpc : s.cpc = .exitPut i) (hfull : capFull s.cfg.workCap s.workQ = true) (hs : step s .c = some s') :
    s'.cpc = .done ∧ AllExited s' := by
  first | exact WindVerif.Pool.exit_skip_all_exited .. | (apply WindVerif.Pool.exit_skip_all_exited <;> assumption)

/-- the same for EVERY configuration (finite join timeout included): the loop of stop orders is left early only when every
listed worker has an exit code; every other worker ever created has exited or — only with a join timeout — is an unlisted
(replaced) worker with nothing but its `end()` left to run -/
theorem exit_skip_all_gone (cfg : Cfg) (s s' : St) (h : Reach cfg s) (i : Nat) (hpc : s.cpc = .exitPut i)
    (hfull : capFull s.cfg.workCap s.workQ = true) (hs : step s .c = some s') :
    s'.cpc = .done ∧ (∀ wid ∈ s'.procs, workerExited s' wid = true) ∧
    ∀ w ∈ s'.workers, w.pc = .exited ∨ (w.pc = .ending ∧ w.wid ∉ s'.procs ∧ cfg.joinTimeout = true) := by
  first | exact WindVerif.Pool.exit_skip_all_gone .. | (apply WindVerif.Pool.exit_skip_all_gone <;> assumption)

/-- witness: with a finite join timeout `exit_skip_all_exited` without its hypothesis is false — the consumer leaves the
loop of stop orders on a full queue while a replaced worker is still inside `end()` -/
theorem exit_skip_running_worker :
    ∃ cfg sched s s' i, cfg.joinTimeout = true ∧ run (init cfg) sched = some s ∧ s.cpc = .exitPut i ∧
      capFull s.cfg.workCap s.workQ = true ∧ step s .c = some s' ∧ s'.cpc = .done ∧ ∃ w ∈ s'.workers, w.pc = .ending := by
  first | exact WindVerif.Pool.exit_skip_running_worker .. | (apply WindVerif.Pool.exit_skip_running_worker <;> assumption)

/-- witness: with a finite join timeout there is a reachable state in which the caller has left the context
(`cpc = .done`) while a worker has not exited — "all workers have exited when `__exit__` returns" needs `join_timeout=None` -/
theorem exit_returns_with_running_worker :
    ∃ cfg sched s, cfg.joinTimeout = true ∧ run (init cfg) sched = some s ∧ s.cpc = .done ∧
      ∃ w ∈ s.workers, w.pc ≠ .exited := by
  first | exact WindVerif.Pool.exit_returns_with_running_worker .. | (apply WindVerif.Pool.exit_returns_with_running_worker <;> assumption)

/-- timed joins: no deadlock (corollary of `imap_no_deadlock`, which holds for every configuration) -/
theorem imap_no_deadlock_joinTimeout (cfg : Cfg) (hjt : cfg.joinTimeout = true) (hw : WellCfg cfg) (hf : NoFaults cfg)
    (s : St) (h : Reach cfg s) (hnd : s.cpc ≠ .done) : ∃ t, (step s t).isSome := by
  first | exact WindVerif.Pool.imap_no_deadlock_joinTimeout .. | (apply WindVerif.Pool.imap_no_deadlock_joinTimeout <;> assumption)

/-- timed joins: termination (corollary of `imap_terminates`) -/
theorem imap_terminates_joinTimeout (cfg : Cfg) (hjt : cfg.joinTimeout = true) (hw : WellCfg cfg) (hf : NoFaults cfg) :
    ∃ bound, ∀ sched s, run (init cfg) sched = some s → sched.length ≤ bound := by
  first | exact WindVerif.Pool.imap_terminates_joinTimeout .. | (apply WindVerif.Pool.imap_terminates_joinTimeout <;> assumption)

/-- the strongest variant of "every worker has exited when `__exit__` returns" that holds with a finite join timeout too:
every maximal execution ends with the caller finished AND every worker ever created exited (a retired worker inside
`end()` included): every started worker eventually exits -/
theorem imap_maximal_all_exited (cfg : Cfg) (hw : WellCfg cfg) (hf : NoFaults cfg) (sched : List Tid) (s : St)
    (h : run (init cfg) sched = some s) (hmax : ∀ t, step s t = none) : s.cpc = .done ∧ AllExited s := by
  first | exact WindVerif.Pool.imap_maximal_all_exited .. | (apply WindVerif.Pool.imap_maximal_all_exited <;> assumption)

/-- … and from every reachable state such an end can be reached -/
theorem eventually_all_exited (cfg : Cfg) (hw : WellCfg cfg) (hf : NoFaults cfg) (s : St) (h : Reach cfg s) :
    ∃ sched s', run s sched = some s' ∧ s'.cpc = .done ∧ AllExited s' := by
  first | exact WindVerif.Pool.eventually_all_exited .. | (apply WindVerif.Pool.eventually_all_exited <;> assumption)

/-- non-vacuity: the configurations with a join timeout used above are well-formed and fault-free; `d19Cfg` has none -/
example : jtCfg.joinTimeout = true ∧ WellCfg jtCfg ∧ NoFaults jtCfg ∧ jtD19Cfg.joinTimeout = true ∧ WellCfg jtD19Cfg ∧
    NoFaults jtD19Cfg ∧ d19Cfg.joinTimeout = false := by
  unfold WellCfg NoFaults jtCfg jtD19Cfg d19Cfg; decide

/-- non-vacuity of `imap_maximal_all_exited`: the run of `exit_returns_with_running_worker` is not maximal (worker 0 can
still run its `end()`); one more step of worker 0 and nobody can move, the caller is done and both workers have exited -/
example : (run (init jtCfg) (jtSchedExit ++ [.w 0])).map
    (fun s => (decide (s.cpc = .done), (enabledTids s).length, s.workers.map (fun w => (w.wid, w.pc)))) =
    some (true, 0, [(0, .exited), (1, .exited)]) := by decide +kernel

/-- non-vacuity: the default configuration (work-queue bound = number of workers) satisfies the hypotheses, and so does the
configuration of the former D19 (work-queue bound below the number of workers of a factory pool) -/
example : WellCfg ⟨2, some 2, none, false, none, false, [⟨3, true⟩], [], [], false, false⟩ ∧ WellCfg d19Cfg ∧
    NoFaults ⟨2, some 2, none, false, none, false, [⟨3, true⟩], [], [], false, false⟩ ∧ NoFaults d19Cfg := by
  unfold WellCfg NoFaults d19Cfg; decide

end WindVerif.C02
