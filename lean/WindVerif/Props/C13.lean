import WindVerif.Proofs.RecordFile
import WindVerif.Proofs.JsonRecords
import WindVerif.Proofs.RecFileM
import WindVerif.Proofs.RecFileSeq
/-!
# C13 — Records survive save/load and record files are sequences of records

Property theorems only (proofs in `Proofs/Records.lean`).  CSV/TSV: the writer (QUOTE_MINIMAL, excel dialect) followed by the
reader state machine is the identity on field lists without line breaks — also for the line as a saved record file holds it
(trailing `\r`) and for a bare row —, a saved row is a single line, and the class-level buffer is reset after every row.
JSON: under the stated library assumption (`json_glue`), and — the assumption discharged — for the executable model of
`json.dumps(…, separators=(',', ':'))` / `json.loads` in `Model/Json.lean` (`json_encode_single_line`, `json_decode_encode`,
`json_record_roundtrip`).  Record files are the line files of C11/C12 with `load` applied per line, so
index / slice / iteration / edit / save / reopen follow from C11, C12 and the round trips here.
-/
namespace WindVerif.C13
open WindVerif.Records

/-- `load(save(r))` at the level of the field strings: any fields without line breaks (delimiters, quotes, blanks,
backslashes, non-ASCII, empty, a lone empty field) survive writer + reader -/
theorem csv_roundtrip (d : Char) (hd : IsDelim d) (fs : List Str) (h : ∀ f ∈ fs, Clean f) :
    parseRow d (writeRow d fs) = .ok fs := by
  first | exact WindVerif.Records.csv_roundtrip .. | (apply WindVerif.Records.csv_roundtrip <;> assumption)

/-- the same for the line as a saved record file holds it: `save` strips the final `\n` and writes its own, so the reader
sees the row with a trailing `\r` -/
theorem csv_roundtrip_cr (d : Char) (hd : IsDelim d) (fs : List Str) (h : ∀ f ∈ fs, Clean f) :
    parseRow d (writeRow d fs).dropLast = .ok fs := by
  first | exact WindVerif.Records.csv_roundtrip_cr .. | (apply WindVerif.Records.csv_roundtrip_cr <;> assumption)

/-- and for a row without any terminator (a file written by other means), except that the empty row has no fields -/
theorem csv_roundtrip_bare (d : Char) (hd : IsDelim d) (fs : List Str) (h : ∀ f ∈ fs, Clean f) (hne : fs ≠ []) :
    parseRow d ((writeRow d fs).dropLast.dropLast) = .ok fs := by
  first | exact WindVerif.Records.csv_roundtrip_bare .. | (apply WindVerif.Records.csv_roundtrip_bare <;> assumption)

/-- `save(r)` occupies a single line: the only line break is the final terminator -/
theorem csv_single_line (d : Char) (hd : IsDelim d) (fs : List Str) (h : ∀ f ∈ fs, Clean f) :
    ∃ body, writeRow d fs = body ++ ['\r', '\n'] ∧ '\n' ∉ body ∧ '\r' ∉ body := by
  first | exact WindVerif.Records.csv_single_line .. | (apply WindVerif.Records.csv_single_line <;> assumption)

/-- the shared class-level buffer: whatever the sequence of saves (across record classes), each returns exactly its own
row and leaves the buffer empty at position 0 -/
theorem buffer_reset (rows : List (Char × List Str)) :
    (saveMany ⟨[], 0⟩ rows).2 = rows.map (fun r => writeRow r.1 r.2) ∧ (saveMany ⟨[], 0⟩ rows).1 = ⟨[], 0⟩ := by
  first | exact WindVerif.Records.buffer_reset .. | (apply WindVerif.Records.buffer_reset <;> assumption)

theorem json_glue {V} (L : JsonLib V) (names : List Str) (r : List (Str × V)) (hr : r.map (·.1) = names) :
    jsonLoad L names (jsonSave L r) = some r ∧ '\n' ∉ jsonSave L r ∧ '\r' ∉ jsonSave L r := by
  first | exact WindVerif.Records.json_glue .. | (apply WindVerif.Records.json_glue <;> assumption)

/-- the modelled `json.dumps(v, separators=(',', ':'))` (`ensure_ascii=True`) never emits a line break: its output is
printable ASCII (`WindVerif.Json.encode_printable`) -/
theorem json_encode_single_line (v : WindVerif.Json.JVal) (h : WindVerif.Json.WF v) :
    '\n' ∉ WindVerif.Json.encode v ∧ '\r' ∉ WindVerif.Json.encode v := by
  first | exact WindVerif.Json.encode_single_line .. | (apply WindVerif.Json.encode_single_line <;> assumption)

/-- the modelled `json.loads` inverts the modelled `json.dumps` on well-formed values (float lexemes of the shape of
`repr(float)`, dicts with pairwise distinct keys) -/
theorem json_decode_encode (v : WindVerif.Json.JVal) (h : WindVerif.Json.WF v) :
    WindVerif.Json.decode (WindVerif.Json.encode v) = some v := by
  first | exact WindVerif.Json.decode_encode .. | (apply WindVerif.Json.decode_encode <;> assumption)

/-- `json_glue` without the library assumption: a `JsonRecord` (pairwise distinct field names, well-formed values) survives
save/load through the modelled `json` module, and the saved text is a single line -/
theorem json_record_roundtrip (names : List Str) (hn : names.Nodup) (r : List (Str × WindVerif.Json.JVal))
    (hr : r.map (·.1) = names) (hv : ∀ kv ∈ r, WindVerif.Json.WF kv.2) :
    jsonRecordLoad names (jsonRecordSave r) = some r ∧ '\n' ∉ jsonRecordSave r ∧ '\r' ∉ jsonRecordSave r := by
  first | exact WindVerif.Records.json_record_roundtrip .. | (apply WindVerif.Records.json_record_roundtrip <;> assumption)

/-- a mutable record file that is edited, saved and reopened yields the same records: the `'\n'`-delimited lines of the saved
file (C11's reference `refLines`), each parsed by the record class, are exactly the records stored (C12's `save_spec` gives
the saved bytes, `savedLine` is one of its lines for a record stored through `__setitem__`/`insert`) -/
theorem record_file_roundtrip (d : Char) (hd : IsDelim d) (rs : List (List Str)) (h : ∀ r ∈ rs, ∀ f ∈ r, Clean f) :
    (WindVerif.LineFile.refLines ((rs.map (savedLine d)).flatten)).map (parseRow d) = rs.map Except.ok :=
  WindVerif.Records.record_file_roundtrip d hd rs h

/-- non-vacuity: delimiter, quote and a lone empty field -/
example : writeRow ',' ["a,b".toList, "q\"".toList] = "\"a,b\",\"q\"\"\"\r\n".toList ∧ writeRow ',' [[]] = "\"\"\r\n".toList := by
  decide
example : Clean "a,b \"x\"".toList := by unfold Clean; decide

end WindVerif.C13

/-!
## Mutable record files, for any record format with a round trip (model `Model/RecFile.lean`, proofs `Proofs/RecFileM.lean`)

`Fmt` is a record class (`load`, `save`); `Fmt.Ok` / `Fmt.OkMem` / `Fmt.OneLine` say that on a domain `P` of records the
saved text loads back — as the saved file holds it (`rstrip("\n")`: for csv the `"\r"` of `"\r\n"` stays) and as the memory
holds it — and occupies one line.  `Inv` is the invariant of a history of edits, `Loads` says every source line loads into
the domain.  Instances: csv / tsv with `k` string fields (from `csv_roundtrip_cr`, not re-proved) and json.
-/
namespace WindVerif.C13
open WindVerif.RecFile
open WindVerif.Records (IsDelim Clean)

/-- every edit keeps the invariant and never writes the source -/
theorem recfile_inv_step {R : Type} (F : Fmt R) (P : R → Prop) (hmem : F.OkMem P) {f : RecFile} (hf : Inv F P f)
    (op : Op R) (hop : ∀ r ∈ op.recs, P r) (hl : op = .reverse → Loads F P f.source) :
    Inv F P (f.step F op) ∧ (f.step F op).source = f.source := by
  first | exact WindVerif.RecFile.inv_step .. | (apply WindVerif.RecFile.inv_step <;> assumption)

/-- the freshly opened file is in the invariant: from a list of lines, and from the characters of a file (read through the
offset index of `Model/LineFile.lean`) -/
theorem recfile_inv_open {R : Type} (F : Fmt R) (P : R → Prop) (source : List RecFile.Str)
    (h : ∀ l ∈ source, '\n' ∉ l) (content : RecFile.Str) :
    Inv F P (RecFile.open source) ∧ Inv F P (RecFile.ofContent content) ∧
    readLines content = WindVerif.LineFile.refLines content :=
  ⟨WindVerif.RecFile.inv_open F P source h, WindVerif.RecFile.inv_ofContent F P content,
    WindVerif.RecFile.readLines_eq content⟩

/-- save (ending `"\n"`) + reopen of a file in the invariant presents the same records -/
theorem recfile_reopen_state {R : Type} (F : Fmt R) (P : R → Prop) (hok : F.Ok P) (hmem : F.OkMem P)
    (h1 : F.OneLine P) (f : RecFile) (hf : Inv F P f) :
    (RecFile.ofContent (f.saveText ['\n'])).records F = f.records F := by
  first | exact WindVerif.RecFile.reopen_of_inv .. | (apply WindVerif.RecFile.reopen_of_inv <;> assumption)

/-- EDIT, SAVE, REOPEN for every sequence of `set` / `insert` / `append` / `del` / `pop` / `reverse` with records of the
domain (if `reverse` occurs, every source line must load into the domain: `reverse` re-serialises what it loads) -/
theorem recfile_reopen_roundtrip {R : Type} (F : Fmt R) (P : R → Prop) (hok : F.Ok P) (hmem : F.OkMem P)
    (h1 : F.OneLine P) (source : List RecFile.Str) (hsrc : ∀ l ∈ source, '\n' ∉ l) (ops : List (Op R))
    (hops : ∀ op ∈ ops, ∀ r ∈ op.recs, P r) (hl : Op.reverse ∈ ops → Loads F P source) :
    (RecFile.ofContent (((RecFile.open source).run F ops).saveText ['\n'])).records F =
      ((RecFile.open source).run F ops).records F := by
  first | exact WindVerif.RecFile.reopen_roundtrip .. | (apply WindVerif.RecFile.reopen_roundtrip <;> assumption)

/-- `reverse()` re-serialises: on a file all of whose `n` positions load, every position except the middle one (`n` odd)
holds afterwards the `save()` text of the record presented before at the mirrored position; the middle one is not written -/
theorem reverse_reserialises {R : Type} (F : Fmt R) (f : RecFile) (rs : List R) (hrs : f.records F = rs.map some)
    (j : Nat) (hj : j < f.slots.length) :
    (2 * j + 1 ≠ f.slots.length → ∃ r, (f.records F)[f.slots.length - 1 - j]? = some (some r) ∧
      (f.reverse F).1.slots[j]? = some (.txt (F.save r))) ∧
    (2 * j + 1 = f.slots.length → (f.reverse F).1.slots[j]? = f.slots[j]?) := by
  first | exact WindVerif.RecFile.reverse_reserialises .. | (apply WindVerif.RecFile.reverse_reserialises <;> assumption)

/-- the csv / tsv format with `k` string fields has the three round-trip properties on records of `k` fields without line
breaks (from `csv_roundtrip_cr`, `csv_roundtrip`, `csv_single_line`) -/
theorem csvFmt_ok (d : Char) (hd : IsDelim d) (k : Nat) :
    (csvFmt d k).Ok (csvP k) ∧ (csvFmt d k).OkMem (csvP k) ∧ (csvFmt d k).OneLine (csvP k) :=
  ⟨WindVerif.RecFile.csvFmt_ok d hd k, WindVerif.RecFile.csvFmt_okMem d hd k, WindVerif.RecFile.csvFmt_oneLine d hd k⟩

/-- a mutable csv / tsv record file: edit with records whose fields carry no line breaks, save, reopen — the same records -/
theorem csv_recfile_reopen (d : Char) (hd : IsDelim d) (k : Nat) (content : RecFile.Str)
    (ops : List (Op (List RecFile.Str))) (hops : ∀ op ∈ ops, ∀ r ∈ op.recs, csvP k r)
    (hl : Op.reverse ∈ ops → Loads (csvFmt d k) (csvP k) (readLines content)) :
    (RecFile.ofContent (((RecFile.ofContent content).run (csvFmt d k) ops).saveText ['\n'])).records (csvFmt d k) =
      ((RecFile.ofContent content).run (csvFmt d k) ops).records (csvFmt d k) := by
  first | exact WindVerif.RecFile.csv_recfile_reopen .. | (apply WindVerif.RecFile.csv_recfile_reopen <;> assumption)

/-- the same for `JsonRecord` over the modelled `json` module (pairwise distinct field names, well-formed values) -/
theorem json_recfile_reopen (names : List RecFile.Str) (hn : names.Nodup) (content : RecFile.Str)
    (ops : List (Op (List (RecFile.Str × WindVerif.Json.JVal)))) (hops : ∀ op ∈ ops, ∀ r ∈ op.recs, jsonP names r)
    (hl : Op.reverse ∈ ops → Loads (jsonFmt names) (jsonP names) (readLines content)) :
    (RecFile.ofContent (((RecFile.ofContent content).run (jsonFmt names) ops).saveText ['\n'])).records (jsonFmt names) =
      ((RecFile.ofContent content).run (jsonFmt names) ops).records (jsonFmt names) := by
  first | exact WindVerif.RecFile.json_recfile_reopen .. | (apply WindVerif.RecFile.json_recfile_reopen <;> assumption)

/-!
### the inherited `Sequence` / `MutableSequence` interface of record files: `index`, `count`, `in`, `remove`, `clear`

Model `Model/RecFileSeq.lean` (the mixin methods of `_collections_abc.py` over `f[i]` / the overridden `__iter__`, which
return *loaded records*; they are compared with `==`), proofs `Proofs/RecFileSeq.lean`; `Py.pyListIndex` = `list.index`
(`Core/PyListSeq.lean`, characterised in C11).
-/

/-- `f.index(r, start, stop)` on a file all of whose positions load is `rs.index(r, start, stop)` of the presented
records `rs` — the same position, `ValueError` exactly when the list raises it -/
theorem recfile_index_spec {R : Type} [DecidableEq R] (F : Fmt R) (f : RecFile) (rs : List R)
    (hrs : f.records F = rs.map some) (r : R) (start stop : Option Int) :
    f.indexRec F r start stop = match Py.pyListIndex rs r start stop with
      | some k => .ok k
      | none => .error .valueError := by
  first | exact WindVerif.RecFile.indexRec_spec .. | (apply WindVerif.RecFile.indexRec_spec <;> assumption)

/-- … and on ANY file: a position `k` inside the bounds that does not load, with only loading records different from `r`
between the start and `k`, makes `index` raise the exception of `load` for position `k` (as `f[k]` does) -/
theorem recfile_index_load_error {R : Type} [DecidableEq R] (F : Fmt R) (f : RecFile) (r : R)
    (start stop : Option Int) (k : Nat)
    (h1 : WindVerif.LineFile.seqStart f.slots.length start ≤ k)
    (h2 : WindVerif.LineFile.seqBelow (WindVerif.LineFile.seqStop f.slots.length stop) k = true)
    (h3 : (f.records F)[k]? = some none)
    (h4 : ∀ j, WindVerif.LineFile.seqStart f.slots.length start ≤ j → j < k →
      ∃ x, (f.records F)[j]? = some (some x) ∧ x ≠ r) :
    f.indexRec F r start stop = .error (.loadError k) := by
  first | exact WindVerif.RecFile.indexRec_load_error .. | (apply WindVerif.RecFile.indexRec_load_error <;> assumption)

/-- the fuel of the `index` loop suffices on every record file -/
theorem recfile_indexGo_fuel {R : Type} [DecidableEq R] (F : Fmt R) (f : RecFile) (r : R) (stop : Option Int)
    (fuel p : Nat) (h : f.slots.length - p < fuel) :
    f.indexGo F r stop fuel p = f.indexGo F r stop (f.slots.length - p + 1) p := by
  first | exact WindVerif.RecFile.indexGo_fuel .. | (apply WindVerif.RecFile.indexGo_fuel <;> assumption)

/-- `f.count(r)` when every position loads: `rs.count(r)` -/
theorem recfile_count_spec {R : Type} [DecidableEq R] (F : Fmt R) (f : RecFile) (rs : List R)
    (hrs : f.records F = rs.map some) (r : R) : f.countRec F r = .ok (rs.count r) := by
  first | exact WindVerif.RecFile.countRec_spec .. | (apply WindVerif.RecFile.countRec_spec <;> assumption)

/-- `r in f` when every position loads: membership in the presented records -/
theorem recfile_contains_spec {R : Type} [DecidableEq R] (F : Fmt R) (f : RecFile) (rs : List R)
    (hrs : f.records F = rs.map some) (r : R) : f.containsRec F r = .ok (decide (r ∈ rs)) := by
  first | exact WindVerif.RecFile.containsRec_spec .. | (apply WindVerif.RecFile.containsRec_spec <;> assumption)

/-- `r in f` / `f.count(r)` on ANY file are scans of the presented list (`containsList` / `countList`: `True` at the first
equal record resp. the number of equal records; the exception of `load` at the first position met that does not load) -/
theorem recfile_contains_count_general {R : Type} [DecidableEq R] (F : Fmt R) (f : RecFile) (r : R) :
    f.containsRec F r = containsList r (f.records F) 0 ∧ f.countRec F r = countList r (f.records F) 0 0 :=
  ⟨WindVerif.RecFile.containsRec_eq F f r, WindVerif.RecFile.countRec_eq F f r⟩

/-- `f.remove(r)` when every position loads: the first record equal to `r` is removed; `ValueError` when there is none -/
theorem recfile_remove_spec {R : Type} [DecidableEq R] (F : Fmt R) (f : RecFile) (rs : List R)
    (hrs : f.records F = rs.map some) (r : R) :
    (r ∈ rs → ∃ f', f.removeRec F r = .ok f' ∧ f'.records F = (rs.erase r).map some ∧ f'.source = f.source ∧
      f'.slots = f.slots.eraseIdx (rs.idxOf r)) ∧
    (r ∉ rs → f.removeRec F r = .error .valueError) := by
  first | exact WindVerif.RecFile.removeRec_spec .. | (apply WindVerif.RecFile.removeRec_spec <;> assumption)

/-- `f.clear()` when every position loads: nothing is left, nothing is raised, the source is as before -/
theorem recfile_clear_spec {R : Type} (F : Fmt R) (f : RecFile) (rs : List R) (hrs : f.records F = rs.map some) :
    f.clearRec F = (⟨f.source, []⟩, none) := by
  first | exact WindVerif.RecFile.clearRec_spec .. | (apply WindVerif.RecFile.clearRec_spec <;> assumption)

/-- COMPARISON IS ON RECORDS, NOT ON TEXTS: a file whose position 0 holds ANY text that loads as `a` (say a needlessly
quoted source line) — `index(a)` is `0` and `remove(a)` removes position 0, whatever equal records follow -/
theorem index_first_equal {R : Type} [DecidableEq R] (F : Fmt R) (f : RecFile) (a : R) (s : Slot) (rest : List Slot)
    (hs : f.slots = s :: rest) (hl : F.load (f.raw s) = some a) :
    f.indexRec F a none none = .ok 0 ∧ f.removeRec F a = .ok { f with slots := rest } := by
  first | exact WindVerif.RecFile.index_first_equal .. | (apply WindVerif.RecFile.index_first_equal <;> assumption)

/-- … in particular after `append(a)`: the appended record (stored in canonical form at the end) is found at position 0,
and `remove(a)` deletes the source line, not the appended text -/
theorem index_first_equal_append {R : Type} [DecidableEq R] (F : Fmt R) (f : RecFile) (a : R) (s : Slot)
    (rest : List Slot) (hs : f.slots = s :: rest) (hl : F.load (f.raw s) = some a) :
    (f.appendRec F a).indexRec F a none none = .ok 0 ∧
    (f.appendRec F a).removeRec F a = .ok { f with slots := rest ++ [.txt (F.save a)] } := by
  first | exact WindVerif.RecFile.index_first_equal_append .. | (apply WindVerif.RecFile.index_first_equal_append <;> assumption)

/-- every edit, `remove` and `clear` included, keeps the invariant and never writes the source (`remove` may be given
any record: it only compares) -/
theorem recfile_inv_step2 {R : Type} [DecidableEq R] (F : Fmt R) (P : R → Prop) (hmem : F.OkMem P) {f : RecFile}
    (hf : Inv F P f) (op : Op2 R) (hop : ∀ r ∈ op.recs, P r) (hl : op = .base .reverse → Loads F P f.source) :
    Inv F P (f.step2 F op) ∧ (f.step2 F op).source = f.source := by
  first | exact WindVerif.RecFile.inv_step2 .. | (apply WindVerif.RecFile.inv_step2 <;> assumption)

/-- … for a whole history -/
theorem recfile_inv_run2 {R : Type} [DecidableEq R] (F : Fmt R) (P : R → Prop) (hmem : F.OkMem P) (ops : List (Op2 R))
    (f : RecFile) (hf : Inv F P f) (hops : ∀ op ∈ ops, ∀ r ∈ op.recs, P r)
    (hl : Op2.base .reverse ∈ ops → Loads F P f.source) :
    Inv F P (f.run2 F ops) ∧ (f.run2 F ops).source = f.source := by
  first | exact WindVerif.RecFile.inv_run2 .. | (apply WindVerif.RecFile.inv_run2 <;> assumption)

/-- the presented records after a history with `remove` / `clear` are the Python list operations applied in turn -/
theorem recfile_records_run2 {R : Type} [DecidableEq R] (F : Fmt R) (P : R → Prop) (hmem : F.OkMem P)
    (ops : List (Op2 R)) (f : RecFile) (hf : Inv F P f) (hl : Loads F P f.source)
    (hops : ∀ op ∈ ops, ∀ r ∈ op.recs, P r) :
    (f.run2 F ops).records F = ops.foldl (fun l op => op.onList l) (f.records F) := by
  first | exact WindVerif.RecFile.records_run2 .. | (apply WindVerif.RecFile.records_run2 <;> assumption)

/-- EDIT, SAVE, REOPEN with `remove` and `clear` in the history (`Op2`; if `reverse` occurs, every source line must load
into the domain) -/
theorem recfile_reopen_roundtrip2 {R : Type} [DecidableEq R] (F : Fmt R) (P : R → Prop) (hok : F.Ok P)
    (hmem : F.OkMem P) (h1 : F.OneLine P) (source : List RecFile.Str) (hsrc : ∀ l ∈ source, '\n' ∉ l)
    (ops : List (Op2 R)) (hops : ∀ op ∈ ops, ∀ r ∈ op.recs, P r) (hl : Op2.base .reverse ∈ ops → Loads F P source) :
    (RecFile.ofContent (((RecFile.open source).run2 F ops).saveText ['\n'])).records F =
      ((RecFile.open source).run2 F ops).records F := by
  first | exact WindVerif.RecFile.reopen_roundtrip2 .. | (apply WindVerif.RecFile.reopen_roundtrip2 <;> assumption)

/-- the csv / tsv instance (`k` string fields) -/
theorem csv_recfile_reopen2 (d : Char) (hd : IsDelim d) (k : Nat) (source : List RecFile.Str)
    (hsrc : ∀ l ∈ source, '\n' ∉ l) (ops : List (Op2 (List RecFile.Str)))
    (hops : ∀ op ∈ ops, ∀ r ∈ op.recs, csvP k r)
    (hl : Op2.base .reverse ∈ ops → Loads (csvFmt d k) (csvP k) source) :
    (RecFile.ofContent (((RecFile.open source).run2 (csvFmt d k) ops).saveText ['\n'])).records (csvFmt d k) =
      ((RecFile.open source).run2 (csvFmt d k) ops).records (csvFmt d k) :=
  WindVerif.RecFile.reopen_roundtrip2 (csvFmt d k) (csvP k) (WindVerif.RecFile.csvFmt_ok d hd k)
    (WindVerif.RecFile.csvFmt_okMem d hd k) (WindVerif.RecFile.csvFmt_oneLine d hd k) source hsrc ops hops hl

/-! non-vacuity of the inherited interface: a source whose line 0 is the NON-canonical text `"a","b"` of the record
`(a, b)`, line 1 another record; `append((a, b))` stores the canonical `a,b\r\n` at the end -/

/-- `index((a, b))` is 0 (not 2), `count` is 2, `remove((a, b))` deletes the source line and keeps the appended text; the
saved file then holds the canonical form; an absent record: `ValueError`; bounds as `list.index` -/
example :
    let F := csvFmt ',' 2
    let a := ["a".toList, "b".toList]
    let f := (RecFile.open ["\"a\",\"b\"".toList, "c,d".toList]).appendRec F a
    f.slots = [.src 0, .src 1, .txt "a,b\r\n".toList] ∧
    (f.indexRec F a none none).toOption = some 0 ∧
    (f.indexRec F a (some 1) none).toOption = some 2 ∧
    (f.indexRec F a (some (-2)) (some (-1))).toOption = none ∧
    Py.pyListIndex [a, ["c".toList, "d".toList], a] a (some 1) none = some 2 ∧
    Py.pyListIndex [a, ["c".toList, "d".toList], a] a (some (-2)) (some (-1)) = none ∧
    (f.countRec F a).toOption = some 2 ∧ (f.containsRec F a).toOption = some true ∧
    (f.containsRec F ["a".toList, "x".toList]).toOption = some false ∧
    (f.removeRec F a).toOption.map (·.slots) = some [.src 1, .txt "a,b\r\n".toList] ∧
    (f.removeRec F a).toOption.map (·.saveText ['\n']) = some "c,d\na,b\r\n".toList ∧
    (f.removeRec F ["a".toList, "x".toList]).toOption = none ∧
    f.records F = [a, ["c".toList, "d".toList], a].map some := by
  decide

/-- the hypotheses of `index_first_equal` on that file -/
example :
    let F := csvFmt ',' 2
    let f := RecFile.open ["\"a\",\"b\"".toList, "c,d".toList]
    f.slots = .src 0 :: [.src 1] ∧ F.load (f.raw (.src 0)) = some ["a".toList, "b".toList] := by
  decide

/-- a position that does not load (one field only) before the record looked for: `index`, `count`, `in`, `remove` raise
the exception of `load` for position 1; with a start behind it `index` finds the record; `clear` pops position 2, then
stops at position 1 -/
example :
    let F := csvFmt ',' 2
    let a := ["a".toList, "b".toList]
    let f := RecFile.open ["c,d".toList, "lonely".toList, "a,b".toList]
    errOf (f.indexRec F a none none) = some (.loadError 1) ∧ errOf (f.countRec F a) = some (.loadError 1) ∧
    errOf (f.containsRec F a) = some (.loadError 1) ∧ errOf (f.removeRec F a) = some (.loadError 1) ∧
    (f.indexRec F a (some 2) none).toOption = some 2 ∧
    (f.containsRec F ["c".toList, "d".toList]).toOption = some true ∧
    f.clearRec F = (⟨f.source, [.src 0, .src 1]⟩, some .loadError) := by
  decide

/-- a history with `remove` and `clear`: the written records are in the domain, the source lines load -/
example :
    let F := csvFmt ',' 2
    let f := (RecFile.open ["\"a\",\"b\"".toList, "c,d".toList]).run2 F
      [.base (.append ["a".toList, "b".toList]), .remove ["a".toList, "b".toList], .base .reverse]
    f.records F = [["a".toList, "b".toList], ["c".toList, "d".toList]].map some ∧
    f.saveText ['\n'] = "a,b\r\nc,d\r\n".toList ∧
    (f.step2 F .clear).slots = [] := by
  decide

/-! non-vacuity: a 3-line csv source with a needlessly quoted field; `f[1] = …`, `insert(0, …)`, `reverse()`, save, reopen -/

/-- the characters of the source are read as these three lines -/
example : readLines "a,\"b\"\nc,d\ne,\"f,g\"\n".toList = ["a,\"b\"".toList, "c,d".toList, "e,\"f,g\"".toList] := by
  rw [WindVerif.RecFile.readLines_eq]; decide

/-- every source line loads into the domain (the hypothesis `Loads` that `reverse` needs) -/
example : Loads (csvFmt ',' 2) (csvP 2) ["a,\"b\"".toList, "c,d".toList, "e,\"f,g\"".toList] := by
  intro l hl
  simp only [List.mem_cons, List.not_mem_nil, or_false] at hl
  rcases hl with rfl | rfl | rfl
  · exact ⟨["a".toList, "b".toList], by decide, by unfold csvP Clean; decide⟩
  · exact ⟨["c".toList, "d".toList], by decide, by unfold csvP Clean; decide⟩
  · exact ⟨["e".toList, "f,g".toList], by decide, by unfold csvP Clean; decide⟩

/-- the written records are in the domain -/
example : ∀ op ∈ ([.set 1 ["x".toList, "y,z".toList], .insert 0 ["i".toList, []], .reverse] : List (Op (List RecFile.Str))),
    ∀ r ∈ op.recs, csvP 2 r := by
  intro op hop
  simp only [List.mem_cons, List.not_mem_nil, or_false] at hop
  rcases hop with rfl | rfl | rfl <;> intro r hr <;> simp only [Op.recs, List.mem_cons, List.not_mem_nil, or_false] at hr
  · subst hr; unfold csvP Clean; decide
  · subst hr; unfold csvP Clean; decide

/-- the concrete run: the saved text, and what reading its lines back presents (the text is split by `refLines`, which
`readLines_eq` proves equal to reading through the offset index) -/
example :
    let F := csvFmt ',' 2
    let f := (RecFile.open ["a,\"b\"".toList, "c,d".toList, "e,\"f,g\"".toList]).run F
      [.set 1 ["x".toList, "y,z".toList], .insert 0 ["i".toList, []], .reverse]
    f.saveText ['\n'] = "e,\"f,g\"\r\nx,\"y,z\"\r\na,b\r\ni,\r\n".toList ∧
    (RecFile.open (WindVerif.LineFile.refLines (f.saveText ['\n']))).records F = f.records F ∧
    f.records F = [some ["e".toList, "f,g".toList], some ["x".toList, "y,z".toList], some ["a".toList, "b".toList],
      some ["i".toList, []]] := by
  decide

/-- `reverse` on an odd-length file leaves the middle position unwritten -/
example : ((RecFile.open ["a,b".toList, "c,\"d\"".toList, "e,f".toList]).reverse (csvFmt ',' 2)) =
    (⟨["a,b".toList, "c,\"d\"".toList, "e,f".toList], [.txt "e,f\r\n".toList, .src 1, .txt "a,b\r\n".toList]⟩, none) := by
  decide

/-- a line with too few fields raises in the middle of `reverse`: the first swap stays -/
example : ((RecFile.open ["a,b".toList, "c".toList, "e,f".toList, "g,h,i".toList]).reverse (csvFmt ',' 2)) =
    (⟨["a,b".toList, "c".toList, "e,f".toList, "g,h,i".toList],
      [.txt "g,h\r\n".toList, .src 1, .src 2, .txt "a,b\r\n".toList]⟩, some .loadError) := by
  decide

end WindVerif.C13
