import WindVerif.Proofs.RecordFile
import WindVerif.Proofs.JsonRecords
/-!
# C13 — Records survive save/load and record files are sequences of records

Property theorems only (proofs in `Proofs/Records.lean`).  CSV/TSV: the writer (QUOTE_MINIMAL, excel dialect) followed by the
reader state machine is the identity on field lists without line breaks — also for the line as a saved record file holds it
(trailing `\r`) and for a bare row —, a saved row is a single line, and the class-level buffer is reset after every row.
JSON: under the stated library assumption (`json_glue`), and — the assumption discharged — for the executable model of
`json.dumps(…, separators=(',', ':'))` / `json.loads` in `Model/Json.lean` (`json_encode_single_line`, `json_decode_encode`,
`json_record_roundtrip`).  Record files are the line files of C11/C12 with `load` applied per line, so
index / slice / iteration / edit / save / reopen follow from C11, C12 and the round trips here.
-/
namespace WindVerif.C13
open WindVerif.Records

/-- `load(save(r))` at the level of the field strings: any fields without line breaks (delimiters, quotes, blanks,
backslashes, non-ASCII, empty, a lone empty field) survive writer + reader -/
theorem csv_roundtrip (d : Char) (hd : IsDelim d) (fs : List Str) (h : ∀ f ∈ fs, Clean f) :
    parseRow d (writeRow d fs) = .ok fs := by
  first | exact WindVerif.Records.csv_roundtrip .. | (apply WindVerif.Records.csv_roundtrip <;> assumption)

/-- the same for the line as a saved record file holds it: `save` strips the final `\n` and writes its own, so the reader
sees the row with a trailing `\r` -/
theorem csv_roundtrip_cr (d : Char) (hd : IsDelim d) (fs : List Str) (h : ∀ f ∈ fs, Clean f) :
    parseRow d (writeRow d fs).dropLast = .ok fs := by
  first | exact WindVerif.Records.csv_roundtrip_cr .. | (apply WindVerif.Records.csv_roundtrip_cr <;> assumption)

/-- and for a row without any terminator (a file written by other means), except that the empty row has no fields -/
theorem csv_roundtrip_bare (d : Char) (hd : IsDelim d) (fs : List Str) (h : ∀ f ∈ fs, Clean f) (hne : fs ≠ []) :
    parseRow d ((writeRow d fs).dropLast.dropLast) = .ok fs := by
  first | exact WindVerif.Records.csv_roundtrip_bare .. | (apply WindVerif.Records.csv_roundtrip_bare <;> assumption)

/-- `save(r)` occupies a single line: the only line break is the final terminator -/
theorem csv_single_line (d : Char) (hd : IsDelim d) (fs : List Str) (h : ∀ f ∈ fs, Clean f) :
    ∃ body, writeRow d fs = body ++ ['\r', '\n'] ∧ '\n' ∉ body ∧ '\r' ∉ body := by
  first | exact WindVerif.Records.csv_single_line .. | (apply WindVerif.Records.csv_single_line <;> assumption)

/-- the shared class-level buffer: whatever the sequence of saves (across record classes), each returns exactly its own
row and leaves the buffer empty at position 0 -/
theorem buffer_reset (rows : List (Char × List Str)) :
    (saveMany ⟨[], 0⟩ rows).2 = rows.map (fun r => writeRow r.1 r.2) ∧ (saveMany ⟨[], 0⟩ rows).1 = ⟨[], 0⟩ := by
  first | exact WindVerif.Records.buffer_reset .. | (apply WindVerif.Records.buffer_reset <;> assumption)

theorem json_glue {V} (L : JsonLib V) (names : List Str) (r : List (Str × V)) (hr : r.map (·.1) = names) :
    jsonLoad L names (jsonSave L r) = some r ∧ '\n' ∉ jsonSave L r ∧ '\r' ∉ jsonSave L r := by
  first | exact WindVerif.Records.json_glue .. | (apply WindVerif.Records.json_glue <;> assumption)

/-- the modelled `json.dumps(v, separators=(',', ':'))` (`ensure_ascii=True`) never emits a line break: its output is
printable ASCII (`WindVerif.Json.encode_printable`) -/
theorem json_encode_single_line (v : WindVerif.Json.JVal) (h : WindVerif.Json.WF v) :
    '\n' ∉ WindVerif.Json.encode v ∧ '\r' ∉ WindVerif.Json.encode v := by
  first | exact WindVerif.Json.encode_single_line .. | (apply WindVerif.Json.encode_single_line <;> assumption)

/-- the modelled `json.loads` inverts the modelled `json.dumps` on well-formed values (float lexemes of the shape of
`repr(float)`, dicts with pairwise distinct keys) -/
theorem json_decode_encode (v : WindVerif.Json.JVal) (h : WindVerif.Json.WF v) :
    WindVerif.Json.decode (WindVerif.Json.encode v) = some v := by
  first | exact WindVerif.Json.decode_encode .. | (apply WindVerif.Json.decode_encode <;> assumption)

/-- `json_glue` without the library assumption: a `JsonRecord` (pairwise distinct field names, well-formed values) survives
save/load through the modelled `json` module, and the saved text is a single line -/
theorem json_record_roundtrip (names : List Str) (hn : names.Nodup) (r : List (Str × WindVerif.Json.JVal))
    (hr : r.map (·.1) = names) (hv : ∀ kv ∈ r, WindVerif.Json.WF kv.2) :
    jsonRecordLoad names (jsonRecordSave r) = some r ∧ '\n' ∉ jsonRecordSave r ∧ '\r' ∉ jsonRecordSave r := by
  first | exact WindVerif.Records.json_record_roundtrip .. | (apply WindVerif.Records.json_record_roundtrip <;> assumption)

/-- a mutable record file that is edited, saved and reopened yields the same records: the `'\n'`-delimited lines of the saved
file (C11's reference `refLines`), each parsed by the record class, are exactly the records stored (C12's `save_spec` gives
the saved bytes, `savedLine` is one of its lines for a record stored through `__setitem__`/`insert`) -/
theorem record_file_roundtrip (d : Char) (hd : IsDelim d) (rs : List (List Str)) (h : ∀ r ∈ rs, ∀ f ∈ r, Clean f) :
    (WindVerif.LineFile.refLines ((rs.map (savedLine d)).flatten)).map (parseRow d) = rs.map Except.ok :=
  WindVerif.Records.record_file_roundtrip d hd rs h

/-- non-vacuity: delimiter, quote and a lone empty field -/
example : writeRow ',' ["a,b".toList, "q\"".toList] = "\"a,b\",\"q\"\"\"\r\n".toList ∧ writeRow ',' [[]] = "\"\"\r\n".toList := by
  decide
example : Clean "a,b \"x\"".toList := by unfold Clean; decide

end WindVerif.C13
