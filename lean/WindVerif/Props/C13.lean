import WindVerif.Proofs.RecordFile
import WindVerif.Proofs.JsonRecords
import WindVerif.Proofs.RecFileM
/-!
# C13 — Records survive save/load and record files are sequences of records

Property theorems only (proofs in `Proofs/Records.lean`).  CSV/TSV: the writer (QUOTE_MINIMAL, excel dialect) followed by the
reader state machine is the identity on field lists without line breaks — also for the line as a saved record file holds it
(trailing `\r`) and for a bare row —, a saved row is a single line, and the class-level buffer is reset after every row.
JSON: under the stated library assumption (`json_glue`), and — the assumption discharged — for the executable model of
`json.dumps(…, separators=(',', ':'))` / `json.loads` in `Model/Json.lean` (`json_encode_single_line`, `json_decode_encode`,
`json_record_roundtrip`).  Record files are the line files of C11/C12 with `load` applied per line, so
index / slice / iteration / edit / save / reopen follow from C11, C12 and the round trips here.
-/
namespace WindVerif.C13
open WindVerif.Records

/-- `load(save(r))` at the level of the field strings: any fields without line breaks (delimiters, quotes, blanks,
backslashes, non-ASCII, empty, a lone empty field) survive writer + reader -/
theorem csv_roundtrip (d : Char) (hd : IsDelim d) (fs : List Str) (h : ∀ f ∈ fs, Clean f) :
    parseRow d (writeRow d fs) = .ok fs := by
  first | exact WindVerif.Records.csv_roundtrip .. | (apply WindVerif.Records.csv_roundtrip <;> assumption)

/-- the same for the line as a saved record file holds it: `save` strips the final `\n` and writes its own, so the reader
sees the row with a trailing `\r` -/
theorem csv_roundtrip_cr (d : Char) (hd : IsDelim d) (fs : List Str) (h : ∀ f ∈ fs, Clean f) :
    parseRow d (writeRow d fs).dropLast = .ok fs := by
  first | exact WindVerif.Records.csv_roundtrip_cr .. | (apply WindVerif.Records.csv_roundtrip_cr <;> assumption)

/-- and for a row without any terminator (a file written by other means), except that the empty row has no fields -/
theorem csv_roundtrip_bare (d : Char) (hd : IsDelim d) (fs : List Str) (h : ∀ f ∈ fs, Clean f) (hne : fs ≠ []) :
    parseRow d ((writeRow d fs).dropLast.dropLast) = .ok fs := by
  first | exact WindVerif.Records.csv_roundtrip_bare .. | (apply WindVerif.Records.csv_roundtrip_bare <;> assumption)

/-- `save(r)` occupies a single line: the only line break is the final terminator -/
theorem csv_single_line (d : Char) (hd : IsDelim d) (fs : List Str) (h : ∀ f ∈ fs, Clean f) :
    ∃ body, writeRow d fs = body ++ ['\r', '\n'] ∧ '\n' ∉ body ∧ '\r' ∉ body := by
  first | exact WindVerif.Records.csv_single_line .. | (apply WindVerif.Records.csv_single_line <;> assumption)

/-- the shared class-level buffer: whatever the sequence of saves (across record classes), each returns exactly its own
row and leaves the buffer empty at position 0 -/
theorem buffer_reset (rows : List (Char × List Str)) :
    (saveMany ⟨[], 0⟩ rows).2 = rows.map (fun r => writeRow r.1 r.2) ∧ (saveMany ⟨[], 0⟩ rows).1 = ⟨[], 0⟩ := by
  first | exact WindVerif.Records.buffer_reset .. | (apply WindVerif.Records.buffer_reset <;> assumption)

theorem json_glue {V} (L : JsonLib V) (names : List Str) (r : List (Str × V)) (hr : r.map (·.1) = names) :
    jsonLoad L names (jsonSave L r) = some r ∧ '\n' ∉ jsonSave L r ∧ '\r' ∉ jsonSave L r := by
  first | exact WindVerif.Records.json_glue .. | (apply WindVerif.Records.json_glue <;> assumption)

/-- the modelled `json.dumps(v, separators=(',', ':'))` (`ensure_ascii=True`) never emits a line break: its output is
printable ASCII (`WindVerif.Json.encode_printable`) -/
theorem json_encode_single_line (v : WindVerif.Json.JVal) (h : WindVerif.Json.WF v) :
    '\n' ∉ WindVerif.Json.encode v ∧ '\r' ∉ WindVerif.Json.encode v := by
  first | exact WindVerif.Json.encode_single_line .. | (apply WindVerif.Json.encode_single_line <;> assumption)

/-- the modelled `json.loads` inverts the modelled `json.dumps` on well-formed values (float lexemes of the shape of
`repr(float)`, dicts with pairwise distinct keys) -/
theorem json_decode_encode (v : WindVerif.Json.JVal) (h : WindVerif.Json.WF v) :
    WindVerif.Json.decode (WindVerif.Json.encode v) = some v := by
  first | exact WindVerif.Json.decode_encode .. | (apply WindVerif.Json.decode_encode <;> assumption)

/-- `json_glue` without the library assumption: a `JsonRecord` (pairwise distinct field names, well-formed values) survives
save/load through the modelled `json` module, and the saved text is a single line -/
theorem json_record_roundtrip (names : List Str) (hn : names.Nodup) (r : List (Str × WindVerif.Json.JVal))
    (hr : r.map (·.1) = names) (hv : ∀ kv ∈ r, WindVerif.Json.WF kv.2) :
    jsonRecordLoad names (jsonRecordSave r) = some r ∧ '\n' ∉ jsonRecordSave r ∧ '\r' ∉ jsonRecordSave r := by
  first | exact WindVerif.Records.json_record_roundtrip .. | (apply WindVerif.Records.json_record_roundtrip <;> assumption)

/-- a mutable record file that is edited, saved and reopened yields the same records: the `'\n'`-delimited lines of the saved
file (C11's reference `refLines`), each parsed by the record class, are exactly the records stored (C12's `save_spec` gives
the saved bytes, `savedLine` is one of its lines for a record stored through `__setitem__`/`insert`) -/
theorem record_file_roundtrip (d : Char) (hd : IsDelim d) (rs : List (List Str)) (h : ∀ r ∈ rs, ∀ f ∈ r, Clean f) :
    (WindVerif.LineFile.refLines ((rs.map (savedLine d)).flatten)).map (parseRow d) = rs.map Except.ok :=
  WindVerif.Records.record_file_roundtrip d hd rs h

/-- non-vacuity: delimiter, quote and a lone empty field -/
example : writeRow ',' ["a,b".toList, "q\"".toList] = "\"a,b\",\"q\"\"\"\r\n".toList ∧ writeRow ',' [[]] = "\"\"\r\n".toList := by
  decide
example : Clean "a,b \"x\"".toList := by unfold Clean; decide

end WindVerif.C13

/-!
## Mutable record files, for any record format with a round trip (model `Model/RecFile.lean`, proofs `Proofs/RecFileM.lean`)

`Fmt` is a record class (`load`, `save`); `Fmt.Ok` / `Fmt.OkMem` / `Fmt.OneLine` say that on a domain `P` of records the
saved text loads back — as the saved file holds it (`rstrip("\n")`: for csv the `"\r"` of `"\r\n"` stays) and as the memory
holds it — and occupies one line.  `Inv` is the invariant of a history of edits, `Loads` says every source line loads into
the domain.  Instances: csv / tsv with `k` string fields (from `csv_roundtrip_cr`, not re-proved) and json.
-/
namespace WindVerif.C13
open WindVerif.RecFile
open WindVerif.Records (IsDelim Clean)

/-- every edit keeps the invariant and never writes the source -/
theorem recfile_inv_step {R : Type} (F : Fmt R) (P : R → Prop) (hmem : F.OkMem P) {f : RecFile} (hf : Inv F P f)
    (op : Op R) (hop : ∀ r ∈ op.recs, P r) (hl : op = .reverse → Loads F P f.source) :
    Inv F P (f.step F op) ∧ (f.step F op).source = f.source := by
  first | exact WindVerif.RecFile.inv_step .. | (apply WindVerif.RecFile.inv_step <;> assumption)

/-- the freshly opened file is in the invariant: from a list of lines, and from the characters of a file (read through the
offset index of `Model/LineFile.lean`) -/
theorem recfile_inv_open {R : Type} (F : Fmt R) (P : R → Prop) (source : List RecFile.Str)
    (h : ∀ l ∈ source, '\n' ∉ l) (content : RecFile.Str) :
    Inv F P (RecFile.open source) ∧ Inv F P (RecFile.ofContent content) ∧
    readLines content = WindVerif.LineFile.refLines content :=
  ⟨WindVerif.RecFile.inv_open F P source h, WindVerif.RecFile.inv_ofContent F P content,
    WindVerif.RecFile.readLines_eq content⟩

/-- save (ending `"\n"`) + reopen of a file in the invariant presents the same records -/
theorem recfile_reopen_state {R : Type} (F : Fmt R) (P : R → Prop) (hok : F.Ok P) (hmem : F.OkMem P)
    (h1 : F.OneLine P) (f : RecFile) (hf : Inv F P f) :
    (RecFile.ofContent (f.saveText ['\n'])).records F = f.records F := by
  first | exact WindVerif.RecFile.reopen_of_inv .. | (apply WindVerif.RecFile.reopen_of_inv <;> assumption)

/-- EDIT, SAVE, REOPEN for every sequence of `set` / `insert` / `append` / `del` / `pop` / `reverse` with records of the
domain (if `reverse` occurs, every source line must load into the domain: `reverse` re-serialises what it loads) -/
theorem recfile_reopen_roundtrip {R : Type} (F : Fmt R) (P : R → Prop) (hok : F.Ok P) (hmem : F.OkMem P)
    (h1 : F.OneLine P) (source : List RecFile.Str) (hsrc : ∀ l ∈ source, '\n' ∉ l) (ops : List (Op R))
    (hops : ∀ op ∈ ops, ∀ r ∈ op.recs, P r) (hl : Op.reverse ∈ ops → Loads F P source) :
    (RecFile.ofContent (((RecFile.open source).run F ops).saveText ['\n'])).records F =
      ((RecFile.open source).run F ops).records F := by
  first | exact WindVerif.RecFile.reopen_roundtrip .. | (apply WindVerif.RecFile.reopen_roundtrip <;> assumption)

/-- `reverse()` re-serialises: on a file all of whose `n` positions load, every position except the middle one (`n` odd)
holds afterwards the `save()` text of the record presented before at the mirrored position; the middle one is not written -/
theorem reverse_reserialises {R : Type} (F : Fmt R) (f : RecFile) (rs : List R) (hrs : f.records F = rs.map some)
    (j : Nat) (hj : j < f.slots.length) :
    (2 * j + 1 ≠ f.slots.length → ∃ r, (f.records F)[f.slots.length - 1 - j]? = some (some r) ∧
      (f.reverse F).1.slots[j]? = some (.txt (F.save r))) ∧
    (2 * j + 1 = f.slots.length → (f.reverse F).1.slots[j]? = f.slots[j]?) := by
  first | exact WindVerif.RecFile.reverse_reserialises .. | (apply WindVerif.RecFile.reverse_reserialises <;> assumption)

/-- the csv / tsv format with `k` string fields has the three round-trip properties on records of `k` fields without line
breaks (from `csv_roundtrip_cr`, `csv_roundtrip`, `csv_single_line`) -/
theorem csvFmt_ok (d : Char) (hd : IsDelim d) (k : Nat) :
    (csvFmt d k).Ok (csvP k) ∧ (csvFmt d k).OkMem (csvP k) ∧ (csvFmt d k).OneLine (csvP k) :=
  ⟨WindVerif.RecFile.csvFmt_ok d hd k, WindVerif.RecFile.csvFmt_okMem d hd k, WindVerif.RecFile.csvFmt_oneLine d hd k⟩

/-- a mutable csv / tsv record file: edit with records whose fields carry no line breaks, save, reopen — the same records -/
theorem csv_recfile_reopen (d : Char) (hd : IsDelim d) (k : Nat) (content : RecFile.Str)
    (ops : List (Op (List RecFile.Str))) (hops : ∀ op ∈ ops, ∀ r ∈ op.recs, csvP k r)
    (hl : Op.reverse ∈ ops → Loads (csvFmt d k) (csvP k) (readLines content)) :
    (RecFile.ofContent (((RecFile.ofContent content).run (csvFmt d k) ops).saveText ['\n'])).records (csvFmt d k) =
      ((RecFile.ofContent content).run (csvFmt d k) ops).records (csvFmt d k) := by
  first | exact WindVerif.RecFile.csv_recfile_reopen .. | (apply WindVerif.RecFile.csv_recfile_reopen <;> assumption)

/-- the same for `JsonRecord` over the modelled `json` module (pairwise distinct field names, well-formed values) -/
theorem json_recfile_reopen (names : List RecFile.Str) (hn : names.Nodup) (content : RecFile.Str)
    (ops : List (Op (List (RecFile.Str × WindVerif.Json.JVal)))) (hops : ∀ op ∈ ops, ∀ r ∈ op.recs, jsonP names r)
    (hl : Op.reverse ∈ ops → Loads (jsonFmt names) (jsonP names) (readLines content)) :
    (RecFile.ofContent (((RecFile.ofContent content).run (jsonFmt names) ops).saveText ['\n'])).records (jsonFmt names) =
      ((RecFile.ofContent content).run (jsonFmt names) ops).records (jsonFmt names) := by
  first | exact WindVerif.RecFile.json_recfile_reopen .. | (apply WindVerif.RecFile.json_recfile_reopen <;> assumption)

/-! non-vacuity: a 3-line csv source with a needlessly quoted field; `f[1] = …`, `insert(0, …)`, `reverse()`, save, reopen -/

/-- the characters of the source are read as these three lines -/
example : readLines "a,\"b\"\nc,d\ne,\"f,g\"\n".toList = ["a,\"b\"".toList, "c,d".toList, "e,\"f,g\"".toList] := by
  rw [WindVerif.RecFile.readLines_eq]; decide

/-- every source line loads into the domain (the hypothesis `Loads` that `reverse` needs) -/
example : Loads (csvFmt ',' 2) (csvP 2) ["a,\"b\"".toList, "c,d".toList, "e,\"f,g\"".toList] := by
  intro l hl
  simp only [List.mem_cons, List.not_mem_nil, or_false] at hl
  rcases hl with rfl | rfl | rfl
  · exact ⟨["a".toList, "b".toList], by decide, by unfold csvP Clean; decide⟩
  · exact ⟨["c".toList, "d".toList], by decide, by unfold csvP Clean; decide⟩
  · exact ⟨["e".toList, "f,g".toList], by decide, by unfold csvP Clean; decide⟩

/-- the written records are in the domain -/
example : ∀ op ∈ ([.set 1 ["x".toList, "y,z".toList], .insert 0 ["i".toList, []], .reverse] : List (Op (List RecFile.Str))),
    ∀ r ∈ op.recs, csvP 2 r := by
  intro op hop
  simp only [List.mem_cons, List.not_mem_nil, or_false] at hop
  rcases hop with rfl | rfl | rfl <;> intro r hr <;> simp only [Op.recs, List.mem_cons, List.not_mem_nil, or_false] at hr
  · subst hr; unfold csvP Clean; decide
  · subst hr; unfold csvP Clean; decide

/-- the concrete run: the saved text, and what reading its lines back presents (the text is split by `refLines`, which
`readLines_eq` proves equal to reading through the offset index) -/
example :
    let F := csvFmt ',' 2
    let f := (RecFile.open ["a,\"b\"".toList, "c,d".toList, "e,\"f,g\"".toList]).run F
      [.set 1 ["x".toList, "y,z".toList], .insert 0 ["i".toList, []], .reverse]
    f.saveText ['\n'] = "e,\"f,g\"\r\nx,\"y,z\"\r\na,b\r\ni,\r\n".toList ∧
    (RecFile.open (WindVerif.LineFile.refLines (f.saveText ['\n']))).records F = f.records F ∧
    f.records F = [some ["e".toList, "f,g".toList], some ["x".toList, "y,z".toList], some ["a".toList, "b".toList],
      some ["i".toList, []]] := by
  decide

/-- `reverse` on an odd-length file leaves the middle position unwritten -/
example : ((RecFile.open ["a,b".toList, "c,\"d\"".toList, "e,f".toList]).reverse (csvFmt ',' 2)) =
    (⟨["a,b".toList, "c,\"d\"".toList, "e,f".toList], [.txt "e,f\r\n".toList, .src 1, .txt "a,b\r\n".toList]⟩, none) := by
  decide

/-- a line with too few fields raises in the middle of `reverse`: the first swap stays -/
example : ((RecFile.open ["a,b".toList, "c".toList, "e,f".toList, "g,h,i".toList]).reverse (csvFmt ',' 2)) =
    (⟨["a,b".toList, "c".toList, "e,f".toList, "g,h,i".toList],
      [.txt "g,h\r\n".toList, .src 1, .src 2, .txt "a,b\r\n".toList]⟩, some .loadError) := by
  decide

end WindVerif.C13
