import WindVerif.Proofs.Combos
import WindVerif.Proofs.CombosK
import WindVerif.Proofs.ScanSteps
/-!
# C17 — sorted_combinations is complete and key-ordered; min-combination search exact

Property theorems only (proofs in `Proofs/Combos.lean`).  Elements are the indices `0..n-1`, the key is the sum of
non-negative scores (monotone under appending).  The theorems use only that `heappop` returns an entry of minimal key, so
they do not depend on the tie-breaks among equal keys.
-/
namespace WindVerif.C17
open WindVerif.Generic

/-- `sorted_combinations` yields every non-empty combination exactly once -/
theorem combos_complete (scores : List Nat) :
    ((sortedCombinations scores).map (·.1)).Perm (allCombos scores.length) := by
  first | exact WindVerif.Generic.combos_complete .. | (apply WindVerif.Generic.combos_complete <;> assumption)

/-- the key yielded alongside is the key of the combination -/
theorem combos_keys (scores : List Nat) (p : List Nat × Nat) (hp : p ∈ sortedCombinations scores) :
    p.2 = scoreSum scores p.1 := by
  first | exact WindVerif.Generic.combos_keys .. | (apply WindVerif.Generic.combos_keys <;> assumption)

/-- in non-decreasing key order -/
theorem combos_sorted (scores : List Nat) : ((sortedCombinations scores).map (·.2)).Pairwise (· ≤ ·) := by
  first | exact WindVerif.Generic.combos_sorted .. | (apply WindVerif.Generic.combos_sorted <;> assumption)

/-- the search returns exactly the combinations whose score sum is the smallest sum lying in `[i_start, i_end)`, each
once and with that sum; hence the empty list when no combination falls in the interval -/
theorem minComb_spec (scores : List Nat) (iStart iEnd : Int) (c : List Nat) (k : Nat) :
    (c, k) ∈ minCombinations scores iStart iEnd ↔
      (c ∈ allCombos scores.length ∧ k = scoreSum scores c ∧ iStart ≤ (k : Int) ∧ (k : Int) < iEnd ∧
        ∀ c' ∈ allCombos scores.length, iStart ≤ (scoreSum scores c' : Int) → (scoreSum scores c' : Int) < iEnd →
          k ≤ scoreSum scores c') := by
  first | exact WindVerif.Generic.minComb_spec .. | (apply WindVerif.Generic.minComb_spec <;> assumption)

theorem minComb_nodup (scores : List Nat) (iStart iEnd : Int) : (minCombinations scores iStart iEnd).Nodup := by
  first | exact WindVerif.Generic.minComb_nodup .. | (apply WindVerif.Generic.minComb_nodup <;> assumption)

/-! ### any elements, repeats included (a direct call; the anchored call above is `val = id`) -/

/-- every non-empty index combination exactly once, whatever the element values are (ties among the queue tuples are broken
through the values, completeness does not depend on it) -/
theorem combosV_complete (val : Nat → Nat) (scores : List Nat) :
    ((sortedCombinationsV val scores).map (·.1)).Perm (allCombos scores.length) := by
  first | exact WindVerif.Generic.combosV_complete .. | (apply WindVerif.Generic.combosV_complete <;> assumption)

theorem combosV_keys (val : Nat → Nat) (scores : List Nat) (p : List Nat × Nat)
    (hp : p ∈ sortedCombinationsV val scores) : p.2 = scoreSum scores p.1 := by
  first | exact WindVerif.Generic.combosV_keys .. | (apply WindVerif.Generic.combosV_keys <;> assumption)

theorem combosV_sorted (val : Nat → Nat) (scores : List Nat) :
    ((sortedCombinationsV val scores).map (·.2)).Pairwise (· ≤ ·) := by
  first | exact WindVerif.Generic.combosV_sorted .. | (apply WindVerif.Generic.combosV_sorted <;> assumption)

/-- a direct call on elements with repeats, key = sum: the yielded value tuples are the value tuples of all non-empty index
combinations, each once (as a multiset) -/
theorem combosE_complete (elems : List Nat) :
    ((sortedCombinationsE elems).map (·.1)).Perm
      ((allCombos elems.length).map (fun c => c.map (fun i => elems.getD i 0))) := by
  first | exact WindVerif.Generic.combosE_complete .. | (apply WindVerif.Generic.combosE_complete <;> assumption)

/-- the key alongside is the sum of the yielded tuple -/
theorem combosE_keys (elems : List Nat) (p : List Nat × Nat) (hp : p ∈ sortedCombinationsE elems) :
    p.2 = p.1.sum := by
  first | exact WindVerif.Generic.combosE_keys .. | (apply WindVerif.Generic.combosE_keys <;> assumption)

theorem combosE_sorted (elems : List Nat) : ((sortedCombinationsE elems).map (·.2)).Pairwise (· ≤ ·) := by
  first | exact WindVerif.Generic.combosE_sorted .. | (apply WindVerif.Generic.combosE_sorted <;> assumption)

/-- non-vacuity: `sorted_combinations([1, 2, 1], sum)` — 7 tuples, the repeated value keeps both its occurrences -/
example : (sortedCombinationsE [1, 2, 1]).map (·.1) = [[1], [1], [2], [1, 1], [1, 2], [2, 1], [1, 2, 1]] := by decide

/-! ### an ARBITRARY key (on index combinations; `sortedCombinationsK`, `Model/GenericK.lean`)

The property quantifies over every key that never decreases when an element is appended (`KeyMono`).  Completeness and the
key alongside hold for any key whatsoever; the key order needs exactly `KeyMono`; the score-sum model above is the instance
`key = scoreSum scores`. -/

/-- every non-empty index combination exactly once, for ANY key and any element values -/
theorem combosK_complete (val : Nat → Nat) (key : List Nat → Nat) (n : Nat) :
    ((sortedCombinationsK val key n).map (·.1)).Perm (allCombos n) := by
  first | exact WindVerif.Generic.combosK_complete .. | (apply WindVerif.Generic.combosK_complete <;> assumption)

/-- the key yielded alongside is the key of the combination -/
theorem combosK_keys (val : Nat → Nat) (key : List Nat → Nat) (n : Nat) (p : List Nat × Nat)
    (hp : p ∈ sortedCombinationsK val key n) : p.2 = key p.1 := by
  first | exact WindVerif.Generic.combosK_keys .. | (apply WindVerif.Generic.combosK_keys <;> assumption)

/-- in non-decreasing key order, for every key that never decreases when an element is appended -/
theorem combosK_sorted (val : Nat → Nat) (key : List Nat → Nat) (n : Nat) (h : KeyMono key) :
    ((sortedCombinationsK val key n).map (·.2)).Pairwise (· ≤ ·) := by
  first | exact WindVerif.Generic.combosK_sorted .. | (apply WindVerif.Generic.combosK_sorted <;> assumption)

/-- the same without `yield_key`: the yielded combinations are in non-decreasing order of their keys -/
theorem combosK_sorted_by_key (val : Nat → Nat) (key : List Nat → Nat) (n : Nat) (h : KeyMono key) :
    (((sortedCombinationsK val key n).map (·.1)).map key).Pairwise (· ≤ ·) := by
  first | exact WindVerif.Generic.combosK_sorted_by_key .. | (apply WindVerif.Generic.combosK_sorted_by_key <;> assumption)

/-- the score-sum model of the theorems above is the instance `key = scoreSum scores` -/
theorem combosK_sum (val : Nat → Nat) (scores : List Nat) :
    sortedCombinationsK val (scoreSum scores) scores.length = sortedCombinationsV val scores := by
  first | exact WindVerif.Generic.combosK_sum .. | (apply WindVerif.Generic.combosK_sum <;> assumption)

/-- the hypothesis of `combosK_sorted` is needed: a key that decreases under appending, with an unsorted key sequence -/
theorem combosK_needs_mono :
    ∃ (key : List Nat → Nat) (n : Nat), ¬ KeyMono key ∧
      ¬ ((sortedCombinationsK (fun i => i) key n).map (·.2)).Pairwise (· ≤ ·) := by
  first | exact WindVerif.Generic.combosK_needs_mono .. | (apply WindVerif.Generic.combosK_needs_mono <;> assumption)

/-- non-vacuity of `KeyMono`: the key families of the driver meet it (none of them is the score sum but `keySum`) -/
example : KeyMono (keySpread [5, 1, 2]) ∧ KeyMono (keyMax [5, 1, 2]) ∧ KeyMono (keyDistinct [4, 4, 7]) ∧
    KeyMono keyLen ∧ KeyMono (keyConst 7) ∧ KeyMono (keySum [5, 1, 2]) :=
  ⟨keySpread_mono _, keyMax_mono _, keyDistinct_mono _, keyLen_mono, keyConst_mono _, keySum_mono _⟩

/-- non-vacuity: the spread key (max − min) on the scores [5, 1, 2] — not additive; (0, 2) with key 3 comes before (0, 1)
with key 4, where the score sums are 7 and 6 -/
example : sortedCombinationsK (fun i => i) (keySpread [5, 1, 2]) 3 =
    [([0], 0), ([1], 0), ([2], 0), ([1, 2], 1), ([0, 2], 3), ([0, 1], 4), ([0, 1, 2], 4)] := by decide

/-- non-vacuity: the number of distinct scores, scores [4, 4, 7] -/
example : sortedCombinationsK (fun i => i) (keyDistinct [4, 4, 7]) 3 =
    [([0], 1), ([1], 1), ([2], 1), ([0, 1], 1), ([0, 2], 2), ([1, 2], 2), ([0, 1, 2], 2)] := by decide

/-- the counterexample of `combosK_needs_mono` spelled out: keys 2, 1, 2 -/
example : sortedCombinationsK (fun i => i) (fun c => 3 - c.length) 2 = [([0], 2), ([0, 1], 1), ([1], 2)] := by decide

/-- non-vacuity -/
example : allCombos 2 = [[1], [0], [0, 1]] := by decide

/-! ### how far `min_combinations_in_interval_iter_sorted` walks into the stream (`Model/ScanSteps.lean`)

`scanSteps iStart iEnd res stream` counts the stream elements the loop pulls (the one on which it breaks included);
`minCombinationsSteps scores iStart iEnd` is the count for the anchored call (stream = `sortedCombinations scores`). -/

/-- the loop with both outputs `(result, elements pulled)` is `minCombScan` together with `scanSteps`: the count is taken
on the very scan the result theorems above speak about -/
theorem scan_steps_result (iStart iEnd : Int) (stream res : List (List Nat × Nat)) :
    minCombScanSteps iStart iEnd res stream = (minCombScan iStart iEnd res stream, scanSteps iStart iEnd res stream) := by
  first | exact WindVerif.Generic.scan_steps_result .. | (apply WindVerif.Generic.scan_steps_result <;> assumption)

/-- never more than the stream holds -/
theorem steps_le_length (iStart iEnd : Int) (stream res : List (List Nat × Nat)) :
    scanSteps iStart iEnd res stream ≤ stream.length := by
  first | exact WindVerif.Generic.steps_le_length .. | (apply WindVerif.Generic.steps_le_length <;> assumption)

/-- the interval ends at or below the first sum of the stream: the loop breaks on the first element (one element pulled),
nothing is returned -/
theorem early_exit_first (iStart iEnd : Int) (stream : List (List Nat × Nat)) (p : List Nat × Nat)
    (hhead : stream.head? = some p) (hend : iEnd ≤ (p.2 : Int)) :
    scanSteps iStart iEnd [] stream = 1 ∧ minCombScan iStart iEnd [] stream = [] := by
  first | exact WindVerif.Generic.early_exit_first .. | (apply WindVerif.Generic.early_exit_first <;> assumption)

/-- non-vacuity: an inverted interval `[9, 3)` below the sums 5, 7 -/
example : ([([0], 5), ([1], 7)] : List (List Nat × Nat)).head? = some ([0], 5) ∧ (3 : Int) ≤ ((([0], 5) : List Nat × Nat).2 : Int) := by
  decide

/-- in a stream sorted by sum the first element carries the least sum (so "at or below the first sum" is "at or below the
least sum") -/
theorem sorted_head_least (stream : List (List Nat × Nat)) (p : List Nat × Nat)
    (hsorted : (stream.map (·.2)).Pairwise (· ≤ ·)) (hhead : stream.head? = some p) : ∀ q ∈ stream, p.2 ≤ q.2 := by
  first | exact WindVerif.Generic.sorted_head_least .. | (apply WindVerif.Generic.sorted_head_least <;> assumption)

/-- the interval ends at or below every sum of a non-empty stream: one element pulled, nothing returned -/
theorem early_exit_below_all (iStart iEnd : Int) (stream : List (List Nat × Nat)) (hne : stream ≠ [])
    (hend : ∀ p ∈ stream, iEnd ≤ (p.2 : Int)) :
    scanSteps iStart iEnd [] stream = 1 ∧ minCombScan iStart iEnd [] stream = [] := by
  first | exact WindVerif.Generic.early_exit_below_all .. | (apply WindVerif.Generic.early_exit_below_all <;> assumption)

example : ([([0], 5), ([1], 7)] : List (List Nat × Nat)) ≠ [] ∧
    ∀ p ∈ ([([0], 5), ([1], 7)] : List (List Nat × Nat)), (3 : Int) ≤ (p.2 : Int) := by decide

/-- sorted stream holding a sum in the interval, `k` the least such sum (`LeastIn`): the loop pulls the elements with a sum
`≤ k` and one more — the first larger sum, on which it breaks — or the whole stream when there is no larger sum -/
theorem exit_after_min_block (iStart iEnd : Int) (l : List (List Nat × Nat)) (k : Nat)
    (hsorted : (l.map (·.2)).Pairwise (· ≤ ·)) (hleast : LeastIn iStart iEnd l k) :
    scanSteps iStart iEnd [] l = min (l.countP (fun p => decide (p.2 ≤ k)) + 1) l.length := by
  first | exact WindVerif.Generic.exit_after_min_block .. | (apply WindVerif.Generic.exit_after_min_block <;> assumption)

/-- … a larger sum exists: the sums `≤ k` and the first larger one -/
theorem exit_after_min_block_larger (iStart iEnd : Int) (l : List (List Nat × Nat)) (k : Nat)
    (hsorted : (l.map (·.2)).Pairwise (· ≤ ·)) (hleast : LeastIn iStart iEnd l k) (hlarger : ∃ p ∈ l, k < p.2) :
    scanSteps iStart iEnd [] l = l.countP (fun p => decide (p.2 ≤ k)) + 1 := by
  first | exact WindVerif.Generic.exit_after_min_block_larger .. | (apply WindVerif.Generic.exit_after_min_block_larger <;> assumption)

/-- … no larger sum: the whole stream -/
theorem exit_after_min_block_all (iStart iEnd : Int) (l : List (List Nat × Nat)) (k : Nat)
    (hsorted : (l.map (·.2)).Pairwise (· ≤ ·)) (hleast : LeastIn iStart iEnd l k) (hall : ∀ p ∈ l, p.2 ≤ k) :
    scanSteps iStart iEnd [] l = l.length := by
  first | exact WindVerif.Generic.exit_after_min_block_all .. | (apply WindVerif.Generic.exit_after_min_block_all <;> assumption)

/-- every element the loop looks at, except the last one, has a sum `≤` the least sum in the interval -/
theorem inspected_le_min (iStart iEnd : Int) (l : List (List Nat × Nat)) (k : Nat)
    (hsorted : (l.map (·.2)).Pairwise (· ≤ ·)) (hleast : LeastIn iStart iEnd l k) :
    ∀ p ∈ l.take (scanSteps iStart iEnd [] l - 1), p.2 ≤ k := by
  first | exact WindVerif.Generic.inspected_le_min .. | (apply WindVerif.Generic.inspected_le_min <;> assumption)

/-- non-vacuity: sums 1, 3, 3, 4, 6 and the interval `[2, 10)`: least sum in the interval 3, a larger sum exists; 4 of the 5
elements are pulled -/
example : (([([0], 1), ([1], 3), ([2], 3), ([0, 1], 4), ([0, 2], 6)] : List (List Nat × Nat)).map (·.2)).Pairwise (· ≤ ·) ∧
    LeastIn 2 10 [([0], 1), ([1], 3), ([2], 3), ([0, 1], 4), ([0, 2], 6)] 3 ∧
    (∃ p ∈ ([([0], 1), ([1], 3), ([2], 3), ([0, 1], 4), ([0, 2], 6)] : List (List Nat × Nat)), 3 < p.2) ∧
    scanSteps 2 10 [] [([0], 1), ([1], 3), ([2], 3), ([0, 1], 4), ([0, 2], 6)] = 4 := by
  unfold LeastIn; decide

/-- non-vacuity (no larger sum): sums 1, 3, 3 -/
example : LeastIn 2 10 [([0], 1), ([1], 3), ([2], 3)] 3 ∧
    (∀ p ∈ ([([0], 1), ([1], 3), ([2], 3)] : List (List Nat × Nat)), p.2 ≤ 3) ∧
    scanSteps 2 10 [] [([0], 1), ([1], 3), ([2], 3)] = 3 := by
  unfold LeastIn; decide

/-- sorted stream with NO sum in the interval: the loop pulls the sums below `iEnd` and one more (the first sum `≥ iEnd`),
or the whole stream when every sum is below `iEnd` -/
theorem exit_at_interval_end (iStart iEnd : Int) (l : List (List Nat × Nat))
    (hsorted : (l.map (·.2)).Pairwise (· ≤ ·))
    (hnone : ∀ y ∈ l, ¬ (iStart ≤ (y.2 : Int) ∧ (y.2 : Int) < iEnd)) :
    scanSteps iStart iEnd [] l = min (l.countP (fun p => decide ((p.2 : Int) < iEnd)) + 1) l.length := by
  first | exact WindVerif.Generic.exit_at_interval_end .. | (apply WindVerif.Generic.exit_at_interval_end <;> assumption)

/-- non-vacuity: sums 1, 3, 7, 9 and the interval `[4, 6)`: 3 of the 4 elements are pulled -/
example : (([([0], 1), ([1], 3), ([2], 7), ([0, 1], 9)] : List (List Nat × Nat)).map (·.2)).Pairwise (· ≤ ·) ∧
    (∀ y ∈ ([([0], 1), ([1], 3), ([2], 7), ([0, 1], 9)] : List (List Nat × Nat)), ¬ ((4 : Int) ≤ (y.2 : Int) ∧ (y.2 : Int) < 6)) ∧
    scanSteps 4 6 [] [([0], 1), ([1], 3), ([2], 7), ([0, 1], 9)] = 3 := by decide

/-- `min_combinations_in_interval_iter_sorted` with an interval that ends at or below the least score (inverted and empty
intervals there included): ONE combination is pulled from `sorted_combinations`, nothing is returned -/
theorem min_combinations_inverted_interval_steps (scores : List Nat) (iStart iEnd : Int) (hne : scores ≠ [])
    (hend : ∀ x ∈ scores, iEnd ≤ (x : Int)) :
    minCombinationsSteps scores iStart iEnd = 1 ∧ minCombinations scores iStart iEnd = [] := by
  first | exact WindVerif.Generic.min_combinations_inverted_interval_steps .. | (apply WindVerif.Generic.min_combinations_inverted_interval_steps <;> assumption)

/-- the same with the least score named through `List.min?` -/
theorem min_combinations_inverted_interval_steps_min (scores : List Nat) (iStart iEnd : Int) (m : Nat)
    (hmin : scores.min? = some m) (hend : iEnd ≤ (m : Int)) :
    minCombinationsSteps scores iStart iEnd = 1 ∧ minCombinations scores iStart iEnd = [] := by
  first | exact WindVerif.Generic.min_combinations_inverted_interval_steps_min .. | (apply WindVerif.Generic.min_combinations_inverted_interval_steps_min <;> assumption)

/-- non-vacuity: scores [3, 2, 5], interval `[100, 2)` -/
example : ([3, 2, 5] : List Nat) ≠ [] ∧ (∀ x ∈ ([3, 2, 5] : List Nat), (2 : Int) ≤ (x : Int)) ∧
    ([3, 2, 5] : List Nat).min? = some 2 ∧ minCombinationsSteps [3, 2, 5] 100 2 = 1 := by decide

/-- any interval: at most all the combinations -/
theorem min_combinations_steps_le (scores : List Nat) (iStart iEnd : Int) :
    minCombinationsSteps scores iStart iEnd ≤ (sortedCombinations scores).length := by
  first | exact WindVerif.Generic.min_combinations_steps_le .. | (apply WindVerif.Generic.min_combinations_steps_le <;> assumption)

/-- the early exit matters.  `scanStepsNoEarly` tests `i_end <= comb_score` only for sums `≥ i_start`: on the scores
`[1, 1, 1, 1]` and the interval `[100, 0)` it walks all 15 combinations where the loop breaks on the first one; the results
are the same (nothing) -/
theorem early_exit_witness :
    scanSteps 100 0 [] (sortedCombinations [1, 1, 1, 1]) = 1 ∧
    scanStepsNoEarly 100 0 [] (sortedCombinations [1, 1, 1, 1]) = 15 ∧
    (sortedCombinations [1, 1, 1, 1]).length = 15 ∧
    (minCombScanNoEarly 100 0 [] (sortedCombinations [1, 1, 1, 1])).1 = minCombinations [1, 1, 1, 1] 100 0 := by
  first | exact WindVerif.Generic.early_exit_witness .. | (apply WindVerif.Generic.early_exit_witness <;> assumption)

end WindVerif.C17
