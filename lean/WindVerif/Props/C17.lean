import WindVerif.Proofs.Combos
import WindVerif.Proofs.CombosK
/-!
# C17 — sorted_combinations is complete and key-ordered; min-combination search exact

Property theorems only (proofs in `Proofs/Combos.lean`).  Elements are the indices `0..n-1`, the key is the sum of
non-negative scores (monotone under appending).  The theorems use only that `heappop` returns an entry of minimal key, so
they do not depend on the tie-breaks among equal keys.
-/
namespace WindVerif.C17
open WindVerif.Generic

/-- `sorted_combinations` yields every non-empty combination exactly once -/
theorem combos_complete (scores : List Nat) :
    ((sortedCombinations scores).map (·.1)).Perm (allCombos scores.length) := by
  first | exact WindVerif.Generic.combos_complete .. | (apply WindVerif.Generic.combos_complete <;> assumption)

/-- the key yielded alongside is the key of the combination -/
theorem combos_keys (scores : List Nat) (p : List Nat × Nat) (hp : p ∈ sortedCombinations scores) :
    p.2 = scoreSum scores p.1 := by
  first | exact WindVerif.Generic.combos_keys .. | (apply WindVerif.Generic.combos_keys <;> assumption)

/-- in non-decreasing key order -/
theorem combos_sorted (scores : List Nat) : ((sortedCombinations scores).map (·.2)).Pairwise (· ≤ ·) := by
  first | exact WindVerif.Generic.combos_sorted .. | (apply WindVerif.Generic.combos_sorted <;> assumption)

/-- the search returns exactly the combinations whose score sum is the smallest sum lying in `[i_start, i_end)`, each
once and with that sum; hence the empty list when no combination falls in the interval -/
theorem minComb_spec (scores : List Nat) (iStart iEnd : Int) (c : List Nat) (k : Nat) :
    (c, k) ∈ minCombinations scores iStart iEnd ↔
      (c ∈ allCombos scores.length ∧ k = scoreSum scores c ∧ iStart ≤ (k : Int) ∧ (k : Int) < iEnd ∧
        ∀ c' ∈ allCombos scores.length, iStart ≤ (scoreSum scores c' : Int) → (scoreSum scores c' : Int) < iEnd →
          k ≤ scoreSum scores c') := by
  first | exact WindVerif.Generic.minComb_spec .. | (apply WindVerif.Generic.minComb_spec <;> assumption)

theorem minComb_nodup (scores : List Nat) (iStart iEnd : Int) : (minCombinations scores iStart iEnd).Nodup := by
  first | exact WindVerif.Generic.minComb_nodup .. | (apply WindVerif.Generic.minComb_nodup <;> assumption)

/-! ### any elements, repeats included (a direct call; the anchored call above is `val = id`) -/

/-- every non-empty index combination exactly once, whatever the element values are (ties among the queue tuples are broken
through the values, completeness does not depend on it) -/
theorem combosV_complete (val : Nat → Nat) (scores : List Nat) :
    ((sortedCombinationsV val scores).map (·.1)).Perm (allCombos scores.length) := by
  first | exact WindVerif.Generic.combosV_complete .. | (apply WindVerif.Generic.combosV_complete <;> assumption)

theorem combosV_keys (val : Nat → Nat) (scores : List Nat) (p : List Nat × Nat)
    (hp : p ∈ sortedCombinationsV val scores) : p.2 = scoreSum scores p.1 := by
  first | exact WindVerif.Generic.combosV_keys .. | (apply WindVerif.Generic.combosV_keys <;> assumption)

theorem combosV_sorted (val : Nat → Nat) (scores : List Nat) :
    ((sortedCombinationsV val scores).map (·.2)).Pairwise (· ≤ ·) := by
  first | exact WindVerif.Generic.combosV_sorted .. | (apply WindVerif.Generic.combosV_sorted <;> assumption)

/-- a direct call on elements with repeats, key = sum: the yielded value tuples are the value tuples of all non-empty index
combinations, each once (as a multiset) -/
theorem combosE_complete (elems : List Nat) :
    ((sortedCombinationsE elems).map (·.1)).Perm
      ((allCombos elems.length).map (fun c => c.map (fun i => elems.getD i 0))) := by
  first | exact WindVerif.Generic.combosE_complete .. | (apply WindVerif.Generic.combosE_complete <;> assumption)

/-- the key alongside is the sum of the yielded tuple -/
theorem combosE_keys (elems : List Nat) (p : List Nat × Nat) (hp : p ∈ sortedCombinationsE elems) :
    p.2 = p.1.sum := by
  first | exact WindVerif.Generic.combosE_keys .. | (apply WindVerif.Generic.combosE_keys <;> assumption)

theorem combosE_sorted (elems : List Nat) : ((sortedCombinationsE elems).map (·.2)).Pairwise (· ≤ ·) := by
  first | exact WindVerif.Generic.combosE_sorted .. | (apply WindVerif.Generic.combosE_sorted <;> assumption)

/-- non-vacuity: `sorted_combinations([1, 2, 1], sum)` — 7 tuples, the repeated value keeps both its occurrences -/
example : (sortedCombinationsE [1, 2, 1]).map (·.1) = [[1], [1], [2], [1, 1], [1, 2], [2, 1], [1, 2, 1]] := by decide

/-! ### an ARBITRARY key (on index combinations; `sortedCombinationsK`, `Model/GenericK.lean`)

The property quantifies over every key that never decreases when an element is appended (`KeyMono`).  Completeness and the
key alongside hold for any key whatsoever; the key order needs exactly `KeyMono`; the score-sum model above is the instance
`key = scoreSum scores`. -/

/-- every non-empty index combination exactly once, for ANY key and any element values -/
theorem combosK_complete (val : Nat → Nat) (key : List Nat → Nat) (n : Nat) :
    ((sortedCombinationsK val key n).map (·.1)).Perm (allCombos n) := by
  first | exact WindVerif.Generic.combosK_complete .. | (apply WindVerif.Generic.combosK_complete <;> assumption)

/-- the key yielded alongside is the key of the combination -/
theorem combosK_keys (val : Nat → Nat) (key : List Nat → Nat) (n : Nat) (p : List Nat × Nat)
    (hp : p ∈ sortedCombinationsK val key n) : p.2 = key p.1 := by
  first | exact WindVerif.Generic.combosK_keys .. | (apply WindVerif.Generic.combosK_keys <;> assumption)

/-- in non-decreasing key order, for every key that never decreases when an element is appended -/
theorem combosK_sorted (val : Nat → Nat) (key : List Nat → Nat) (n : Nat) (h : KeyMono key) :
    ((sortedCombinationsK val key n).map (·.2)).Pairwise (· ≤ ·) := by
  first | exact WindVerif.Generic.combosK_sorted .. | (apply WindVerif.Generic.combosK_sorted <;> assumption)

/-- the same without `yield_key`: the yielded combinations are in non-decreasing order of their keys -/
theorem combosK_sorted_by_key (val : Nat → Nat) (key : List Nat → Nat) (n : Nat) (h : KeyMono key) :
    (((sortedCombinationsK val key n).map (·.1)).map key).Pairwise (· ≤ ·) := by
  first | exact WindVerif.Generic.combosK_sorted_by_key .. | (apply WindVerif.Generic.combosK_sorted_by_key <;> assumption)

/-- the score-sum model of the theorems above is the instance `key = scoreSum scores` -/
theorem combosK_sum (val : Nat → Nat) (scores : List Nat) :
    sortedCombinationsK val (scoreSum scores) scores.length = sortedCombinationsV val scores := by
  first | exact WindVerif.Generic.combosK_sum .. | (apply WindVerif.Generic.combosK_sum <;> assumption)

/-- the hypothesis of `combosK_sorted` is needed: a key that decreases under appending, with an unsorted key sequence -/
theorem combosK_needs_mono :
    ∃ (key : List Nat → Nat) (n : Nat), ¬ KeyMono key ∧
      ¬ ((sortedCombinationsK (fun i => i) key n).map (·.2)).Pairwise (· ≤ ·) := by
  first | exact WindVerif.Generic.combosK_needs_mono .. | (apply WindVerif.Generic.combosK_needs_mono <;> assumption)

/-- non-vacuity of `KeyMono`: the key families of the driver meet it (none of them is the score sum but `keySum`) -/
example : KeyMono (keySpread [5, 1, 2]) ∧ KeyMono (keyMax [5, 1, 2]) ∧ KeyMono (keyDistinct [4, 4, 7]) ∧
    KeyMono keyLen ∧ KeyMono (keyConst 7) ∧ KeyMono (keySum [5, 1, 2]) :=
  ⟨keySpread_mono _, keyMax_mono _, keyDistinct_mono _, keyLen_mono, keyConst_mono _, keySum_mono _⟩

/-- non-vacuity: the spread key (max − min) on the scores [5, 1, 2] — not additive; (0, 2) with key 3 comes before (0, 1)
with key 4, where the score sums are 7 and 6 -/
example : sortedCombinationsK (fun i => i) (keySpread [5, 1, 2]) 3 =
    [([0], 0), ([1], 0), ([2], 0), ([1, 2], 1), ([0, 2], 3), ([0, 1], 4), ([0, 1, 2], 4)] := by decide

/-- non-vacuity: the number of distinct scores, scores [4, 4, 7] -/
example : sortedCombinationsK (fun i => i) (keyDistinct [4, 4, 7]) 3 =
    [([0], 1), ([1], 1), ([2], 1), ([0, 1], 1), ([0, 2], 2), ([1, 2], 2), ([0, 1, 2], 2)] := by decide

/-- the counterexample of `combosK_needs_mono` spelled out: keys 2, 1, 2 -/
example : sortedCombinationsK (fun i => i) (fun c => 3 - c.length) 2 = [([0], 2), ([0, 1], 1), ([1], 2)] := by decide

/-- non-vacuity -/
example : allCombos 2 = [[1], [0], [0, 1]] := by decide

end WindVerif.C17
