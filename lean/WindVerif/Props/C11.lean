import WindVerif.Proofs.LineFile
import WindVerif.Proofs.LineFileSeq
/-!
# C11 — Line files: indexing, slicing and iteration return exactly the file's lines

Property theorems only (proofs in `Proofs/LineFile.lean`, `Proofs/LineFileAux.lean`).  `refLines content` is
`content.split('\n')` without the empty piece a final `'\n'` leaves; `Good f ls` says the file object presents the list
`ls` — a statement that does not mention the handle's cursor, which is why interleaved random accesses and several live
iterations cannot disturb each other: every read re-establishes `Good` (`SameButCursor`) and returns `ls[p]`.
The buffered and the memory-mapped variant are both tied to this one model by the correspondence check.
-/
namespace WindVerif.C11
open WindVerif.LineFile

/-- the built index has one entry per `'\n'`-delimited line (an unterminated last line counts, a final `'\n'` adds none),
every offset is on a character boundary and is the start of the corresponding line -/
theorem indexFile_spec (content : Str) :
    (indexFile content).length = (refLines content).length ∧
    ∀ i, i < (refLines content).length →
      ∃ o, (indexFile content)[i]? = some o ∧ lineAt content o = (refLines content)[i]? := by
  first | exact WindVerif.LineFile.indexFile_spec .. | (apply WindVerif.LineFile.indexFile_spec <;> assumption)

theorem new_good (content : Str) : Good (LF.new content none) (refLines content) := by
  first | exact WindVerif.LineFile.new_good .. | (apply WindVerif.LineFile.new_good <;> assumption)

/-- a caller-supplied offset index (any subset or permutation of line starts) is honoured -/
theorem new_custom_good (content : Str) (offs : List Nat) (ls : List Str)
    (h : offs.map (lineAt content) = ls.map some) : Good (LF.new content (some offs)) ls := by
  first | exact WindVerif.LineFile.new_custom_good .. | (apply WindVerif.LineFile.new_custom_good <;> assumption)

theorem new_state (content : Str) (custom : Option (List Nat)) :
    (LF.new content custom).dirty = false ∧ (LF.new content custom).closed = true ∧
    (LF.new content custom).content = content := by
  first | exact WindVerif.LineFile.new_state .. | (apply WindVerif.LineFile.new_state <;> assumption)

theorem open_good (f : LF) (ls : List Str) (h : Good f ls) :
    Good f.open ls ∧ f.open.closed = false ∧ f.open.dirty = f.dirty ∧ f.open.content = f.content := by
  first | exact WindVerif.LineFile.open_good .. | (apply WindVerif.LineFile.open_good <;> assumption)

/-- reading position `p` returns `ls[p]` whatever the cursor is, and moves nothing but the cursor -/
theorem getPos_spec (f : LF) (ls : List Str) (h : Good f ls) (p : Nat) (l : Str) (hp : ls[p]? = some l) :
    ∃ f', f.getPos p = .ok (f', l) ∧ SameButCursor f f' := by
  first | exact WindVerif.LineFile.getPos_spec .. | (apply WindVerif.LineFile.getPos_spec <;> assumption)

/-- `f[i]` for an `int`: like a list, positive and negative `i`; `IndexError` outside; `RuntimeError` when closed -/
theorem getInt_spec (f : LF) (ls : List Str) (h : Good f ls) (i : Int) :
    (f.closed = true → f.getInt i = .error .runtimeError) ∧
    (f.closed = false → match Py.index ls.length i with
      | some p => ∃ f' l, ls[p]? = some l ∧ f.getInt i = .ok (f', l) ∧ SameButCursor f f'
      | none => f.getInt i = .error .indexError) := by
  first | exact WindVerif.LineFile.getInt_spec .. | (apply WindVerif.LineFile.getInt_spec <;> assumption)

/-- an iterable of indices selects like a list -/
theorem getIter_spec (f : LF) (ls : List Str) (h : Good f ls) (hc : f.closed = false) (sel : List Int) :
    (∀ ps, sel.mapM (Py.index ls.length) = some ps →
      ∃ f' out, f.getIter sel = .ok (f', out) ∧ out.map some = ps.map (ls[·]?) ∧ SameButCursor f f') ∧
    (sel.mapM (Py.index ls.length) = none → f.getIter sel = .error .indexError) := by
  first | exact WindVerif.LineFile.getIter_spec .. | (apply WindVerif.LineFile.getIter_spec <;> assumption)

/-- `range(len)[slice]` only enumerates valid positions -/
theorem sliceIndices_lt (len : Nat) (s : Py.Slice) (idx : List Nat) (h : Py.sliceIndices len s = some idx) :
    ∀ p ∈ idx, p < len := by
  first | exact WindVerif.LineFile.sliceIndices_lt .. | (apply WindVerif.LineFile.sliceIndices_lt <;> assumption)

/-- a slice selects the positions `range(len)[slice]` enumerates -/
theorem getSlice_spec (f : LF) (ls : List Str) (h : Good f ls) (hc : f.closed = false) (s : Py.Slice) :
    (∀ idx, Py.sliceIndices ls.length s = some idx → (∀ p ∈ idx, p < ls.length) →
      ∃ f' out, f.getSlice s = .ok (f', out) ∧ out.map some = idx.map (ls[·]?) ∧ SameButCursor f f') ∧
    (Py.sliceIndices ls.length s = none → f.getSlice s = .error .valueError) := by
  first | exact WindVerif.LineFile.getSlice_spec .. | (apply WindVerif.LineFile.getSlice_spec <;> assumption)

/-- one step of an iteration that has started: the `pos`-th line whatever happened to the handle in between (random
accesses, other iterations), then `StopIteration` -/
theorem iterNext_spec (f : LF) (ls : List Str) (h : Good f ls) (it : Iter) (hs : it.started = true)
    (ht : it.total = ls.length) :
    (∀ l, ls[it.pos]? = some l →
      ∃ f', f.iterNext it = .ok (f', { it with pos := it.pos + 1 }, some l) ∧ SameButCursor f f') ∧
    (it.total ≤ it.pos → f.iterNext it = .ok (f, it, none)) := by
  first | exact WindVerif.LineFile.iterNext_spec .. | (apply WindVerif.LineFile.iterNext_spec <;> assumption)

/-- the first step fixes the length (and needs an open file) -/
theorem iterNext_start (f : LF) (it : Iter) (hs : it.started = false) :
    (f.closed = true → f.iterNext it = .error .runtimeError) ∧
    (f.closed = false → f.iterNext it = f.iterNext ⟨true, 0, f.lines.length⟩) := by
  first | exact WindVerif.LineFile.iterNext_start .. | (apply WindVerif.LineFile.iterNext_start <;> assumption)

/-- `SameButCursor` keeps `Good` -/
theorem good_of_same (f f' : LF) (ls : List Str) (h : Good f ls) (hs : SameButCursor f f') : Good f' ls := by
  first | exact WindVerif.LineFile.good_of_same .. | (apply WindVerif.LineFile.good_of_same <;> assumption)

/-- non-vacuity: multi-byte content, an empty line, no final newline -/
example : refLines "é\n\nz".toList = ["é".toList, [], "z".toList] ∧ lineAt "é\n\nz".toList 3 = some [] ∧
    lineAt "é\n\nz".toList 1 = none := by decide

/-!
## The inherited `collections.abc.Sequence` interface: `index`, `count`, `in`, `reversed`

Model `Model/LineFileSeq.lean` (the mixin methods as `_collections_abc.py` writes them, over `f[i]` and the overridden
`__iter__`), proofs `Proofs/LineFileSeq.lean`, reference `Core/PyListSeq.lean` (`Py.pyListIndex` = `list.index`).
-/

/-- what `list.index(v, start, stop)` returns: the first position in `[start', min(stop', len))` that holds `v`, where a
negative bound counts from the end and is clamped to 0 (`Py.idxLo` / `Py.idxHi`) -/
theorem pyListIndex_eq_some_iff {α} [DecidableEq α] (l : List α) (v : α) (start stop : Option Int) (k : Nat) :
    Py.pyListIndex l v start stop = some k ↔
      Py.idxLo l.length start ≤ k ∧ k < Py.idxHi l.length stop ∧ l[k]? = some v ∧
      ∀ j, Py.idxLo l.length start ≤ j → j < k → l[j]? ≠ some v := by
  first | exact WindVerif.Py.pyListIndex_eq_some_iff .. | (apply WindVerif.Py.pyListIndex_eq_some_iff <;> assumption)

/-- … and when it raises `ValueError` -/
theorem pyListIndex_eq_none_iff {α} [DecidableEq α] (l : List α) (v : α) (start stop : Option Int) :
    Py.pyListIndex l v start stop = none ↔
      ∀ j, Py.idxLo l.length start ≤ j → j < Py.idxHi l.length stop → l[j]? ≠ some v := by
  first | exact WindVerif.Py.pyListIndex_eq_none_iff .. | (apply WindVerif.Py.pyListIndex_eq_none_iff <;> assumption)

/-- `f.index(v, start, stop)` on an opened file is `ls.index(v, start, stop)` of the presented list — the same position,
and `ValueError` exactly when the list raises it — for every `start` / `stop`, negative and out of range included -/
theorem lfIndex_spec (f : LF) (ls : List Str) (h : Good f ls) (hc : f.closed = false) (v : Str)
    (start stop : Option Int) :
    match Py.pyListIndex ls v start stop with
    | some k => ∃ f', lfIndex f v start stop = .ok (f', k) ∧ SameButCursor f f'
    | none => lfIndex f v start stop = .error .valueError := by
  first | exact WindVerif.LineFile.lfIndex_spec .. | (apply WindVerif.LineFile.lfIndex_spec <;> assumption)

/-- on a closed file `index` raises `RuntimeError` as soon as it reads an item — not when the normalised bounds are
empty (`stop` given and `start' ≥ stop'`): then the loop is not entered and it is `ValueError` -/
theorem lfIndex_closed (f : LF) (hc : f.closed = true) (v : Str) (start stop : Option Int) :
    lfIndex f v start stop =
      if seqBelow (seqStop f.lines.length stop) (seqStart f.lines.length start) then .error .runtimeError
      else .error .valueError := by
  first | exact WindVerif.LineFile.lfIndex_closed .. | (apply WindVerif.LineFile.lfIndex_closed <;> assumption)

/-- the fuel of the `index` loop suffices on every file -/
theorem lfIndexGo_fuel (v : Str) (stop : Option Int) (fuel : Nat) (f : LF) (p : Nat) (h : f.lines.length - p < fuel) :
    lfIndexGo f v stop fuel p = lfIndexGo f v stop (f.lines.length - p + 1) p := by
  first | exact WindVerif.LineFile.lfIndexGo_fuel .. | (apply WindVerif.LineFile.lfIndexGo_fuel <;> assumption)

/-- `f.count(v)` on an opened file: `ls.count(v)` -/
theorem lfCount_spec (f : LF) (ls : List Str) (h : Good f ls) (hc : f.closed = false) (v : Str) :
    ∃ f', lfCount f v = .ok (f', ls.count v) ∧ SameButCursor f f' := by
  first | exact WindVerif.LineFile.lfCount_spec .. | (apply WindVerif.LineFile.lfCount_spec <;> assumption)

theorem lfCount_closed (f : LF) (hc : f.closed = true) (v : Str) : lfCount f v = .error .runtimeError := by
  first | exact WindVerif.LineFile.lfCount_closed .. | (apply WindVerif.LineFile.lfCount_closed <;> assumption)

/-- `v in f` on an opened file: `v in ls` -/
theorem lfContains_iff (f : LF) (ls : List Str) (h : Good f ls) (hc : f.closed = false) (v : Str) :
    ∃ f' b, lfContains f v = .ok (f', b) ∧ (b = true ↔ v ∈ ls) ∧ SameButCursor f f' := by
  first | exact WindVerif.LineFile.lfContains_iff .. | (apply WindVerif.LineFile.lfContains_iff <;> assumption)

theorem lfContains_closed (f : LF) (hc : f.closed = true) (v : Str) : lfContains f v = .error .runtimeError := by
  first | exact WindVerif.LineFile.lfContains_closed .. | (apply WindVerif.LineFile.lfContains_closed <;> assumption)

/-- `list(reversed(f))` on an opened file: the presented list reversed -/
theorem lfReversed_spec (f : LF) (ls : List Str) (h : Good f ls) (hc : f.closed = false) :
    ∃ f', lfReversed f = .ok (f', ls.reverse) ∧ SameButCursor f f' := by
  first | exact WindVerif.LineFile.lfReversed_spec .. | (apply WindVerif.LineFile.lfReversed_spec <;> assumption)

/-- on a closed file `reversed` raises `RuntimeError` at its first item; without lines there is no first item:
`list(reversed(f)) == []` -/
theorem lfReversed_closed (f : LF) (hc : f.closed = true) :
    (f.lines ≠ [] → lfReversed f = .error .runtimeError) ∧ (f.lines = [] → lfReversed f = .ok (f, [])) := by
  first | exact WindVerif.LineFile.lfReversed_closed .. | (apply WindVerif.LineFile.lfReversed_closed <;> assumption)

/-- non-vacuity: the hypotheses on a concrete opened file (three lines, a duplicate, multi-byte content) … -/
example : Good (LF.new "é
b
é
".toList (some [0, 3, 5])).open ["é".toList, "b".toList, "é".toList] ∧
    (LF.new "é
b
é
".toList (some [0, 3, 5])).open.closed = false :=
  ⟨(WindVerif.LineFile.open_good _ _ (WindVerif.LineFile.new_custom_good _ _ _ (by decide))).1, rfl⟩

/-- … and what the inherited methods compute on it: `index` with a negative start, an empty range, an absent value;
`count`, `in`, `reversed`; and the closed file (`RuntimeError`, but `ValueError` for empty bounds) -/
example :
    let f := (LF.new "é
b
é
".toList (some [0, 3, 5])).open
    (lfIndex f "é".toList none none).toOption.map (·.2) = some 0 ∧
    (lfIndex f "é".toList (some (-2)) none).toOption.map (·.2) = some 2 ∧
    (lfIndex f "é".toList (some 1) (some (-1))).toOption.map (·.2) = none ∧
    Py.pyListIndex ["é".toList, "b".toList, "é".toList] "é".toList (some (-2)) none = some 2 ∧
    Py.pyListIndex ["é".toList, "b".toList, "é".toList] "é".toList (some 1) (some (-1)) = none ∧
    (lfCount f "é".toList).toOption.map (·.2) = some 2 ∧
    (lfContains f "b".toList).toOption.map (·.2) = some true ∧
    (lfContains f "x".toList).toOption.map (·.2) = some false ∧
    (lfReversed f).toOption.map (·.2) = some ["é".toList, "b".toList, "é".toList] ∧
    (match lfIndex f.close "é".toList none none with | .error .runtimeError => true | _ => false) = true ∧
    (match lfIndex f.close "é".toList (some 2) (some 1) with | .error .valueError => true | _ => false) = true := by
  decide

end WindVerif.C11
