import WindVerif.Proofs.Buffers
import WindVerif.Proofs.RingSeq
/-!
# C15 — Reorder buffers emit each item once in serial order; ring buffer keeps last N

Property theorems only (proofs in `Proofs/Buffers.lean`).  Histories: `Ev.feed i` / `Ev.drain` for `Buffer`, a list of
serials for `PrintBuffer`, `some x` = put / `none` = clear for `CircularBuffer`; the item of serial `i` is `f i`.
-/
namespace WindVerif.C15
open WindVerif.Buffers

/-- Every serial fed at most once, drains at arbitrary points: at every moment the concatenated output is exactly the
items of serials `0 … waiting_for-1` in ascending order (so: each once, in order, nothing before all its predecessors,
`waiting_for` = number emitted), everything below `waiting_for` has been fed, the buffer holds exactly the fed serials
that are not yet emitted, and `len` is their number. -/
theorem buffer_emits_in_order (f : Nat → Nat) (evs : List Ev) (hnd : (serials evs).Nodup) :
    let r := runBuf f Buf.empty [] evs
    r.2 = (List.range r.1.wf).map f ∧
    (∀ j, j < r.1.wf → j ∈ serials evs) ∧
    (∀ i, (∃ x, (i, x) ∈ r.1.storage) ↔ (i ∈ serials evs ∧ r.1.wf ≤ i)) ∧
    (∀ i x, (i, x) ∈ r.1.storage → x = f i) ∧
    r.1.len = (serials evs).length - r.1.wf := by
  first | exact WindVerif.Buffers.buffer_emits_in_order .. | (apply WindVerif.Buffers.buffer_emits_in_order <;> assumption)

/-- right after a drain `waiting_for` is the least serial that has not been fed -/
theorem buffer_wf_after_drain (f : Nat → Nat) (evs : List Ev) (hnd : (serials evs).Nodup) :
    (runBuf f Buf.empty [] (evs ++ [.drain])).1.wf ∉ serials evs := by
  first | exact WindVerif.Buffers.buffer_wf_after_drain .. | (apply WindVerif.Buffers.buffer_wf_after_drain <;> assumption)

/-- feeding a permutation of `0..n-1` and draining at the end emits everything exactly once, in order -/
theorem buffer_complete (f : Nat → Nat) (evs : List Ev) (n : Nat) (hperm : (serials evs).Perm (List.range n)) :
    let r := runBuf f Buf.empty [] (evs ++ [.drain])
    r.2 = (List.range n).map f ∧ r.1.wf = n ∧ r.1.len = 0 := by
  first | exact WindVerif.Buffers.buffer_complete .. | (apply WindVerif.Buffers.buffer_complete <;> assumption)

/-- an already emitted position is rejected with `AttributeError` and changes nothing -/
theorem buffer_put_emitted (b : Buf) (i x : Nat) (h : i < b.wf) : b.put i x = .error .attributeError := by
  first | exact WindVerif.Buffers.buffer_put_emitted .. | (apply WindVerif.Buffers.buffer_put_emitted <;> assumption)

theorem buffer_flush (b : Buf) : b.flush = Buf.empty := by
  first | exact WindVerif.Buffers.buffer_flush .. | (apply WindVerif.Buffers.buffer_flush <;> assumption)

/-- Every serial printed at most once (any order): the printed output is always exactly the items of serials
`0 … waiting_for-1` in order, `waiting_for` is the least serial not yet given, and the buffer holds exactly the given
serials above it. -/
theorem printbuffer_in_order (f : Nat → Nat) (sns : List Nat) (hnd : sns.Nodup) :
    let b := runP f PBuf.empty sns
    b.out = (List.range b.wf).map f ∧
    b.wf ∉ sns ∧ (∀ j, j < b.wf → j ∈ sns) ∧
    (∀ i, (∃ x, (i, x) ∈ b.buffer) ↔ (i ∈ sns ∧ b.wf < i)) ∧
    (∀ i x, (i, x) ∈ b.buffer → x = f i) ∧
    b.len = sns.length - b.wf := by
  first | exact WindVerif.Buffers.printbuffer_in_order .. | (apply WindVerif.Buffers.printbuffer_in_order <;> assumption)

/-- `print` reports whether it printed: exactly when the serial is the awaited one -/
theorem printbuffer_print_result (b : PBuf) (sn x : Nat) : (b.print sn x).2 = decide (sn = b.wf) := by
  first | exact WindVerif.Buffers.printbuffer_print_result .. | (apply WindVerif.Buffers.printbuffer_print_result <;> assumption)

/-- `flush()` prints everything stored in ascending serial order, empties the buffer and moves `waiting_for` behind the
biggest stored serial; on an empty buffer it does nothing -/
theorem printbuffer_flush (b : PBuf) (hk : (b.buffer.map (·.1)).Nodup) :
    (b.buffer = [] → b.flush = b) ∧
    (b.buffer ≠ [] →
      ∃ sorted : List (Nat × Nat), sorted.Perm b.buffer ∧ (sorted.map (·.1)).Pairwise (· < ·) ∧
        b.flush.out = b.out ++ sorted.map (·.2) ∧ b.flush.buffer = [] ∧
        (∀ p ∈ b.buffer, p.1 < b.flush.wf) ∧ (∃ p ∈ b.buffer, b.flush.wf = p.1 + 1)) := by
  first | exact WindVerif.Buffers.printbuffer_flush .. | (apply WindVerif.Buffers.printbuffer_flush <;> assumption)

theorem printbuffer_clear (b : PBuf) : b.clear.buffer = [] ∧ b.clear.wf = 0 ∧ b.clear.out = b.out := by
  first | exact WindVerif.Buffers.printbuffer_clear .. | (apply WindVerif.Buffers.printbuffer_clear <;> assumption)

/-- after any sequence of put/clear the ring presents exactly the last `min(k, c)` items put since the last clear,
oldest first -/
theorem ring_spec (c : Nat) (hc : 0 < c) (evs : List (Option Nat)) :
    let r := runRing (Ring.new c) [] evs
    r.1.toList = r.2.drop (r.2.length - c) ∧ r.1.size = min r.2.length c ∧ r.1.maxSize = c := by
  first | exact WindVerif.Buffers.ring_spec .. | (apply WindVerif.Buffers.ring_spec <;> assumption)

/-- indexing agrees with the presented list and rejects every index outside `0 .. len-1` -/
theorem ring_get_spec (c : Nat) (hc : 0 < c) (evs : List (Option Nat)) (i : Int) :
    let r := (runRing (Ring.new c) [] evs).1
    (0 ≤ i ∧ i < r.size → ∃ x, r.get i = .ok x ∧ r.toList[i.toNat]? = some x) ∧
    (¬ (0 ≤ i ∧ i < r.size) → r.get i = .error .indexError) := by
  first | exact WindVerif.Buffers.ring_get_spec .. | (apply WindVerif.Buffers.ring_get_spec <;> assumption)

/-- non-vacuity: a concrete out-of-order history -/
example : (runBuf (· + 100) Buf.empty [] [.feed 1, .feed 2, .drain, .feed 0, .drain]).2 = [100, 101, 102] := by decide
example : (serials [Ev.feed 1, .feed 2, .drain, .feed 0, .drain]).Nodup := by decide
example : ((runRing (Ring.new 3) [] [some 1, some 2, some 3, some 4]).1).toList = [2, 3, 4] := by decide

/-! ### The inherited `collections.abc.Sequence` interface of `CircularBuffer`

Models in `Model/RingSeq.lean` (the mixin methods as CPython 3.12 `_collections_abc.py` writes them, on top of `Ring.get` =
`__getitem__` and `Ring.size` = `__len__`), proofs in `Proofs/RingSeq.lean`.  They agree with the builtin list holding the
presented content (`Ring.toList`, characterised by `ring_spec`); the only hypothesis is `0 < max_size`, which the
constructor asserts (`ring_maxSize_pos`: every reachable state meets it). -/

/-- every state reached from `CircularBuffer(c)`, `c > 0`, has a positive `max_size` -/
theorem ring_maxSize_pos (c : Nat) (hc : 0 < c) (evs : List (Option Nat)) :
    0 < (runRing (Ring.new c) [] evs).1.maxSize := by
  first | exact WindVerif.Buffers.ring_maxSize_pos .. | (apply WindVerif.Buffers.ring_maxSize_pos <;> assumption)

/-- `list(ring)` through `Sequence.__iter__` (index until `IndexError`) is the presented list -/
theorem ringIter_spec (r : Ring) (h : 0 < r.maxSize) : ringIter r = r.toList := by
  first | exact WindVerif.Buffers.ringIter_spec .. | (apply WindVerif.Buffers.ringIter_spec <;> assumption)

/-- the iteration loop has ended within `len + 1` steps: more fuel changes nothing -/
theorem ringIter_fuel (r : Ring) (h : 0 < r.maxSize) (extra : Nat) :
    ringIterLoop r (r.size + 1 + extra) 0 = ringIter r := by
  first | exact WindVerif.Buffers.ringIter_fuel .. | (apply WindVerif.Buffers.ringIter_fuel <;> assumption)

/-- `value in ring` -/
theorem ringContains_iff (r : Ring) (v : Nat) (h : 0 < r.maxSize) : ringContains r v = true ↔ v ∈ r.toList := by
  first | exact WindVerif.Buffers.ringContains_iff .. | (apply WindVerif.Buffers.ringContains_iff <;> assumption)

/-- `reversed(ring)` -/
theorem ringReversed_spec (r : Ring) (h : 0 < r.maxSize) : ringReversed r = .ok r.toList.reverse := by
  first | exact WindVerif.Buffers.ringReversed_spec .. | (apply WindVerif.Buffers.ringReversed_spec <;> assumption)

/-- `ring.count(value)` -/
theorem ringCount_spec (r : Ring) (v : Nat) (h : 0 < r.maxSize) : ringCount r v = r.toList.count v := by
  first | exact WindVerif.Buffers.ringCount_spec .. | (apply WindVerif.Buffers.ringCount_spec <;> assumption)

/-- `ring.index(value, start, stop)` of the mixin agrees with `list.index` of the presented list for ALL arguments (negative,
too big, missing): the same position, or `ValueError` in both -/
theorem ringIndex_spec (r : Ring) (v : Nat) (start stop : Option Int) (h : 0 < r.maxSize) :
    ringIndex r v start stop =
      (match pyListIndex r.toList v start stop with
       | some i => .ok i
       | none => .error .valueError) := by
  first | exact WindVerif.Buffers.ringIndex_spec .. | (apply WindVerif.Buffers.ringIndex_spec <;> assumption)

/-- non-vacuity: a wrapped-around buffer; negative and missing bounds -/
example : 0 < ((runRing (Ring.new 3) [] [some 1, some 2, some 3, some 2]).1).maxSize := by decide
example : let r := (runRing (Ring.new 3) [] [some 1, some 2, some 3, some 2]).1
    ringIter r = [2, 3, 2] ∧ (ringReversed r).toOption = some [2, 3, 2] ∧ ringCount r 2 = 2 ∧ ringContains r 1 = false ∧
    (ringIndex r 2 none none).toOption = some 0 ∧ (ringIndex r 2 (some (-2)) none).toOption = some 2 ∧
    (ringIndex r 2 (some 1) (some (-1))).toOption = none ∧ (ringIndex r 2 (some (-9)) (some 9)).toOption = some 0 ∧
    pyListIndex [2, 3, 2] 2 (some (-2)) none = some 2 ∧ pyListIndex [2, 3, 2] 2 (some 1) (some (-1)) = none := by
  dsimp only; decide

end WindVerif.C15
