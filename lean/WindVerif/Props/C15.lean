import WindVerif.Proofs.Buffers
import WindVerif.Proofs.RingSeq
import WindVerif.Proofs.BuffersFail
/-!
# C15 — Reorder buffers emit each item once in serial order; ring buffer keeps last N

Property theorems only (proofs in `Proofs/Buffers.lean`).  Histories: `Ev.feed i` / `Ev.drain` for `Buffer`, a list of
serials for `PrintBuffer`, `some x` = put / `none` = clear for `CircularBuffer`; the item of serial `i` is `f i`.
-/
namespace WindVerif.C15
open WindVerif.Buffers

/-- Every serial fed at most once, drains at arbitrary points: at every moment the concatenated output is exactly the
items of serials `0 … waiting_for-1` in ascending order (so: each once, in order, nothing before all its predecessors,
`waiting_for` = number emitted), everything below `waiting_for` has been fed, the buffer holds exactly the fed serials
that are not yet emitted, and `len` is their number. -/
theorem buffer_emits_in_order (f : Nat → Nat) (evs : List Ev) (hnd : (serials evs).Nodup) :
    let r := runBuf f Buf.empty [] evs
    r.2 = (List.range r.1.wf).map f ∧
    (∀ j, j < r.1.wf → j ∈ serials evs) ∧
    (∀ i, (∃ x, (i, x) ∈ r.1.storage) ↔ (i ∈ serials evs ∧ r.1.wf ≤ i)) ∧
    (∀ i x, (i, x) ∈ r.1.storage → x = f i) ∧
    r.1.len = (serials evs).length - r.1.wf := by
  first | exact WindVerif.Buffers.buffer_emits_in_order .. | (apply WindVerif.Buffers.buffer_emits_in_order <;> assumption)

/-- right after a drain `waiting_for` is the least serial that has not been fed -/
theorem buffer_wf_after_drain (f : Nat → Nat) (evs : List Ev) (hnd : (serials evs).Nodup) :
    (runBuf f Buf.empty [] (evs ++ [.drain])).1.wf ∉ serials evs := by
  first | exact WindVerif.Buffers.buffer_wf_after_drain .. | (apply WindVerif.Buffers.buffer_wf_after_drain <;> assumption)

/-- feeding a permutation of `0..n-1` and draining at the end emits everything exactly once, in order -/
theorem buffer_complete (f : Nat → Nat) (evs : List Ev) (n : Nat) (hperm : (serials evs).Perm (List.range n)) :
    let r := runBuf f Buf.empty [] (evs ++ [.drain])
    r.2 = (List.range n).map f ∧ r.1.wf = n ∧ r.1.len = 0 := by
  first | exact WindVerif.Buffers.buffer_complete .. | (apply WindVerif.Buffers.buffer_complete <;> assumption)

/-- an already emitted position is rejected with `AttributeError` and changes nothing -/
theorem buffer_put_emitted (b : Buf) (i x : Nat) (h : i < b.wf) : b.put i x = .error .attributeError := by
  first | exact WindVerif.Buffers.buffer_put_emitted .. | (apply WindVerif.Buffers.buffer_put_emitted <;> assumption)

theorem buffer_flush (b : Buf) : b.flush = Buf.empty := by
  first | exact WindVerif.Buffers.buffer_flush .. | (apply WindVerif.Buffers.buffer_flush <;> assumption)

/-- Every serial printed at most once (any order): the printed output is always exactly the items of serials
`0 … waiting_for-1` in order, `waiting_for` is the least serial not yet given, and the buffer holds exactly the given
serials above it. -/
theorem printbuffer_in_order (f : Nat → Nat) (sns : List Nat) (hnd : sns.Nodup) :
    let b := runP f PBuf.empty sns
    b.out = (List.range b.wf).map f ∧
    b.wf ∉ sns ∧ (∀ j, j < b.wf → j ∈ sns) ∧
    (∀ i, (∃ x, (i, x) ∈ b.buffer) ↔ (i ∈ sns ∧ b.wf < i)) ∧
    (∀ i x, (i, x) ∈ b.buffer → x = f i) ∧
    b.len = sns.length - b.wf := by
  first | exact WindVerif.Buffers.printbuffer_in_order .. | (apply WindVerif.Buffers.printbuffer_in_order <;> assumption)

/-- `print` reports whether it printed: exactly when the serial is the awaited one -/
theorem printbuffer_print_result (b : PBuf) (sn x : Nat) : (b.print sn x).2 = decide (sn = b.wf) := by
  first | exact WindVerif.Buffers.printbuffer_print_result .. | (apply WindVerif.Buffers.printbuffer_print_result <;> assumption)

/-- `flush()` prints everything stored in ascending serial order, empties the buffer and moves `waiting_for` behind the
biggest stored serial; on an empty buffer it does nothing -/
theorem printbuffer_flush (b : PBuf) (hk : (b.buffer.map (·.1)).Nodup) :
    (b.buffer = [] → b.flush = b) ∧
    (b.buffer ≠ [] →
      ∃ sorted : List (Nat × Nat), sorted.Perm b.buffer ∧ (sorted.map (·.1)).Pairwise (· < ·) ∧
        b.flush.out = b.out ++ sorted.map (·.2) ∧ b.flush.buffer = [] ∧
        (∀ p ∈ b.buffer, p.1 < b.flush.wf) ∧ (∃ p ∈ b.buffer, b.flush.wf = p.1 + 1)) := by
  first | exact WindVerif.Buffers.printbuffer_flush .. | (apply WindVerif.Buffers.printbuffer_flush <;> assumption)

theorem printbuffer_clear (b : PBuf) : b.clear.buffer = [] ∧ b.clear.wf = 0 ∧ b.clear.out = b.out := by
  first | exact WindVerif.Buffers.printbuffer_clear .. | (apply WindVerif.Buffers.printbuffer_clear <;> assumption)

/-- after any sequence of put/clear the ring presents exactly the last `min(k, c)` items put since the last clear,
oldest first -/
theorem ring_spec (c : Nat) (hc : 0 < c) (evs : List (Option Nat)) :
    let r := runRing (Ring.new c) [] evs
    r.1.toList = r.2.drop (r.2.length - c) ∧ r.1.size = min r.2.length c ∧ r.1.maxSize = c := by
  first | exact WindVerif.Buffers.ring_spec .. | (apply WindVerif.Buffers.ring_spec <;> assumption)

/-- indexing agrees with the presented list and rejects every index outside `0 .. len-1` -/
theorem ring_get_spec (c : Nat) (hc : 0 < c) (evs : List (Option Nat)) (i : Int) :
    let r := (runRing (Ring.new c) [] evs).1
    (0 ≤ i ∧ i < r.size → ∃ x, r.get i = .ok x ∧ r.toList[i.toNat]? = some x) ∧
    (¬ (0 ≤ i ∧ i < r.size) → r.get i = .error .indexError) := by
  first | exact WindVerif.Buffers.ring_get_spec .. | (apply WindVerif.Buffers.ring_get_spec <;> assumption)

/-- non-vacuity: a concrete out-of-order history -/
example : (runBuf (· + 100) Buf.empty [] [.feed 1, .feed 2, .drain, .feed 0, .drain]).2 = [100, 101, 102] := by decide
example : (serials [Ev.feed 1, .feed 2, .drain, .feed 0, .drain]).Nodup := by decide
example : ((runRing (Ring.new 3) [] [some 1, some 2, some 3, some 4]).1).toList = [2, 3, 4] := by decide

/-! ### The inherited `collections.abc.Sequence` interface of `CircularBuffer`

Models in `Model/RingSeq.lean` (the mixin methods as CPython 3.12 `_collections_abc.py` writes them, on top of `Ring.get` =
`__getitem__` and `Ring.size` = `__len__`), proofs in `Proofs/RingSeq.lean`.  They agree with the builtin list holding the
presented content (`Ring.toList`, characterised by `ring_spec`); the only hypothesis is `0 < max_size`, which the
constructor asserts (`ring_maxSize_pos`: every reachable state meets it). -/

/-- every state reached from `CircularBuffer(c)`, `c > 0`, has a positive `max_size` -/
theorem ring_maxSize_pos (c : Nat) (hc : 0 < c) (evs : List (Option Nat)) :
    0 < (runRing (Ring.new c) [] evs).1.maxSize := by
  first | exact WindVerif.Buffers.ring_maxSize_pos .. | (apply WindVerif.Buffers.ring_maxSize_pos <;> assumption)

/-- `list(ring)` through `Sequence.__iter__` (index until `IndexError`) is the presented list -/
theorem ringIter_spec (r : Ring) (h : 0 < r.maxSize) : ringIter r = r.toList := by
  first | exact WindVerif.Buffers.ringIter_spec .. | (apply WindVerif.Buffers.ringIter_spec <;> assumption)

/-- the iteration loop has ended within `len + 1` steps: more fuel changes nothing -/
theorem ringIter_fuel (r : Ring) (h : 0 < r.maxSize) (extra : Nat) :
    ringIterLoop r (r.size + 1 + extra) 0 = ringIter r := by
  first | exact WindVerif.Buffers.ringIter_fuel .. | (apply WindVerif.Buffers.ringIter_fuel <;> assumption)

/-- `value in ring` -/
theorem ringContains_iff (r : Ring) (v : Nat) (h : 0 < r.maxSize) : ringContains r v = true ↔ v ∈ r.toList := by
  first | exact WindVerif.Buffers.ringContains_iff .. | (apply WindVerif.Buffers.ringContains_iff <;> assumption)

/-- `reversed(ring)` -/
theorem ringReversed_spec (r : Ring) (h : 0 < r.maxSize) : ringReversed r = .ok r.toList.reverse := by
  first | exact WindVerif.Buffers.ringReversed_spec .. | (apply WindVerif.Buffers.ringReversed_spec <;> assumption)

/-- `ring.count(value)` -/
theorem ringCount_spec (r : Ring) (v : Nat) (h : 0 < r.maxSize) : ringCount r v = r.toList.count v := by
  first | exact WindVerif.Buffers.ringCount_spec .. | (apply WindVerif.Buffers.ringCount_spec <;> assumption)

/-- `ring.index(value, start, stop)` of the mixin agrees with `list.index` of the presented list for ALL arguments (negative,
too big, missing): the same position, or `ValueError` in both -/
theorem ringIndex_spec (r : Ring) (v : Nat) (start stop : Option Int) (h : 0 < r.maxSize) :
    ringIndex r v start stop =
      (match pyListIndex r.toList v start stop with
       | some i => .ok i
       | none => .error .valueError) := by
  first | exact WindVerif.Buffers.ringIndex_spec .. | (apply WindVerif.Buffers.ringIndex_spec <;> assumption)

/-- non-vacuity: a wrapped-around buffer; negative and missing bounds -/
example : 0 < ((runRing (Ring.new 3) [] [some 1, some 2, some 3, some 2]).1).maxSize := by decide
example : let r := (runRing (Ring.new 3) [] [some 1, some 2, some 3, some 2]).1
    ringIter r = [2, 3, 2] ∧ (ringReversed r).toOption = some [2, 3, 2] ∧ ringCount r 2 = 2 ∧ ringContains r 1 = false ∧
    (ringIndex r 2 none none).toOption = some 0 ∧ (ringIndex r 2 (some (-2)) none).toOption = some 2 ∧
    (ringIndex r 2 (some 1) (some (-1))).toOption = none ∧ (ringIndex r 2 (some (-9)) (some 9)).toOption = some 0 ∧
    pyListIndex [2, 3, 2] 2 (some (-2)) none = some 2 ∧ pyListIndex [2, 3, 2] 2 (some 1) (some (-1)) = none := by
  dsimp only; decide

/-! ### `PrintBuffer` with an output stream that can fail: nothing is lost

Model in `Model/BuffersFail.lean`: the stream is an oracle `ok : Nat → Bool` (does the `n`-th attempted write of a value
succeed?), the state `PBufF` is the old `PBuf` plus the number of attempts; `printF` / `flushF` follow the Python statement
order (write FIRST, then delete and count) and return the state as the raised exception leaves it.  Histories: `EvF.print sn` /
`EvF.flush`, run by `runG` from `GSt.init`; the value of serial `i` is `f i`.  The ghost list `taken` holds the serials whose
value the buffer has taken over (written or stored), `refused` those of the `print` calls that raised at the write of their own
value — such a call has changed nothing (`printbuffer_refused_unchanged`), the value is still with the caller. -/

/-- a `print` call for the awaited serial whose first write fails raises and has changed nothing but the attempt counter (the
caller still has the value and may call again) -/
theorem printbuffer_refused_unchanged {ok : Nat → Bool} {s : PBufF} {sn : Nat} (x : Nat) (h : refuses ok s sn = true) :
    s.printF ok sn x = ({ s with att := s.att + 1 }, .error ()) := by
  first | exact WindVerif.Buffers.printF_refused .. | (apply WindVerif.Buffers.printF_refused <;> assumption)

/-- the fuel `printF` gives to its `while` loop suffices: when the loop ends without an exception its condition is false -/
theorem printbuffer_chase_fuel {ok : Nat → Bool} (fuel : Nat) (s : PBufF) (hf : s.buffer.length < fuel)
    (hr : (PBufF.chaseF ok fuel s).2 = .ok ()) :
    sGet (PBufF.chaseF ok fuel s).1.buffer (PBufF.chaseF ok fuel s).1.wf = none := by
  first | exact WindVerif.Buffers.chaseF_fuel .. | (apply WindVerif.Buffers.chaseF_fuel <;> assumption)

/-- Nothing is lost: every serial number fed at most once, ANY failure oracle, `flush` calls anywhere.  Every serial of a `print`
call is in exactly one of three places, exactly once: among the written values (`outS`: the serials in output order), in the
buffer (with its value), or refused (that call raised at its first write and changed nothing). -/
theorem nothing_lost (ok : Nat → Bool) (f : Nat → Nat) (evs : List EvF) (hnd : (printed evs).Nodup) :
    let g := runG ok f GSt.init evs
    ∃ outS : List Nat,
      g.st.out = outS.map f ∧
      (outS ++ g.st.buffer.map (·.1) ++ g.refused).Perm (printed evs) ∧
      (∀ i x, (i, x) ∈ g.st.buffer → x = f i) ∧
      (∀ i, i ∈ printed evs →
        outS.count i + (g.st.buffer.map (·.1)).count i + g.refused.count i = 1) ∧
      (∀ i, i ∈ g.refused → i ∉ g.taken) := by
  first | exact WindVerif.Buffers.nothing_lost .. | (apply WindVerif.Buffers.nothing_lost <;> assumption)

/-- The same with the weakest form of "unique serials": no `print` call for a serial whose value has already been taken, so
calling again after a refusal is allowed (`Fresh`; unique serials imply it: `fresh_of_unique`).  The serials taken are
exactly the written ones and the stored ones, each once; every `print` call has either taken its value or refused it. -/
theorem nothing_lost_retry (ok : Nat → Bool) (f : Nat → Nat) (evs : List EvF) (hf : Fresh ok f GSt.init evs) :
    let g := runG ok f GSt.init evs
    ∃ outS : List Nat,
      g.st.out = outS.map f ∧
      g.taken.Nodup ∧ g.taken.Perm (outS ++ g.st.buffer.map (·.1)) ∧
      (∀ i x, (i, x) ∈ g.st.buffer → x = f i) ∧
      (g.taken ++ g.refused).Perm (printed evs) := by
  first | exact WindVerif.Buffers.nothing_lost_retry .. | (apply WindVerif.Buffers.nothing_lost_retry <;> assumption)

theorem fresh_of_unique (ok : Nat → Bool) (f : Nat → Nat) (evs : List EvF) (hnd : (printed evs).Nodup) :
    Fresh ok f GSt.init evs := by
  first | exact WindVerif.Buffers.fresh_of_nodup .. | (apply WindVerif.Buffers.fresh_of_nodup <;> assumption)

/-- While no `flush` has been called, the output is the values of serials `0 … waiting_for-1` in order, failures included;
everything below `waiting_for` has been taken, the buffer holds exactly the taken serials from `waiting_for` on (after a failed
write inside `print` this includes `waiting_for` itself: that value is held until `flush`). -/
theorem output_in_order_until_flush (ok : Nat → Bool) (f : Nat → Nat) (evs : List EvF)
    (hf : Fresh ok f GSt.init evs) (hn : noFlush evs) :
    let g := runG ok f GSt.init evs
    g.st.out = (List.range g.st.wf).map f ∧
    (∀ j, j < g.st.wf → j ∈ g.taken) ∧
    (∀ i, (∃ x, (i, x) ∈ g.st.buffer) ↔ (i ∈ g.taken ∧ g.st.wf ≤ i)) ∧
    (∀ i x, (i, x) ∈ g.st.buffer → x = f i) ∧
    g.st.len = g.taken.length - g.st.wf := by
  first | exact WindVerif.Buffers.output_in_order_until_flush .. | (apply WindVerif.Buffers.output_in_order_until_flush <;> assumption)

/-- Recovery: when the stream works from some point on, one `flush` does not raise, empties the buffer, and the output then
contains the value of every serial taken exactly once (`outS`: the serials in output order; what had been written stays in
front); without an earlier `flush` the output is in ascending serial order. -/
theorem recovery (ok : Nat → Bool) (f : Nat → Nat) (evs : List EvF) (hf : Fresh ok f GSt.init evs)
    (hok : ∀ n, (runG ok f GSt.init evs).st.att ≤ n → ok n = true) :
    let g := runG ok f GSt.init evs
    let r := g.st.flushF ok
    r.2 = .ok () ∧ r.1.buffer = [] ∧
    ∃ outS : List Nat, r.1.out = outS.map f ∧ outS.Perm g.taken ∧ g.taken.Nodup ∧
      (∃ rest, r.1.out = g.st.out ++ rest) ∧
      (noFlush evs → outS.Pairwise (· < ·)) := by
  first | exact WindVerif.Buffers.recovery .. | (apply WindVerif.Buffers.recovery <;> assumption)

/-- With a stream that never fails the new functions are the old `print` / `flush` / `clear` (so the theorems about the old
model are the special case). -/
theorem agrees_when_ok (s : PBufF) (sn x : Nat) :
    (s.printF (fun _ => true) sn x).1.toPBuf = (s.toPBuf.print sn x).1 ∧
    (s.printF (fun _ => true) sn x).2 = .ok (s.toPBuf.print sn x).2 ∧
    (s.flushF (fun _ => true)).1.toPBuf = s.toPBuf.flush ∧
    (s.flushF (fun _ => true)).2 = .ok () ∧
    s.clear.toPBuf = s.toPBuf.clear := by
  first | exact WindVerif.Buffers.agrees_when_ok .. | (apply WindVerif.Buffers.agrees_when_ok <;> assumption)

/-- … and the histories of `printbuffer_in_order` are the histories of the new model with that stream -/
theorem histories_agree_when_ok (f : Nat → Nat) (sns : List Nat) (g : GSt) :
    (runG (fun _ => true) f g (sns.map .print)).st.toPBuf = runP f g.st.toPBuf sns ∧
    (runG (fun _ => true) f g (sns.map .print)).taken = g.taken ++ sns := by
  first | exact WindVerif.Buffers.runG_allOk .. | (apply WindVerif.Buffers.runG_allOk <;> assumption)

/-- The ALTERNATIVE statement order (`printF'`: delete and count first, write afterwards — what a refactoring with `pop` would
produce) loses a value: serial 1 is stored, then serial 0 arrives; its own write (attempt 0) succeeds, the write of the stored
value (attempt 1) fails.  The value 101 of serial 1 is then neither in the output nor held, and `waiting_for` has passed it;
the real order (`printF`, last line) keeps it. -/
theorem delete_before_write_loses :
    let ok : Nat → Bool := fun n => n != 1
    let s1 := (PBufF.empty.printF' ok 1 101).1
    let r := s1.printF' ok 0 100
    let r0 := ((PBufF.empty.printF ok 1 101).1).printF ok 0 100
    s1.buffer = [(1, 101)] ∧
    r.2.toOption = none ∧ r.1.out = [100] ∧ r.1.buffer = [] ∧ r.1.wf = 2 ∧
    101 ∉ r.1.out ∧ 101 ∉ r.1.buffer.map (·.2) ∧
    r0.2.toOption = none ∧ r0.1.out = [100] ∧ r0.1.buffer = [(1, 101)] ∧ r0.1.wf = 1 := by
  first | exact WindVerif.Buffers.delete_before_write_loses .. | (apply WindVerif.Buffers.delete_before_write_loses <;> assumption)

/-- non-vacuity: the stream refuses its write number 1 — `print 0` writes its own value, fails at the stored value of serial 1
and raises; serial 2 is stored behind it; the hypotheses of the theorems hold for this history, and one `flush` recovers -/
example : (printed [EvF.print 1, .print 0, .print 2, .flush]).Nodup := by decide
example : Fresh (fun n => n != 1) (· + 100) GSt.init [.print 1, .print 0, .print 2] ∧
    noFlush [EvF.print 1, .print 0, .print 2] := by decide
example : let g := runG (fun n => n != 1) (· + 100) GSt.init [.print 1, .print 0, .print 2]
    g.st.out = [100] ∧ g.st.wf = 1 ∧ g.st.buffer = [(2, 102), (1, 101)] ∧ g.st.att = 2 ∧ g.taken = [1, 0, 2] ∧
    g.refused = [] ∧ (g.st.printF (fun n => n != 1) 3 103).2.toOption = some false := by decide
example : ∀ n, (runG (fun n => n != 1) (· + 100) GSt.init [.print 1, .print 0, .print 2]).st.att ≤ n →
    (fun n => n != 1) n = true := by
  intro n hn
  have e : (runG (fun n => n != 1) (· + 100) GSt.init [.print 1, .print 0, .print 2]).st.att = 2 := by decide
  rw [e] at hn
  simp only [bne_iff_ne, ne_eq]; omega
example : (PBufF.flushF (fun n => n != 1) ⟨⟨[(1, 101)], 1, [100]⟩, 2⟩).1.out = [100, 101] := by
  simp [PBufF.flushF, PBufF.flushLoop, PBufF.write]
/-- non-vacuity of `Fresh` beyond unique serials: the very first write is refused, the caller feeds serial 0 again -/
example : Fresh (fun n => n != 0) (· + 100) GSt.init [.print 1, .print 0, .print 0, .print 2] ∧
    ¬ (printed [EvF.print 1, .print 0, .print 0, .print 2]).Nodup ∧
    refuses (fun n => n != 0) (runG (fun n => n != 0) (· + 100) GSt.init [.print 1]).st 0 = true ∧
    (let g := runG (fun n => n != 0) (· + 100) GSt.init [.print 1, .print 0, .print 0, .print 2]
     g.st.out = [100, 101, 102] ∧ g.taken = [1, 0, 2] ∧ g.refused = [0] ∧ g.st.buffer = []) := by decide

end WindVerif.C15
