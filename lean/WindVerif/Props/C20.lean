import WindVerif.Proofs.TmpPool
import WindVerif.Proofs.FilePoolFail
import WindVerif.Proofs.TmpPoolCtx
import WindVerif.Proofs.TmpPoolRefuse
/-!
# C20 — TmpPool and FilePool leave nothing behind

Property theorems only (proofs, the history semantics `Op`/`applyOp`/`run` and the invariant `Inv` are in
`Proofs/TmpPool.lean`).  Histories may be produced by any process of a multi-process pool (`create pid`, `remove pid p`,
`flush pid`, `fork pid`) and may contain files deleted behind the pool's back (`unlink`).  Leaving the context normally and
through an exception are the same transition (`__exit__` always flushes).
-/
namespace WindVerif.C20
open WindVerif.TmpPool

theorem inv_new : Inv Pool.new := by
  first | exact WindVerif.TmpPool.inv_new .. | (apply WindVerif.TmpPool.inv_new <;> assumption)

theorem inv_step (s : Pool) (op : Op) (h : Inv s) : Inv (applyOp s op) := by
  first | exact WindVerif.TmpPool.inv_step .. | (apply WindVerif.TmpPool.inv_step <;> assumption)

theorem inv_run (ops : List Op) : Inv (run Pool.new ops) := by
  first | exact WindVerif.TmpPool.inv_run .. | (apply WindVerif.TmpPool.inv_run <;> assumption)

/-- every path returned by `create()` (in any process) is a distinct, existing file -/
theorem create_fresh (s : Pool) (h : Inv s) (pid : Nat) (hp : pid < s.refs.length) :
    ∃ s' p, s.create pid = .ok (s', p) ∧ p ∉ s.fs ∧ p ∈ s'.fs ∧ (∀ l, s.listOf 0 = some l → p ∉ l) ∧
      (∀ l', s'.listOf 0 = some l' → p ∈ l') := by
  first | exact WindVerif.TmpPool.create_fresh .. | (apply WindVerif.TmpPool.create_fresh <;> assumption)

/-- after any history without outside interference the pool lists exactly the created-and-not-removed paths and exactly
those exist on disk -/
theorem listed_eq_existing (ops : List Op) (hn : NoUnlink ops) :
    ∃ l, (run Pool.new ops).listOf 0 = some l ∧ ∀ p, p ∈ l ↔ p ∈ (run Pool.new ops).fs := by
  first | exact WindVerif.TmpPool.listed_eq_existing .. | (apply WindVerif.TmpPool.listed_eq_existing <;> assumption)

/-- whatever happened before (children creating files, files deleted from outside, failed removals): after `flush()` by
any process, and after leaving the context by any route, none of the pool's files exists and nothing is listed -/
theorem nothing_left_flush (ops : List Op) (pid : Nat) (hp : pid < (run Pool.new ops).refs.length) :
    ∃ s', (run Pool.new ops).flush pid = .ok s' ∧ s'.fs = [] ∧ s'.listOf 0 = some [] := by
  first | exact WindVerif.TmpPool.nothing_left_flush .. | (apply WindVerif.TmpPool.nothing_left_flush <;> assumption)

theorem nothing_left_exit (ops : List Op) :
    ∃ s', (run Pool.new ops).exit = .ok s' ∧ s'.fs = [] ∧ s'.listOf 0 = some [] := by
  first | exact WindVerif.TmpPool.nothing_left_exit .. | (apply WindVerif.TmpPool.nothing_left_exit <;> assumption)

/-- `remove` of a path the pool does not list raises `ValueError` (the file, if any, is gone anyway) -/
theorem remove_unlisted (s : Pool) (h : Inv s) (pid : Nat) (hp : pid < s.refs.length) (p : Path)
    (hnot : ∀ l, s.listOf 0 = some l → p ∉ l) : s.remove pid p = .error .valueError := by
  first | exact WindVerif.TmpPool.remove_unlisted .. | (apply WindVerif.TmpPool.remove_unlisted <;> assumption)

/-- inside the context every given path has an open handle; after leaving it (normally or by an exception: both call
`close()`) every handle that was opened is closed and the pool holds none -/
theorem filepool_open (files : List Nat) :
    (FPool.new files).open.handles = some (files.map (fun _ => true)) := by
  first | exact WindVerif.TmpPool.filepool_open .. | (apply WindVerif.TmpPool.filepool_open <;> assumption)

theorem filepool_closed (files : List Nat) :
    let s := (FPool.new files).open.close
    s.handles = none ∧ s.closedLog.length = files.length ∧ ∀ b ∈ s.closedLog, b = false := by
  first | exact WindVerif.TmpPool.filepool_closed .. | (apply WindVerif.TmpPool.filepool_closed <;> assumption)

/-- non-vacuity: a child creates a file after the parent's flush; leaving the context removes it -/
example : (run Pool.new [.create 0, .fork 0, .flush 0, .create 1]).fs = [1] ∧
    (run Pool.new [.create 0, .fork 0, .flush 0, .create 1]).listOf 0 = some [1] := by decide

end WindVerif.C20

/-!
### FilePool when a file cannot be opened, and pools that are entered again

Model `Model/FilePoolFail.lean`, proofs `Proofs/FilePoolFail.lean`.  `open()` is
`self.file_handles = {f: open(f, mode) for f in self._files}`: when the k-th `open` raises the assignment does not happen and
the k handles opened so far are referenced by nobody — the pool never closes them.  This is the existing behaviour; it is
stated here (`enter_fail_state`, `leaked_stay_open`), not repaired.
-/
namespace WindVerif.C20
open WindVerif.FilePoolFail

/-- `open()` succeeds iff no path of the pool is missing -/
theorem enter_ok_iff (s : FP) : (fpEnter s).2 = .ok () ↔ ∀ p ∈ s.files, p ∉ s.missing := by
  first | exact WindVerif.FilePoolFail.enter_ok_iff .. | (apply WindVerif.FilePoolFail.enter_ok_iff <;> assumption)

/-- a failing `open()` raises `FileNotFoundError`, leaves the mapping as it was, and leaks exactly the handles of the paths
before the first missing one (they stay open) -/
theorem enter_fail_state (s : FP) (h : (fpEnter s).2 ≠ .ok ()) :
    ∃ pre p post, s.files = pre ++ p :: post ∧ p ∈ s.missing ∧ (∀ q ∈ pre, q ∉ s.missing) ∧
      (fpEnter s).2 = .error .fileNotFound ∧
      (fpEnter s).1.mapping = s.mapping ∧
      (fpEnter s).1.leaked = s.leaked ++ pre.zip (List.range' s.next pre.length) ∧
      (fpEnter s).1.openH = s.openH ++ List.range' s.next pre.length ∧
      (fpEnter s).1.next = s.next + pre.length ∧
      (fpEnter s).1.files = s.files ∧ (fpEnter s).1.missing = s.missing := by
  first | exact WindVerif.FilePoolFail.enter_fail_state .. | (apply WindVerif.FilePoolFail.enter_fail_state <;> assumption)

/-- a successful `open()`: the mapping's keys are the pool's paths, every handle in it was opened by this call and is open;
for distinct paths the mapping is the paths paired with fresh handles, in order -/
theorem enter_ok_state (s : FP) (h : (fpEnter s).2 = .ok ()) :
    ∃ d, (fpEnter s).1.mapping = some d ∧
      (∀ q, q ∈ d.map (·.1) ↔ q ∈ s.files) ∧
      (∀ ph ∈ d, s.next ≤ ph.2 ∧ ph.2 < (fpEnter s).1.next ∧ ph.2 ∈ (fpEnter s).1.openH) ∧
      (s.files.Nodup → d = s.files.zip (List.range' s.next s.files.length)) := by
  first | exact WindVerif.FilePoolFail.enter_ok_state .. | (apply WindVerif.FilePoolFail.enter_ok_state <;> assumption)

/-- any number of `__enter__` / `__exit__` rounds on a closed pool whose (distinct) files all exist: all calls succeed;
afterwards the mapping is reset, no handle of the rounds is open and nothing was leaked (the state is the old one but for the
count of handles ever opened) -/
theorem rounds_closed (n : Nat) (s : FP) (hm : s.mapping = none) (hok : ∀ p ∈ s.files, p ∉ s.missing)
    (hn : s.files.Nodup) (hb : ∀ h : Nat, h ∈ s.openH → h < s.next) :
    rounds n s = ({ s with next := s.next + n * s.files.length }, List.replicate (2 * n) (.ok ())) := by
  first | exact WindVerif.FilePoolFail.rounds_closed .. | (apply WindVerif.FilePoolFail.rounds_closed <;> assumption)

/-- a fresh pool whose FIRST path is missing: `__enter__` raises and nothing is leaked; after the file has appeared the same
pool object serves any number of rounds, and then every handle is closed, the mapping reset, nothing leaked -/
theorem reenter_after_failure (p : Path) (rest missing : List Path) (n : Nat)
    (hp : p ∈ missing) (honly : ∀ q ∈ missing, q = p) (hn : (p :: rest).Nodup) :
    let s1 := fpEnter (FP.new (p :: rest) missing)
    s1.2 = .error .fileNotFound ∧ s1.1.mapping = none ∧ s1.1.openH = [] ∧ s1.1.leaked = [] ∧
    let s3 := rounds n (fpCreate s1.1 p)
    s3.2 = List.replicate (2 * n) (.ok ()) ∧ s3.1.mapping = none ∧ s3.1.openH = [] ∧ s3.1.leaked = [] ∧
      s3.1.next = n * (p :: rest).length := by
  first | exact WindVerif.FilePoolFail.reenter_after_failure .. | (apply WindVerif.FilePoolFail.reenter_after_failure <;> assumption)

/-- whatever the history (failed and successful enters, exits, files appearing and disappearing): `close()` on an open pool
succeeds, resets the mapping and closes every handle the mapping held; exactly the leaked handles stay open -/
theorem exit_closes_all (files missing : List Path) (ops : List Op) (m : Dict)
    (hm : (run (FP.new files missing) ops).mapping = some m) :
    let s' := fpExit (run (FP.new files missing) ops)
    s'.2 = .ok () ∧ s'.1.mapping = none ∧ (∀ ph ∈ m, ph.2 ∉ s'.1.openH) ∧
      (∀ h, h ∈ s'.1.openH ↔ h ∈ vals (run (FP.new files missing) ops).leaked) ∧
      s'.1.leaked = (run (FP.new files missing) ops).leaked := by
  first | exact WindVerif.FilePoolFail.exit_closes_all .. | (apply WindVerif.FilePoolFail.exit_closes_all <;> assumption)

/-- existing behaviour, stated: a leaked handle is never closed by the pool -/
theorem leaked_stay_open (files missing : List Path) (ops : List Op) :
    ∀ ph ∈ (run (FP.new files missing) ops).leaked, ph.2 ∈ (run (FP.new files missing) ops).openH := by
  first | exact WindVerif.FilePoolFail.leaked_stay_open .. | (apply WindVerif.FilePoolFail.leaked_stay_open <;> assumption)

/-- `close()` on a pool that is not open (never opened, or its `open()` failed) raises `AttributeError`, nothing changes -/
theorem exit_not_open (s : FP) (hm : s.mapping = none) : (fpExit s).2 = .error .attributeError ∧ (fpExit s).1 = s := by
  first | exact WindVerif.FilePoolFail.exit_not_open .. | (apply WindVerif.FilePoolFail.exit_not_open <;> assumption)

/-- non-vacuity.  The second of three files is missing: the first handle is leaked; the file appears, the pool is entered
again and left: handle 0 is still open, the three new ones are closed -/
example : fpEnter (FP.new [10, 11, 12] [11]) =
    ({ files := [10, 11, 12], missing := [11], mapping := none, openH := [0], leaked := [(10, 0)], next := 1 },
      .error .fileNotFound) := by rfl
example : run (FP.new [10, 11, 12] [11]) [.enter, .create 11, .enter] =
    { files := [10, 11, 12], missing := [], mapping := some [(10, 1), (11, 2), (12, 3)], openH := [0, 1, 2, 3],
      leaked := [(10, 0)], next := 4 } := by decide
example : run (FP.new [10, 11, 12] [11]) [.enter, .create 11, .enter, .exit] =
    { files := [10, 11, 12], missing := [], mapping := none, openH := [0], leaked := [(10, 0)], next := 4 } := by decide
/-- the hypotheses of `reenter_after_failure` / `rounds_closed` on a concrete pool, and its conclusion for two rounds -/
example : (10 : Path) ∈ [10] ∧ (∀ q ∈ ([10] : List Path), q = 10) ∧ ([10, 11] : List Path).Nodup := by decide
example : (rounds 2 (fpCreate (fpEnter (FP.new [10, 11] [10])).1 10)).1 =
    { files := [10, 11], missing := [], mapping := none, openH := [], leaked := [], next := 4 } := by decide
/-- a path given twice: the handle that is overwritten in the dict is leaked although `open()` succeeded -/
example : run (FP.new [10, 10] []) [.enter, .exit] =
    { files := [10, 10], missing := [], mapping := none, openH := [0], leaked := [(10, 0)], next := 2 } := by decide

end WindVerif.C20

/-!
### TmpPool: entering and leaving the context as steps of the history (repair D21)

Model `Model/TmpPoolCtx.lean`, proofs `Proofs/TmpPoolCtx.lean`.  The history starts at the constructed pool (`Pool.new`: one
empty list, the owner references it); `enter` / `exit` are operations (`COp`, `applyC mp`, `runC mp`; `mp` is the pool's
`multi_proc` flag).  With `multi_proc`, `__enter__` rebinds the owner's list to a NEW manager list holding a copy of the old
content (`enter`; before the repair the new list was empty: `enterFresh`), `__exit__` flushes and rebinds the owner's list to a
new empty list.  `EnterAlone ops`: no `enter` / `exit` after a `fork` (the context is entered and left by a lone owner; children
are forked inside it).  `InvC` is `Inv` with "list object 0" replaced by "the owner's list object".
-/
namespace WindVerif.C20
open WindVerif.TmpPool WindVerif.TmpPoolCtx

/-- entering the context changes neither what the pool lists nor the disk -/
theorem enter_listing (mp : Bool) (s : Pool) (l : List Path) (h : s.listOf 0 = some l) :
    (enter mp s).listOf 0 = some l ∧ (enter mp s).fs = s.fs := by
  first | exact WindVerif.TmpPoolCtx.enter_listing .. | (apply WindVerif.TmpPoolCtx.enter_listing <;> assumption)

theorem invC_new : InvC Pool.new := by
  first | exact WindVerif.TmpPoolCtx.invC_new .. | (apply WindVerif.TmpPoolCtx.invC_new <;> assumption)

/-- the old invariant (one list object, every reference 0) is a special case of `InvC` -/
theorem invC_of_inv {s : Pool} (h : Inv s) : InvC s := by
  first | exact WindVerif.TmpPoolCtx.invC_of_inv .. | (apply WindVerif.TmpPoolCtx.invC_of_inv <;> assumption)

/-- every operation keeps the invariant; `enter` / `exit` when the owner is the only process -/
theorem invC_step (mp : Bool) (s : Pool) (op : COp) (h : InvC s)
    (hc : op = .enter ∨ op = .exit → s.refs.length = 1) : InvC (applyC mp s op) := by
  first | exact WindVerif.TmpPoolCtx.invC_step .. | (apply WindVerif.TmpPoolCtx.invC_step <;> assumption)

theorem invC_run (mp : Bool) (ops : List COp) (ha : EnterAlone ops) : InvC (runC mp Pool.new ops) := by
  first | exact WindVerif.TmpPoolCtx.invC_run .. | (apply WindVerif.TmpPoolCtx.invC_run <;> assumption)

/-- after any history without outside interference in which the context is entered / left only by a lone owner, the pool
lists exactly the existing files -/
theorem listed_eq_existing_ctx (mp : Bool) (ops : List COp) (ha : EnterAlone ops) (hn : NoUnlinkC ops) :
    ∃ l, (runC mp Pool.new ops).listOf 0 = some l ∧ ∀ p, p ∈ l ↔ p ∈ (runC mp Pool.new ops).fs := by
  first | exact WindVerif.TmpPoolCtx.listed_eq_existing_ctx .. | (apply WindVerif.TmpPoolCtx.listed_eq_existing_ctx <;> assumption)

/-- `__exit__` in any consistent state succeeds: nothing is left on disk; the owner and every other process list nothing -/
theorem exitCtx_nothing_left (mp : Bool) {s : Pool} (h : InvC s) :
    ∃ s', exitCtx mp s = .ok s' ∧ s'.fs = [] ∧ s'.listOf 0 = some [] ∧
      s'.refs.length = s.refs.length ∧ ∀ pid, pid < s.refs.length → s'.listOf pid = some [] := by
  first | exact WindVerif.TmpPoolCtx.exitCtx_nothing_left .. | (apply WindVerif.TmpPoolCtx.exitCtx_nothing_left <;> assumption)

/-- after any history in which the context is entered / left only by a lone owner (files created before `__enter__`, children
forked inside the context creating files, files deleted from outside, an earlier `exit`, …): `__exit__` succeeds, no file of
the pool exists and nothing is listed -/
theorem nothing_left_exit_ctx (mp : Bool) (ops : List COp) (ha : EnterAlone ops) :
    ∃ s', exitCtx mp (runC mp Pool.new ops) = .ok s' ∧ s'.fs = [] ∧ s'.listOf 0 = some [] := by
  first | exact WindVerif.TmpPoolCtx.nothing_left_exit_ctx .. | (apply WindVerif.TmpPoolCtx.nothing_left_exit_ctx <;> assumption)

/-- D21: files created before the context is entered are removed when it is left (`n` files before, `m` after) -/
theorem created_before_enter_removed (mp : Bool) (n m : Nat) :
    ∃ s', exitCtx mp (runC mp Pool.new
        (List.replicate n (.create 0) ++ [.enter] ++ List.replicate m (.create 0))) = .ok s' ∧
      s'.fs = [] ∧ s'.listOf 0 = some [] := by
  first | exact WindVerif.TmpPoolCtx.created_before_enter_removed .. | (apply WindVerif.TmpPoolCtx.created_before_enter_removed <;> assumption)

/-- … and before it is left these files are exactly the listed ones -/
theorem created_before_enter_listed (mp : Bool) (n m : Nat) :
    ∃ l, (runC mp Pool.new (List.replicate n (.create 0) ++ [.enter] ++ List.replicate m (.create 0))).listOf 0 = some l ∧
      ∀ p, p ∈ l ↔ p ∈ (runC mp Pool.new
        (List.replicate n (.create 0) ++ [.enter] ++ List.replicate m (.create 0))).fs := by
  first | exact WindVerif.TmpPoolCtx.created_before_enter_listed .. | (apply WindVerif.TmpPoolCtx.created_before_enter_listed <;> assumption)

/-- the defect D21 (pre-repair `__enter__`), concrete: a `multi_proc` pool, a file is created, `enterFresh`, then the owner's
flush (what `__exit__` does): the file is not listed after `enterFresh` and still exists at the end -/
theorem enterFresh_forgets :
    let s1 := enterFresh true (runC true Pool.new [.create 0])
    s1.listOf 0 = some [] ∧ s1.fs = [0] ∧
      ∃ s', s1.flush 0 = .ok s' ∧ s'.fs = [0] ∧ s'.listOf 0 = some [] := by
  first | exact WindVerif.TmpPoolCtx.enterFresh_forgets .. | (apply WindVerif.TmpPoolCtx.enterFresh_forgets <;> assumption)

/-- the defect D21 in general: whatever was listed is forgotten by the pre-repair `__enter__` and stays on disk -/
theorem enterFresh_forgets_general (s : Pool) (l : List Path) (h : s.listOf 0 = some l) (hne : l ≠ []) :
    (enterFresh true s).listOf 0 = some [] ∧ (enterFresh true s).listOf 0 ≠ s.listOf 0 ∧
      (enterFresh true s).fs = s.fs := by
  first | exact WindVerif.TmpPoolCtx.enterFresh_forgets_general .. | (apply WindVerif.TmpPoolCtx.enterFresh_forgets_general <;> assumption)

/-- a documented limit: the context entered while a child exists.  The child keeps the old list object; the file it creates
is not seen by the owner's `__exit__` and stays on disk -/
theorem enter_with_child_splits :
    let s := runC true Pool.new [.fork 0, .enter, .create 1]
    s.listOf 0 = some [] ∧ s.listOf 1 = some [0] ∧ ∃ s', exitCtx true s = .ok s' ∧ s'.fs = [0] := by
  first | exact WindVerif.TmpPoolCtx.enter_with_child_splits .. | (apply WindVerif.TmpPoolCtx.enter_with_child_splits <;> assumption)

/-- histories without `enter` / `exit` are the histories of `run` (so the theorems above extend the old ones) -/
theorem runC_ofOp (mp : Bool) (s : Pool) (ops : List Op) : runC mp s (ops.map COp.ofOp) = run s ops := by
  first | exact WindVerif.TmpPoolCtx.runC_ofOp .. | (apply WindVerif.TmpPoolCtx.runC_ofOp <;> assumption)

/-- non-vacuity: an `EnterAlone` history without `unlink`: a file before the context, forks after the enter, files created by
the children, a flush by a child, a failing `remove`; its state, and the state after `__exit__` -/
example : EnterAlone [.create 0, .enter, .fork 0, .create 1, .fork 1, .create 2, .remove 1 0, .create 0, .remove 2 7] ∧
    NoUnlinkC [.create 0, .enter, .fork 0, .create 1, .fork 1, .create 2, .remove 1 0, .create 0, .remove 2 7] := by decide
example : (runC true Pool.new [.create 0, .enter, .fork 0, .create 1, .fork 1, .create 2, .remove 1 0, .create 0,
      .remove 2 7]).fs = [1, 2, 3] ∧
    (runC true Pool.new [.create 0, .enter, .fork 0, .create 1, .fork 1, .create 2, .remove 1 0, .create 0,
      .remove 2 7]).listOf 0 = some [1, 2, 3] ∧
    (runC true Pool.new [.create 0, .enter, .fork 0, .create 1, .fork 1, .create 2, .remove 1 0, .create 0,
      .remove 2 7]).refs = [1, 1, 1] := by decide
/-- a pool that is entered, left and entered again, children only in the last round -/
example : EnterAlone [.create 0, .enter, .create 0, .exit, .create 0, .enter, .fork 0, .create 1, .unlink 2] := by decide
example : (runC true Pool.new [.create 0, .enter, .create 0, .exit, .create 0, .enter, .fork 0, .create 1, .unlink 2]).fs = [3] ∧
    (runC true Pool.new [.create 0, .enter, .create 0, .exit, .create 0, .enter, .fork 0, .create 1, .unlink 2]).listOf 1 =
      some [2, 3] := by decide
/-- `enter` after a `fork` is not `EnterAlone` (the history of `enter_with_child_splits`) -/
example : ¬ EnterAlone [.fork 0, .enter, .create 1] := by decide
/-- the side condition of `invC_step` on a concrete state, and the hypothesis of `enter_listing` -/
example : (runC true Pool.new [.create 0, .create 0]).refs.length = 1 ∧
    (runC true Pool.new [.create 0, .create 0]).listOf 0 = some [0, 1] := by decide
/-- D21 for two files before and two after the enter: all four exist before `__exit__` -/
example : (runC true Pool.new (List.replicate 2 (.create 0) ++ [.enter] ++ List.replicate 2 (.create 0))).fs = [0, 1, 2, 3] := by
  decide

end WindVerif.C20

/-!
### TmpPool: removals that the operating system refuses or that are interrupted

Model `Model/TmpPoolRefuse.lean`, proofs `Proofs/TmpPoolRefuse.lean`.  The pool (`Pool`, unchanged) is carried beside a set of
*protected* paths (`PoolR.prot`): `os.remove` of an existing protected path raises (`PermissionError`; an interrupt is the same
transition).  `removeR` / `flushR` return the state after the call and how it ended (`Res`): a refused `remove` leaves before the
list is touched, a refused `flush` leaves the loop before the list is cleared.  Histories `ROp` (`applyR`, `runR`): the calls
by any process, files deleted by somebody else (`unlink`, not subject to the protection), `protect p` / `unprotect p` /
`unprotectAll`.  `InvR` is `Inv` of the pool.  `removeUnlistFirst` is a seeded variant (unlist first, then unlink).
-/
namespace WindVerif.C20
open WindVerif.TmpPool WindVerif.TmpPoolRefuse

/-- `remove(p)` refused: nothing changed; the file is protected and still exists -/
theorem refused_remove_keeps (s : PoolR) (pid : Nat) (p : Path) (h : (removeR s pid p).2 = .refused) :
    (removeR s pid p).1 = s ∧ p ∈ s.prot ∧ p ∈ s.pool.fs := by
  first | exact WindVerif.TmpPoolRefuse.refused_remove_keeps .. | (apply WindVerif.TmpPoolRefuse.refused_remove_keeps <;> assumption)

/-- … and in a consistent state it is still listed, so a later `flush()` / `__exit__` will remove it -/
theorem refused_remove_still_listed {s : PoolR} (h : InvR s) (pid : Nat) (p : Path)
    (hr : (removeR s pid p).2 = .refused) :
    p ∈ (removeR s pid p).1.pool.fs ∧ ∃ l, (removeR s pid p).1.pool.listOf 0 = some l ∧ p ∈ l := by
  first | exact WindVerif.TmpPoolRefuse.refused_remove_still_listed .. | (apply WindVerif.TmpPoolRefuse.refused_remove_still_listed <;> assumption)

/-- `remove(p)` is refused exactly when a process of the pool asks for a protected existing file -/
theorem removeR_refused_iff (s : PoolR) (pid : Nat) (p : Path) :
    (removeR s pid p).2 = .refused ↔ s.pool.listOf pid ≠ none ∧ p ∈ s.prot ∧ p ∈ s.pool.fs := by
  first | exact WindVerif.TmpPoolRefuse.removeR_refused_iff .. | (apply WindVerif.TmpPoolRefuse.removeR_refused_iff <;> assumption)

/-- when `os.remove` is not refused, `removeR` is `Pool.remove` of the old model (with what `applyOp` does on `ValueError`) -/
theorem removeR_not_refused (s : PoolR) (pid : Nat) (p : Path) (h : ¬ (p ∈ s.prot ∧ p ∈ s.pool.fs)) :
    removeR s pid p =
      match s.pool.remove pid p with
      | .ok s' => ({ s with pool := s' }, .ok)
      | .error .valueError => ({ s with pool := s.pool.unlink p }, .valueError)
      | .error .badProcess => (s, .badProcess) := by
  first | exact WindVerif.TmpPoolRefuse.removeR_not_refused .. | (apply WindVerif.TmpPoolRefuse.removeR_not_refused <;> assumption)

/-- when no listed file is protected and existing, `flushR` is `Pool.flush` of the old model -/
theorem flushR_not_refused (s : PoolR) (pid : Nat)
    (h : ∀ l, s.pool.listOf pid = some l → ∀ x ∈ l, ¬ (x ∈ s.prot ∧ x ∈ s.pool.fs)) :
    flushR s pid =
      match s.pool.flush pid with
      | .ok s' => ({ s with pool := s' }, .ok)
      | .error _ => (s, .badProcess) := by
  first | exact WindVerif.TmpPoolRefuse.flushR_not_refused .. | (apply WindVerif.TmpPoolRefuse.flushR_not_refused <;> assumption)

theorem invR_new : InvR PoolR.new := by
  first | exact WindVerif.TmpPoolRefuse.invR_new .. | (apply WindVerif.TmpPoolRefuse.invR_new <;> assumption)

/-- every operation — refused ones included — keeps the invariant -/
theorem invR_step (s : PoolR) (op : ROp) (h : InvR s) : InvR (applyR s op) := by
  first | exact WindVerif.TmpPoolRefuse.invR_step .. | (apply WindVerif.TmpPoolRefuse.invR_step <;> assumption)

theorem invR_run (ops : List ROp) : InvR (runR ops) := by
  first | exact WindVerif.TmpPoolRefuse.invR_run .. | (apply WindVerif.TmpPoolRefuse.invR_run <;> assumption)

/-- after any history every process sees one listing and every existing file of the pool is in it: nothing can be forgotten -/
theorem existing_listed_R (ops : List ROp) :
    ∃ l, (runR ops).pool.listOf 0 = some l ∧
      (∀ pid, pid < (runR ops).pool.refs.length → (runR ops).pool.listOf pid = some l) ∧
      ∀ p ∈ (runR ops).pool.fs, p ∈ l := by
  first | exact WindVerif.TmpPoolRefuse.existing_listed_R .. | (apply WindVerif.TmpPoolRefuse.existing_listed_R <;> assumption)

/-- a consistent state in which no existing file is protected: `flush()` by any process succeeds and leaves nothing -/
theorem flushR_nothing_left {s : PoolR} (h : InvR s) {pid : Nat} (hp : pid < s.pool.refs.length)
    (hprot : ∀ p ∈ s.pool.fs, p ∉ s.prot) :
    ∃ s', flushR s pid = (s', .ok) ∧ s'.pool.fs = [] ∧ s'.pool.listOf 0 = some [] ∧ s'.prot = s.prot := by
  first | exact WindVerif.TmpPoolRefuse.flushR_nothing_left .. | (apply WindVerif.TmpPoolRefuse.flushR_nothing_left <;> assumption)

/-- after any history (refused removals, refused flushes, files deleted by others, children): once the directory allows
removals again, leaving the context (`flush()` by the owner) succeeds, no file of the pool exists and nothing is listed -/
theorem nothing_left_after_unprotect (ops : List ROp) :
    ∃ s', flushR (unprotectAll (runR ops)) 0 = (s', .ok) ∧ s'.pool.fs = [] ∧ s'.pool.listOf 0 = some [] := by
  first | exact WindVerif.TmpPoolRefuse.nothing_left_after_unprotect .. | (apply WindVerif.TmpPoolRefuse.nothing_left_after_unprotect <;> assumption)

theorem nothing_left_after_unprotect_any (ops : List ROp) (pid : Nat) (hp : pid < (runR ops).pool.refs.length) :
    ∃ s', flushR (unprotectAll (runR ops)) pid = (s', .ok) ∧ s'.pool.fs = [] ∧ s'.pool.listOf 0 = some [] := by
  first | exact WindVerif.TmpPoolRefuse.nothing_left_after_unprotect_any .. | (apply WindVerif.TmpPoolRefuse.nothing_left_after_unprotect_any <;> assumption)

/-- a refused `flush()` leaves every process's listing exactly as it was (and the protected set); on disk only listed files
before the refused one are gone, none of them protected-and-existing; the refused file is protected and still exists -/
theorem flush_refused_keeps_list (s : PoolR) (pid : Nat) (h : (flushR s pid).2 = .refused) :
    (flushR s pid).1.pool.heap = s.pool.heap ∧ (flushR s pid).1.pool.refs = s.pool.refs ∧
    (flushR s pid).1.pool.fresh = s.pool.fresh ∧ (flushR s pid).1.prot = s.prot ∧
    (∀ pid', (flushR s pid).1.pool.listOf pid' = s.pool.listOf pid') ∧
    ∃ pre q post, s.pool.listOf pid = some (pre ++ q :: post) ∧ q ∈ s.prot ∧ q ∈ s.pool.fs ∧
      q ∈ (flushR s pid).1.pool.fs ∧ (∀ x ∈ pre, ¬ (x ∈ s.prot ∧ x ∈ s.pool.fs)) ∧
      (flushR s pid).1.pool.fs = s.pool.fs.filter (fun x => !pre.contains x) := by
  first | exact WindVerif.TmpPoolRefuse.flush_refused_keeps_list .. | (apply WindVerif.TmpPoolRefuse.flush_refused_keeps_list <;> assumption)

/-- `flush()` that ended normally did what `Pool.flush` does -/
theorem flushR_ok (s : PoolR) (pid : Nat) (h : (flushR s pid).2 = .ok) :
    ∃ s', s.pool.flush pid = .ok s' ∧ (flushR s pid).1 = { s with pool := s' } := by
  first | exact WindVerif.TmpPoolRefuse.flushR_ok .. | (apply WindVerif.TmpPoolRefuse.flushR_ok <;> assumption)

/-- the seeded variant in general: in a consistent state, `removeUnlistFirst` of a protected existing file is refused, the file
still exists and no process lists it any more -/
theorem unlist_first_refused_forgets {s : PoolR} (h : InvR s) {pid : Nat} (hp : pid < s.pool.refs.length) (p : Path)
    (hprot : p ∈ s.prot) (hfs : p ∈ s.pool.fs) :
    (removeUnlistFirst s pid p).2 = .refused ∧ p ∈ (removeUnlistFirst s pid p).1.pool.fs ∧
      ∀ pid' l', (removeUnlistFirst s pid p).1.pool.listOf pid' = some l' → p ∉ l' := by
  first | exact WindVerif.TmpPoolRefuse.unlist_first_refused_forgets .. | (apply WindVerif.TmpPoolRefuse.unlist_first_refused_forgets <;> assumption)

/-- the witness.  A file is created and its directory becomes read-only.  `removeUnlistFirst` is refused, the file exists and
is not listed; when removals are allowed again, leaving the context leaves the file behind.  With `removeR` (the code) the same
history ends with an empty disk -/
theorem unlist_first_forgets :
    let s1 := runR [.create 0, .protect 0]
    let s2 := removeUnlistFirst s1 0 0
    s2.2 = .refused ∧ s2.1.pool.fs = [0] ∧ s2.1.pool.listOf 0 = some [] ∧
    (flushR (unprotectAll s2.1) 0).2 = .ok ∧ (flushR (unprotectAll s2.1) 0).1.pool.fs = [0] ∧
    let t2 := removeR s1 0 0
    t2.2 = .refused ∧ t2.1.pool.fs = [0] ∧ t2.1.pool.listOf 0 = some [0] ∧
    (flushR (unprotectAll t2.1) 0).2 = .ok ∧ (flushR (unprotectAll t2.1) 0).1.pool.fs = [] := by
  first | exact WindVerif.TmpPoolRefuse.unlist_first_forgets .. | (apply WindVerif.TmpPoolRefuse.unlist_first_forgets <;> assumption)

/-- non-vacuity.  Three files, the second protected: `remove` of it is refused (hypothesis of `refused_remove_keeps`), of another
one is not (hypothesis of `removeR_not_refused`) -/
example : (removeR (runR [.create 0, .create 0, .create 0, .protect 1]) 0 1).2 = .refused ∧
    ¬ ((0 : Path) ∈ (runR [.create 0, .create 0, .create 0, .protect 1]).prot ∧
       (0 : Path) ∈ (runR [.create 0, .create 0, .create 0, .protect 1]).pool.fs) ∧
    (removeR (runR [.create 0, .create 0, .create 0, .protect 1]) 0 0).2 = .ok := by decide
/-- a refused `flush()` (hypothesis of `flush_refused_keeps_list`): file 0 is gone, 1 and 2 stay, all three stay listed -/
example : (flushR (runR [.create 0, .create 0, .create 0, .protect 1]) 0).2 = .refused ∧
    (flushR (runR [.create 0, .create 0, .create 0, .protect 1]) 0).1.pool.fs = [1, 2] ∧
    (flushR (runR [.create 0, .create 0, .create 0, .protect 1]) 0).1.pool.listOf 0 = some [0, 1, 2] := by decide
/-- a history with a child, a refused flush by the child, a refused remove, a file deleted by somebody else although it is
protected, a protected file that no longer exists; its state, and the state after `unprotectAll` + the owner's flush -/
example : (runR [.create 0, .fork 0, .create 1, .create 0, .protect 1, .protect 2, .flushR 1, .removeR 0 1, .unlink 2,
      .create 1, .removeR 1 2]).pool.fs = [1, 3] ∧
    (runR [.create 0, .fork 0, .create 1, .create 0, .protect 1, .protect 2, .flushR 1, .removeR 0 1, .unlink 2,
      .create 1, .removeR 1 2]).pool.listOf 0 = some [0, 1, 3] ∧
    (runR [.create 0, .fork 0, .create 1, .create 0, .protect 1, .protect 2, .flushR 1, .removeR 0 1, .unlink 2,
      .create 1, .removeR 1 2]).prot = [2, 1] ∧
    (flushR (unprotectAll (runR [.create 0, .fork 0, .create 1, .create 0, .protect 1, .protect 2, .flushR 1, .removeR 0 1,
      .unlink 2, .create 1, .removeR 1 2])) 0).1.pool.fs = [] := by decide
/-- the hypotheses of `flushR_nothing_left` / `flushR_not_refused`: a protected path that does not exist refuses nothing -/
example : (∀ p ∈ (runR [.create 0, .create 0, .protect 0, .unlink 0]).pool.fs,
      p ∉ (runR [.create 0, .create 0, .protect 0, .unlink 0]).prot) ∧
    1 < (runR [.create 0, .fork 0]).pool.refs.length ∧
    (flushR (runR [.create 0, .create 0, .protect 0, .unlink 0]) 0).2 = .ok := by decide
/-- the hypotheses of `unlist_first_refused_forgets` -/
example : (0 : Path) ∈ (runR [.create 0, .protect 0]).prot ∧ (0 : Path) ∈ (runR [.create 0, .protect 0]).pool.fs ∧
    0 < (runR [.create 0, .protect 0]).pool.refs.length := by decide

end WindVerif.C20
