import WindVerif.Proofs.TmpPool
import WindVerif.Proofs.FilePoolFail
/-!
# C20 — TmpPool and FilePool leave nothing behind

Property theorems only (proofs, the history semantics `Op`/`applyOp`/`run` and the invariant `Inv` are in
`Proofs/TmpPool.lean`).  Histories may be produced by any process of a multi-process pool (`create pid`, `remove pid p`,
`flush pid`, `fork pid`) and may contain files deleted behind the pool's back (`unlink`).  Leaving the context normally and
through an exception are the same transition (`__exit__` always flushes).
-/
namespace WindVerif.C20
open WindVerif.TmpPool

theorem inv_new : Inv Pool.new := by
  first | exact WindVerif.TmpPool.inv_new .. | (apply WindVerif.TmpPool.inv_new <;> assumption)

theorem inv_step (s : Pool) (op : Op) (h : Inv s) : Inv (applyOp s op) := by
  first | exact WindVerif.TmpPool.inv_step .. | (apply WindVerif.TmpPool.inv_step <;> assumption)

theorem inv_run (ops : List Op) : Inv (run Pool.new ops) := by
  first | exact WindVerif.TmpPool.inv_run .. | (apply WindVerif.TmpPool.inv_run <;> assumption)

/-- every path returned by `create()` (in any process) is a distinct, existing file -/
theorem create_fresh (s : Pool) (h : Inv s) (pid : Nat) (hp : pid < s.refs.length) :
    ∃ s' p, s.create pid = .ok (s', p) ∧ p ∉ s.fs ∧ p ∈ s'.fs ∧ (∀ l, s.listOf 0 = some l → p ∉ l) ∧
      (∀ l', s'.listOf 0 = some l' → p ∈ l') := by
  first | exact WindVerif.TmpPool.create_fresh .. | (apply WindVerif.TmpPool.create_fresh <;> assumption)

/-- after any history without outside interference the pool lists exactly the created-and-not-removed paths and exactly
those exist on disk -/
theorem listed_eq_existing (ops : List Op) (hn : NoUnlink ops) :
    ∃ l, (run Pool.new ops).listOf 0 = some l ∧ ∀ p, p ∈ l ↔ p ∈ (run Pool.new ops).fs := by
  first | exact WindVerif.TmpPool.listed_eq_existing .. | (apply WindVerif.TmpPool.listed_eq_existing <;> assumption)

/-- whatever happened before (children creating files, files deleted from outside, failed removals): after `flush()` by
any process, and after leaving the context by any route, none of the pool's files exists and nothing is listed -/
theorem nothing_left_flush (ops : List Op) (pid : Nat) (hp : pid < (run Pool.new ops).refs.length) :
    ∃ s', (run Pool.new ops).flush pid = .ok s' ∧ s'.fs = [] ∧ s'.listOf 0 = some [] := by
  first | exact WindVerif.TmpPool.nothing_left_flush .. | (apply WindVerif.TmpPool.nothing_left_flush <;> assumption)

theorem nothing_left_exit (ops : List Op) :
    ∃ s', (run Pool.new ops).exit = .ok s' ∧ s'.fs = [] ∧ s'.listOf 0 = some [] := by
  first | exact WindVerif.TmpPool.nothing_left_exit .. | (apply WindVerif.TmpPool.nothing_left_exit <;> assumption)

/-- `remove` of a path the pool does not list raises `ValueError` (the file, if any, is gone anyway) -/
theorem remove_unlisted (s : Pool) (h : Inv s) (pid : Nat) (hp : pid < s.refs.length) (p : Path)
    (hnot : ∀ l, s.listOf 0 = some l → p ∉ l) : s.remove pid p = .error .valueError := by
  first | exact WindVerif.TmpPool.remove_unlisted .. | (apply WindVerif.TmpPool.remove_unlisted <;> assumption)

/-- inside the context every given path has an open handle; after leaving it (normally or by an exception: both call
`close()`) every handle that was opened is closed and the pool holds none -/
theorem filepool_open (files : List Nat) :
    (FPool.new files).open.handles = some (files.map (fun _ => true)) := by
  first | exact WindVerif.TmpPool.filepool_open .. | (apply WindVerif.TmpPool.filepool_open <;> assumption)

theorem filepool_closed (files : List Nat) :
    let s := (FPool.new files).open.close
    s.handles = none ∧ s.closedLog.length = files.length ∧ ∀ b ∈ s.closedLog, b = false := by
  first | exact WindVerif.TmpPool.filepool_closed .. | (apply WindVerif.TmpPool.filepool_closed <;> assumption)

/-- non-vacuity: a child creates a file after the parent's flush; leaving the context removes it -/
example : (run Pool.new [.create 0, .fork 0, .flush 0, .create 1]).fs = [1] ∧
    (run Pool.new [.create 0, .fork 0, .flush 0, .create 1]).listOf 0 = some [1] := by decide

end WindVerif.C20

/-!
### FilePool when a file cannot be opened, and pools that are entered again

Model `Model/FilePoolFail.lean`, proofs `Proofs/FilePoolFail.lean`.  `open()` is
`self.file_handles = {f: open(f, mode) for f in self._files}`: when the k-th `open` raises the assignment does not happen and
the k handles opened so far are referenced by nobody — the pool never closes them.  This is the existing behaviour; it is
stated here (`enter_fail_state`, `leaked_stay_open`), not repaired.
-/
namespace WindVerif.C20
open WindVerif.FilePoolFail

/-- `open()` succeeds iff no path of the pool is missing -/
theorem enter_ok_iff (s : FP) : (fpEnter s).2 = .ok () ↔ ∀ p ∈ s.files, p ∉ s.missing := by
  first | exact WindVerif.FilePoolFail.enter_ok_iff .. | (apply WindVerif.FilePoolFail.enter_ok_iff <;> assumption)

/-- a failing `open()` raises `FileNotFoundError`, leaves the mapping as it was, and leaks exactly the handles of the paths
before the first missing one (they stay open) -/
theorem enter_fail_state (s : FP) (h : (fpEnter s).2 ≠ .ok ()) :
    ∃ pre p post, s.files = pre ++ p :: post ∧ p ∈ s.missing ∧ (∀ q ∈ pre, q ∉ s.missing) ∧
      (fpEnter s).2 = .error .fileNotFound ∧
      (fpEnter s).1.mapping = s.mapping ∧
      (fpEnter s).1.leaked = s.leaked ++ pre.zip (List.range' s.next pre.length) ∧
      (fpEnter s).1.openH = s.openH ++ List.range' s.next pre.length ∧
      (fpEnter s).1.next = s.next + pre.length ∧
      (fpEnter s).1.files = s.files ∧ (fpEnter s).1.missing = s.missing := by
  first | exact WindVerif.FilePoolFail.enter_fail_state .. | (apply WindVerif.FilePoolFail.enter_fail_state <;> assumption)

/-- a successful `open()`: the mapping's keys are the pool's paths, every handle in it was opened by this call and is open;
for distinct paths the mapping is the paths paired with fresh handles, in order -/
theorem enter_ok_state (s : FP) (h : (fpEnter s).2 = .ok ()) :
    ∃ d, (fpEnter s).1.mapping = some d ∧
      (∀ q, q ∈ d.map (·.1) ↔ q ∈ s.files) ∧
      (∀ ph ∈ d, s.next ≤ ph.2 ∧ ph.2 < (fpEnter s).1.next ∧ ph.2 ∈ (fpEnter s).1.openH) ∧
      (s.files.Nodup → d = s.files.zip (List.range' s.next s.files.length)) := by
  first | exact WindVerif.FilePoolFail.enter_ok_state .. | (apply WindVerif.FilePoolFail.enter_ok_state <;> assumption)

/-- any number of `__enter__` / `__exit__` rounds on a closed pool whose (distinct) files all exist: all calls succeed;
afterwards the mapping is reset, no handle of the rounds is open and nothing was leaked (the state is the old one but for the
count of handles ever opened) -/
theorem rounds_closed (n : Nat) (s : FP) (hm : s.mapping = none) (hok : ∀ p ∈ s.files, p ∉ s.missing)
    (hn : s.files.Nodup) (hb : ∀ h : Nat, h ∈ s.openH → h < s.next) :
    rounds n s = ({ s with next := s.next + n * s.files.length }, List.replicate (2 * n) (.ok ())) := by
  first | exact WindVerif.FilePoolFail.rounds_closed .. | (apply WindVerif.FilePoolFail.rounds_closed <;> assumption)

/-- a fresh pool whose FIRST path is missing: `__enter__` raises and nothing is leaked; after the file has appeared the same
pool object serves any number of rounds, and then every handle is closed, the mapping reset, nothing leaked -/
theorem reenter_after_failure (p : Path) (rest missing : List Path) (n : Nat)
    (hp : p ∈ missing) (honly : ∀ q ∈ missing, q = p) (hn : (p :: rest).Nodup) :
    let s1 := fpEnter (FP.new (p :: rest) missing)
    s1.2 = .error .fileNotFound ∧ s1.1.mapping = none ∧ s1.1.openH = [] ∧ s1.1.leaked = [] ∧
    let s3 := rounds n (fpCreate s1.1 p)
    s3.2 = List.replicate (2 * n) (.ok ()) ∧ s3.1.mapping = none ∧ s3.1.openH = [] ∧ s3.1.leaked = [] ∧
      s3.1.next = n * (p :: rest).length := by
  first | exact WindVerif.FilePoolFail.reenter_after_failure .. | (apply WindVerif.FilePoolFail.reenter_after_failure <;> assumption)

/-- whatever the history (failed and successful enters, exits, files appearing and disappearing): `close()` on an open pool
succeeds, resets the mapping and closes every handle the mapping held; exactly the leaked handles stay open -/
theorem exit_closes_all (files missing : List Path) (ops : List Op) (m : Dict)
    (hm : (run (FP.new files missing) ops).mapping = some m) :
    let s' := fpExit (run (FP.new files missing) ops)
    s'.2 = .ok () ∧ s'.1.mapping = none ∧ (∀ ph ∈ m, ph.2 ∉ s'.1.openH) ∧
      (∀ h, h ∈ s'.1.openH ↔ h ∈ vals (run (FP.new files missing) ops).leaked) ∧
      s'.1.leaked = (run (FP.new files missing) ops).leaked := by
  first | exact WindVerif.FilePoolFail.exit_closes_all .. | (apply WindVerif.FilePoolFail.exit_closes_all <;> assumption)

/-- existing behaviour, stated: a leaked handle is never closed by the pool -/
theorem leaked_stay_open (files missing : List Path) (ops : List Op) :
    ∀ ph ∈ (run (FP.new files missing) ops).leaked, ph.2 ∈ (run (FP.new files missing) ops).openH := by
  first | exact WindVerif.FilePoolFail.leaked_stay_open .. | (apply WindVerif.FilePoolFail.leaked_stay_open <;> assumption)

/-- `close()` on a pool that is not open (never opened, or its `open()` failed) raises `AttributeError`, nothing changes -/
theorem exit_not_open (s : FP) (hm : s.mapping = none) : (fpExit s).2 = .error .attributeError ∧ (fpExit s).1 = s := by
  first | exact WindVerif.FilePoolFail.exit_not_open .. | (apply WindVerif.FilePoolFail.exit_not_open <;> assumption)

/-- non-vacuity.  The second of three files is missing: the first handle is leaked; the file appears, the pool is entered
again and left: handle 0 is still open, the three new ones are closed -/
example : fpEnter (FP.new [10, 11, 12] [11]) =
    ({ files := [10, 11, 12], missing := [11], mapping := none, openH := [0], leaked := [(10, 0)], next := 1 },
      .error .fileNotFound) := by rfl
example : run (FP.new [10, 11, 12] [11]) [.enter, .create 11, .enter] =
    { files := [10, 11, 12], missing := [], mapping := some [(10, 1), (11, 2), (12, 3)], openH := [0, 1, 2, 3],
      leaked := [(10, 0)], next := 4 } := by decide
example : run (FP.new [10, 11, 12] [11]) [.enter, .create 11, .enter, .exit] =
    { files := [10, 11, 12], missing := [], mapping := none, openH := [0], leaked := [(10, 0)], next := 4 } := by decide
/-- the hypotheses of `reenter_after_failure` / `rounds_closed` on a concrete pool, and its conclusion for two rounds -/
example : (10 : Path) ∈ [10] ∧ (∀ q ∈ ([10] : List Path), q = 10) ∧ ([10, 11] : List Path).Nodup := by decide
example : (rounds 2 (fpCreate (fpEnter (FP.new [10, 11] [10])).1 10)).1 =
    { files := [10, 11], missing := [], mapping := none, openH := [], leaked := [], next := 4 } := by decide
/-- a path given twice: the handle that is overwritten in the dict is leaked although `open()` succeeded -/
example : run (FP.new [10, 10] []) [.enter, .exit] =
    { files := [10, 10], missing := [], mapping := none, openH := [0], leaked := [(10, 0)], next := 2 } := by decide

end WindVerif.C20
