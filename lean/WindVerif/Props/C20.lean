import WindVerif.Proofs.TmpPool
/-!
# C20 — TmpPool and FilePool leave nothing behind

Property theorems only (proofs, the history semantics `Op`/`applyOp`/`run` and the invariant `Inv` are in
`Proofs/TmpPool.lean`).  Histories may be produced by any process of a multi-process pool (`create pid`, `remove pid p`,
`flush pid`, `fork pid`) and may contain files deleted behind the pool's back (`unlink`).  Leaving the context normally and
through an exception are the same transition (`__exit__` always flushes).
-/
namespace WindVerif.C20
open WindVerif.TmpPool

theorem inv_new : Inv Pool.new := by
  first | exact WindVerif.TmpPool.inv_new .. | (apply WindVerif.TmpPool.inv_new <;> assumption)

theorem inv_step (s : Pool) (op : Op) (h : Inv s) : Inv (applyOp s op) := by
  first | exact WindVerif.TmpPool.inv_step .. | (apply WindVerif.TmpPool.inv_step <;> assumption)

theorem inv_run (ops : List Op) : Inv (run Pool.new ops) := by
  first | exact WindVerif.TmpPool.inv_run .. | (apply WindVerif.TmpPool.inv_run <;> assumption)

/-- every path returned by `create()` (in any process) is a distinct, existing file -/
theorem create_fresh (s : Pool) (h : Inv s) (pid : Nat) (hp : pid < s.refs.length) :
    ∃ s' p, s.create pid = .ok (s', p) ∧ p ∉ s.fs ∧ p ∈ s'.fs ∧ (∀ l, s.listOf 0 = some l → p ∉ l) ∧
      (∀ l', s'.listOf 0 = some l' → p ∈ l') := by
  first | exact WindVerif.TmpPool.create_fresh .. | (apply WindVerif.TmpPool.create_fresh <;> assumption)

/-- after any history without outside interference the pool lists exactly the created-and-not-removed paths and exactly
those exist on disk -/
theorem listed_eq_existing (ops : List Op) (hn : NoUnlink ops) :
    ∃ l, (run Pool.new ops).listOf 0 = some l ∧ ∀ p, p ∈ l ↔ p ∈ (run Pool.new ops).fs := by
  first | exact WindVerif.TmpPool.listed_eq_existing .. | (apply WindVerif.TmpPool.listed_eq_existing <;> assumption)

/-- whatever happened before (children creating files, files deleted from outside, failed removals): after `flush()` by
any process, and after leaving the context by any route, none of the pool's files exists and nothing is listed -/
theorem nothing_left_flush (ops : List Op) (pid : Nat) (hp : pid < (run Pool.new ops).refs.length) :
    ∃ s', (run Pool.new ops).flush pid = .ok s' ∧ s'.fs = [] ∧ s'.listOf 0 = some [] := by
  first | exact WindVerif.TmpPool.nothing_left_flush .. | (apply WindVerif.TmpPool.nothing_left_flush <;> assumption)

theorem nothing_left_exit (ops : List Op) :
    ∃ s', (run Pool.new ops).exit = .ok s' ∧ s'.fs = [] ∧ s'.listOf 0 = some [] := by
  first | exact WindVerif.TmpPool.nothing_left_exit .. | (apply WindVerif.TmpPool.nothing_left_exit <;> assumption)

/-- `remove` of a path the pool does not list raises `ValueError` (the file, if any, is gone anyway) -/
theorem remove_unlisted (s : Pool) (h : Inv s) (pid : Nat) (hp : pid < s.refs.length) (p : Path)
    (hnot : ∀ l, s.listOf 0 = some l → p ∉ l) : s.remove pid p = .error .valueError := by
  first | exact WindVerif.TmpPool.remove_unlisted .. | (apply WindVerif.TmpPool.remove_unlisted <;> assumption)

/-- inside the context every given path has an open handle; after leaving it (normally or by an exception: both call
`close()`) every handle that was opened is closed and the pool holds none -/
theorem filepool_open (files : List Nat) :
    (FPool.new files).open.handles = some (files.map (fun _ => true)) := by
  first | exact WindVerif.TmpPool.filepool_open .. | (apply WindVerif.TmpPool.filepool_open <;> assumption)

theorem filepool_closed (files : List Nat) :
    let s := (FPool.new files).open.close
    s.handles = none ∧ s.closedLog.length = files.length ∧ ∀ b ∈ s.closedLog, b = false := by
  first | exact WindVerif.TmpPool.filepool_closed .. | (apply WindVerif.TmpPool.filepool_closed <;> assumption)

/-- non-vacuity: a child creates a file after the parent's flush; leaving the context removes it -/
example : (run Pool.new [.create 0, .fork 0, .flush 0, .create 1]).fs = [1] ∧
    (run Pool.new [.create 0, .fork 0, .flush 0, .create 1]).listOf 0 = some [1] := by decide

end WindVerif.C20
