import WindVerif.Proofs.SpanSet
import WindVerif.Proofs.SpanSetDisjoint
/-!
# C10 — SpanSet operators follow their membership-based definitions for every relation

Property theorems only (proofs in `Proofs/SpanSet.lean`).  All statements hold for arbitrary relations of the two
operands (all 4×4 combinations): `mem A x` uses `A`'s relation, `mem B x` uses `B`'s.
-/
namespace WindVerif.C10
open WindVerif.SpanSet

/-- `x in S` means: some stored span is related to `x` by `S`'s relation -/
theorem mem_iff (S : SpanSet) (x : Span) : mem S x = true ↔ ∃ y ∈ S.spans, S.rel.holds x y = true := by
  first | exact WindVerif.SpanSet.mem_iff .. | (apply WindVerif.SpanSet.mem_iff <;> assumption)

/-- the four relations are the stated comparisons -/
theorem holds_iff (r : Rel) (x y : Span) : r.holds x y = true ↔
    (match r with
     | .exact => x.1 = y.1 ∧ x.2 = y.2
     | .partOf => y.1 ≤ x.1 ∧ x.2 ≤ y.2
     | .includes => x.1 ≤ y.1 ∧ y.2 ≤ x.2
     | .overlaps => x.2 ≥ y.1 ∧ y.2 ≥ x.1) := by
  first | exact WindVerif.SpanSet.holds_iff .. | (apply WindVerif.SpanSet.holds_iff <;> assumption)

theorem build_nil (r : Rel) : build r [] = [] := by
  first | exact WindVerif.SpanSet.build_nil .. | (apply WindVerif.SpanSet.build_nil <;> assumption)

theorem build_snoc (r : Rel) (xs : List Span) (x : Span) :
    build r (xs ++ [x]) = if mem ⟨r, build r xs⟩ x then build r xs else build r xs ++ [x] := by
  first | exact WindVerif.SpanSet.build_snoc .. | (apply WindVerif.SpanSet.build_snoc <;> assumption)

theorem build_sublist (r : Rel) (xs : List Span) : (build r xs).Sublist xs := by
  first | exact WindVerif.SpanSet.build_sublist .. | (apply WindVerif.SpanSet.build_sublist <;> assumption)

/-- no kept span was already in the set formed by the spans kept before it -/
theorem build_pairwise (r : Rel) (xs : List Span) :
    (build r xs).Pairwise (fun earlier later => r.holds later earlier = false) := by
  first | exact WindVerif.SpanSet.build_pairwise .. | (apply WindVerif.SpanSet.build_pairwise <;> assumption)

/-- every input span is either kept or was in the set built before it; so if the relation relates a span to itself,
every input span is in the result -/
theorem build_covers (r : Rel) (xs : List Span) (x : Span) (hx : x ∈ xs) (hrefl : r.holds x x = true) :
    mem (mk r xs) x = true := by
  first | exact WindVerif.SpanSet.build_covers .. | (apply WindVerif.SpanSet.build_covers <;> assumption)

theorem build_exact_nodup (xs : List Span) : (build .exact xs).Nodup := by
  first | exact WindVerif.SpanSet.build_exact_nodup .. | (apply WindVerif.SpanSet.build_exact_nodup <;> assumption)

theorem build_exact_mem (xs : List Span) (x : Span) : x ∈ build .exact xs ↔ x ∈ xs := by
  first | exact WindVerif.SpanSet.build_exact_mem .. | (apply WindVerif.SpanSet.build_exact_mem <;> assumption)

theorem combine_spec (φ : Bool → Bool → Bool) (A B : SpanSet) (x : Span) :
    x ∈ (combine φ A B).spans ↔ (x ∈ A.spans ∨ x ∈ B.spans) ∧ φ (mem A x) (mem B x) = true := by
  first | exact WindVerif.SpanSet.combine_spec .. | (apply WindVerif.SpanSet.combine_spec <;> assumption)

theorem combine_nodup (φ : Bool → Bool → Bool) (A B : SpanSet) : (combine φ A B).spans.Nodup := by
  first | exact WindVerif.SpanSet.combine_nodup .. | (apply WindVerif.SpanSet.combine_nodup <;> assumption)

theorem combine_rel (φ : Bool → Bool → Bool) (A B : SpanSet) : (combine φ A B).rel = .exact := by
  first | exact WindVerif.SpanSet.combine_rel .. | (apply WindVerif.SpanSet.combine_rel <;> assumption)

/-- the result lists the qualifying spans in the order of their first occurrence in `chain(A, B)` -/
theorem combine_sublist (φ : Bool → Bool → Bool) (A B : SpanSet) :
    (combine φ A B).spans.Sublist (A.spans ++ B.spans) := by
  first | exact WindVerif.SpanSet.combine_sublist .. | (apply WindVerif.SpanSet.combine_sublist <;> assumption)

theorem and_spec (A B : SpanSet) (x : Span) :
    x ∈ (opAnd A B).spans ↔ (x ∈ A.spans ∨ x ∈ B.spans) ∧ (mem A x = true ∧ mem B x = true) := by
  first | exact WindVerif.SpanSet.and_spec .. | (apply WindVerif.SpanSet.and_spec <;> assumption)

theorem or_spec (A B : SpanSet) (x : Span) :
    x ∈ (opOr A B).spans ↔ (x ∈ A.spans ∨ x ∈ B.spans) ∧ (mem A x = true ∨ mem B x = true) := by
  first | exact WindVerif.SpanSet.or_spec .. | (apply WindVerif.SpanSet.or_spec <;> assumption)

theorem sub_spec (A B : SpanSet) (x : Span) :
    x ∈ (opSub A B).spans ↔ (x ∈ A.spans ∨ x ∈ B.spans) ∧ (mem A x = true ∧ mem B x = false) := by
  first | exact WindVerif.SpanSet.sub_spec .. | (apply WindVerif.SpanSet.sub_spec <;> assumption)

theorem xor_spec (A B : SpanSet) (x : Span) :
    x ∈ (opXor A B).spans ↔ (x ∈ A.spans ∨ x ∈ B.spans) ∧ (mem A x ≠ mem B x) := by
  first | exact WindVerif.SpanSet.xor_spec .. | (apply WindVerif.SpanSet.xor_spec <;> assumption)

theorem le_iff (A B : SpanSet) : le A B = true ↔ ∀ x ∈ A.spans, mem B x = true := by
  first | exact WindVerif.SpanSet.le_iff .. | (apply WindVerif.SpanSet.le_iff <;> assumption)

theorem eq_iff (A B : SpanSet) :
    eq A B = true ↔ (∀ x ∈ A.spans, mem B x = true) ∧ (∀ x ∈ B.spans, mem A x = true) := by
  first | exact WindVerif.SpanSet.eq_iff .. | (apply WindVerif.SpanSet.eq_iff <;> assumption)

theorem ne_iff (A B : SpanSet) : ne A B = true ↔ ¬ (eq A B = true) := by
  first | exact WindVerif.SpanSet.ne_iff .. | (apply WindVerif.SpanSet.ne_iff <;> assumption)

theorem lt_iff (A B : SpanSet) : lt A B = true ↔ (le A B = true ∧ ¬ (eq A B = true)) := by
  first | exact WindVerif.SpanSet.lt_iff .. | (apply WindVerif.SpanSet.lt_iff <;> assumption)

theorem ge_iff (A B : SpanSet) : ge A B = true ↔ ∀ x ∈ B.spans, mem A x = true := by
  first | exact WindVerif.SpanSet.ge_iff .. | (apply WindVerif.SpanSet.ge_iff <;> assumption)

theorem gt_iff (A B : SpanSet) : gt A B = true ↔ (le B A = true ∧ ¬ (eq B A = true)) := by
  first | exact WindVerif.SpanSet.gt_iff .. | (apply WindVerif.SpanSet.gt_iff <;> assumption)

theorem isdisjoint_iff (A : SpanSet) (s : List Span) : isdisjoint A s = true ↔ ∀ x ∈ s, mem A x = false := by
  first | exact WindVerif.SpanSet.isdisjoint_iff .. | (apply WindVerif.SpanSet.isdisjoint_iff <;> assumption)

theorem issubset_iff (A B : SpanSet) : issubset A B = true ↔ ∀ x ∈ A.spans, mem B x = true := by
  first | exact WindVerif.SpanSet.issubset_iff .. | (apply WindVerif.SpanSet.issubset_iff <;> assumption)

theorem issuperset_iff (A B : SpanSet) : issuperset A B = true ↔ ∀ x ∈ B.spans, mem A x = true := by
  first | exact WindVerif.SpanSet.issuperset_iff .. | (apply WindVerif.SpanSet.issuperset_iff <;> assumption)

/-- non-vacuity: asymmetric relations make `A <= B` and `B >= A`-style reasoning differ from naive sets -/
example : le (mk .partOf [(2, 3)]) (mk .partOf [(0, 10)]) = true ∧ le (mk .partOf [(0, 10)]) (mk .partOf [(2, 3)]) = false ∧
    (opAnd (mk .overlaps [(1, 3), (2, 5), (6, 7)]) (mk .partOf [(0, 10)])).spans = [(1, 3), (6, 7), (0, 10)] := by decide

/-! ### `isdisjoint` and the order of its operands (proofs in `Proofs/SpanSetDisjoint.lean`)

`A.isdisjoint(B)` probes `A` with the elements of `B`.  For the symmetric relations the operands may change places, for
PartOf / Includes they may not (so "iterate over the smaller operand", as the builtin set does, is not available). -/

theorem isdisjoint_swap_exact (A B : SpanSet) (hA : A.rel = .exact) (hB : B.rel = .exact) :
    isdisjoint A B.spans = isdisjoint B A.spans := by
  first | exact WindVerif.SpanSet.isdisjoint_swap_exact .. | (apply WindVerif.SpanSet.isdisjoint_swap_exact <;> assumption)

theorem isdisjoint_swap_overlaps (A B : SpanSet) (hA : A.rel = .overlaps) (hB : B.rel = .overlaps) :
    isdisjoint A B.spans = isdisjoint B A.spans := by
  first | exact WindVerif.SpanSet.isdisjoint_swap_overlaps .. | (apply WindVerif.SpanSet.isdisjoint_swap_overlaps <;> assumption)

/-- PartOf (`x in S`: `x` lies inside a stored span): `(2,3)` lies inside `(0,10)`, but `(0,10)` lies inside neither
`(2,3)` nor `(20,30)` -/
theorem isdisjoint_swap_partof_wrong :
    isdisjoint (mk .partOf [(0, 10)]) (mk .partOf [(2, 3), (20, 30)]).spans = false ∧
    isdisjoint (mk .partOf [(2, 3), (20, 30)]) (mk .partOf [(0, 10)]).spans = true := by
  first | exact WindVerif.SpanSet.isdisjoint_swap_partof_wrong .. | (apply WindVerif.SpanSet.isdisjoint_swap_partof_wrong <;> assumption)

/-- Includes (`x in S`: `x` contains a stored span): the same two sets, the other way round -/
theorem isdisjoint_swap_includes_wrong :
    isdisjoint (mk .includes [(0, 10)]) (mk .includes [(2, 3), (20, 30)]).spans = true ∧
    isdisjoint (mk .includes [(2, 3), (20, 30)]) (mk .includes [(0, 10)]).spans = false := by
  first | exact WindVerif.SpanSet.isdisjoint_swap_includes_wrong .. | (apply WindVerif.SpanSet.isdisjoint_swap_includes_wrong <;> assumption)

/-- non-vacuity: two Exact sets and two Overlaps sets, not disjoint / disjoint, the same answer both ways round; the
witness sets keep all their spans -/
example : (mk .exact [(1, 2), (3, 4)]).rel = .exact ∧
    isdisjoint (mk .exact [(1, 2), (3, 4)]) (mk .exact [(3, 4)]).spans = false ∧
    isdisjoint (mk .exact [(3, 4)]) (mk .exact [(1, 2), (3, 4)]).spans = false ∧
    isdisjoint (mk .overlaps [(1, 2), (5, 6)]) (mk .overlaps [(3, 4)]).spans = true ∧
    isdisjoint (mk .overlaps [(3, 4)]) (mk .overlaps [(1, 2), (5, 6)]).spans = true ∧
    isdisjoint (mk .overlaps [(1, 3), (5, 6)]) (mk .overlaps [(3, 4)]).spans = false ∧
    isdisjoint (mk .overlaps [(3, 4)]) (mk .overlaps [(1, 3), (5, 6)]).spans = false ∧
    (mk .partOf [(2, 3), (20, 30)]).spans = [(2, 3), (20, 30)] ∧ (mk .includes [(2, 3), (20, 30)]).spans = [(2, 3), (20, 30)] := by
  decide

end WindVerif.C10
