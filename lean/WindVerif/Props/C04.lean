import WindVerif.Proofs.PoolLife
import WindVerif.Proofs.PoolJoinTimeout
/-!
# C04 — Worker lifecycle: begin first once, end last once, quota kept, none left running

Property theorems only (proofs in `Proofs/PoolLife*.lean`); they hold for every configuration incl. the injected faults
(`begin()` raising, the functor raising at any chunk), every call history and every interleaving (`Reach cfg s`).
That `__exit__` itself terminates is part of C02 (`imap_no_deadlock`; D19 repaired: for every work-queue bound).

`until_all_ready()` in the MIDDLE of a call (the caller's program with `Cfg.readyMid`: in every call, right after the call's
first result, with the replace thread alive) is part of the model: `ready_mid_after_begin` (every worker the loop has
waited for has completed `begin()`), `ready_mid_slot` / `ready_mid_next` (which workers these are: the occupant of slot `i`
of the live list at the moment the loop arrives there, one wait per slot, in order), `ready_mid_listed` (the caller's view:
listed before the call and after it ⇒ `begin()` completed).  The theorems of C01–C03 hold for this
caller program too (same statements).

`end()` (the `finally:` of `BaseFunctorWorker.run`) is a step of its own in EVERY configuration and on every way out of the
worker's loop (stop order taken, wid posted, quota of a plain pool used up, `begin()` / the functor raised): pc `.ending`,
between the operation that ended the loop and the exit; a join on the worker blocks meanwhile (`join_timeout=None`).
A finite `join_timeout` (`Cfg.joinTimeout`: timed joins in the replace thread and in `__exit__`) is part of the model too:
every theorem here holds for these configurations (same statements) — EXCEPT `exit_joins_all`, which is false then and
carries the hypothesis `cfg.joinTimeout = false` (see `C02.exit_returns_with_running_worker`, `C02.imap_maximal_all_exited`).
`lifecycle_counts`: begin / end at most once, exactly once after the exit; `ending_without_timeout` (the former
`ending_only_joinTimeout` — "a worker is at `.ending` only with a join timeout" — is false now and has been replaced by this
witness).
-/
namespace WindVerif.C04
open WindVerif.Pool

/-- in every reachable state, under every interleaving and with `begin()` or the functor raising anywhere, every worker's
event log is `begin · item* · end` cut off where the worker is (begin exactly once and first, end exactly once and last,
present iff the worker has exited), and no worker processes more chunks than its quota -/
theorem lifecycle_trace (cfg : Cfg) (s : St) (h : Reach cfg s) (w : Worker) (hw : w ∈ s.workers) : LifeOk cfg w := by
  first | exact WindVerif.Pool.lifecycle_trace .. | (apply WindVerif.Pool.lifecycle_trace <;> assumption)

theorem quota_respected (cfg : Cfg) (s : St) (h : Reach cfg s) (w : Worker) (hw : w ∈ s.workers) (q : Nat)
    (hq : cfg.quota = some q) : itemCount w ≤ q := by
  first | exact WindVerif.Pool.quota_respected .. | (apply WindVerif.Pool.quota_respected <;> assumption)

/-- `until_all_ready()` has returned ⇒ `begin()` of every listed worker has been entered and (without a begin fault) has
completed: its `begin_finished` is set -/
theorem ready_after_begin (cfg : Cfg) (s : St) (h : Reach cfg s) (hr : cfg.waitReady = true)
    (hpast : match s.cpc with | .enterStart _ | .readyWait _ => False | _ => True)
    (w : Worker) (hw : w ∈ s.workers) (hinit : w.wid < cfg.nWorkers) : WEv.begin ∈ w.log ∧ (w.pc ≠ .exited → w.bf = true) := by
  first | exact WindVerif.Pool.ready_after_begin .. | (apply WindVerif.Pool.ready_after_begin <;> assumption)

/-- `until_all_ready()` called in the MIDDLE of a call (`Cfg.readyMid`: in every call, right after the call's first
result, while the replace thread may be exchanging workers): let the consumer be at the wait for worker `wid` — the occupant
of slot `i` of `procs` at the moment the loop `for p in self.procs` arrived at that slot (`ready_mid_slot`) — in a reachable
state `s`.  In every later state `s'` in which the consumer is no longer at that wait, in particular as soon as
`until_all_ready()` has returned, worker `wid` has completed `begin()`: `begin_finished` is set and `begin` is logged.  For
every configuration (faults included), every call history and every interleaving.  Exactly the workers the consumer has
been at a `midReady` pc for are covered: a successor the replace thread lists in a slot the loop has already passed, or
has already fetched the old occupant of, is NOT waited for (second example below). -/
theorem ready_mid_after_begin (cfg : Cfg) (s : St) (h : Reach cfg s) (i wid : Nat) (hpc : s.cpc = .midReady i wid)
    (sched : List Tid) (s' : St) (hrun : run s sched = some s') (hleft : s'.cpc ≠ .midReady i wid) :
    ∃ w ∈ s'.workers, w.wid = wid ∧ w.bf = true ∧ WEv.begin ∈ w.log := by
  first | exact WindVerif.Pool.ready_mid_after_begin .. | (apply WindVerif.Pool.ready_mid_after_begin <;> assumption)

/-- which worker is waited for in slot `i`: the consumer arrives at `midReady i wid` only by a step of its own, and `wid` is
what `procs[i]` holds at that very moment (the loop iterates over the LIVE list, no snapshot): slot 0 when the first result
of a call has just been emitted (`readyMid`), slot `j + 1` when the wait for slot `j` has returned -/
theorem ready_mid_slot (cfg : Cfg) (s s' : St) (t : Tid) (i wid : Nat) (hr : Reach cfg s) (h : step s t = some s')
    (hm : s'.cpc = .midReady i wid) (hnew : s.cpc ≠ .midReady i wid) :
    t = .c ∧ s.procs[i]? = some wid ∧ s'.procs = s.procs ∧
    ((i = 0 ∧ (s.cpc = .lockRel ∨ s.cpc = .getBlock) ∧ cfg.readyMid = true) ∨ ∃ j w0, i = j + 1 ∧ s.cpc = .midReady j w0) := by
  first | exact WindVerif.Pool.ready_mid_slot .. | (apply WindVerif.Pool.ready_mid_slot <;> assumption)

/-- the loop: the step at the wait for slot `i` needs `begin_finished` of the fetched worker, goes on to the occupant of
slot `i + 1` of the list as it is now, and leaves `until_all_ready()` exactly when there is no such slot: one wait per slot,
in order -/
theorem ready_mid_next (s s' : St) (i wid : Nat) (hpc : s.cpc = .midReady i wid) (h : step s .c = some s') :
    (∃ w ∈ s.workers, w.wid = wid ∧ w.bf = true) ∧
    (match s.procs[i + 1]? with
     | some v => s'.cpc = .midReady (i + 1) v
     | none => ∀ j v, s'.cpc ≠ .midReady j v) := by
  first | exact WindVerif.Pool.ready_mid_next .. | (apply WindVerif.Pool.ready_mid_next <;> assumption)

/-- the caller's view (the oracle the harness applies to the real code): `s₀` is the moment `until_all_ready()` is entered
in the middle of a call (the loop has just fetched slot 0: `procs[0] = w₀`); in any later state `s₁` in which the consumer is
not inside an `until_all_ready()` — e.g. right after the call has returned — every worker that was listed in `s₀` and is
still listed in `s₁` has completed `begin()`.  (A worker listed before and after sat in its slot all the time — a slot is
only ever overwritten with a fresh wid —, so it was the occupant when the loop arrived there.) -/
theorem ready_mid_listed (cfg : Cfg) (s₀ : St) (h : Reach cfg s₀) (w₀ : Nat) (hpc : s₀.cpc = .midReady 0 w₀)
    (hfetch : s₀.procs[0]? = some w₀) (sched : List Tid) (s₁ : St) (hrun : run s₀ sched = some s₁)
    (hleft : ∀ j v, s₁.cpc ≠ .midReady j v) (v : Nat) (hb : v ∈ s₀.procs) (ha : v ∈ s₁.procs) :
    ∃ w ∈ s₁.workers, w.wid = v ∧ w.bf = true ∧ WEv.begin ∈ w.log := by
  first | exact WindVerif.Pool.ready_mid_listed .. | (apply WindVerif.Pool.ready_mid_listed <;> assumption)

/-- when the pool context has been left (no join timeout: `join_timeout=None`), no worker is running — replaced workers
included.  HYPOTHESIS `cfg.joinTimeout = false` ADDED: with a finite join timeout the statement is false
(`C02.exit_returns_with_running_worker`) -/
theorem exit_joins_all (cfg : Cfg) (hjt : cfg.joinTimeout = false) (s : St) (h : Reach cfg s) (hd : s.cpc = .done) :
    AllExited s := by
  first | exact WindVerif.Pool.exit_joins_all .. | (apply WindVerif.Pool.exit_joins_all <;> assumption)

/-- non-vacuity: the default (`join_timeout=None`) -/
example : (⟨1, none, none, false, none, false, [⟨1, true⟩], [], [(0, 0)], false, false⟩ : Cfg).joinTimeout = false := by decide

/-- every configuration (faults, timed joins): `begin` at most once and `end_` at most once in every worker's log, both
exactly once when the worker has exited; at `.ending` `begin` once and `end_` not yet -/
theorem lifecycle_counts (cfg : Cfg) (s : St) (h : Reach cfg s) (w : Worker) (hw : w ∈ s.workers) :
    w.log.count .begin ≤ 1 ∧ w.log.count .end_ ≤ 1 ∧
    (w.pc = .exited → w.log.count .begin = 1 ∧ w.log.count .end_ = 1) ∧
    (w.pc = .ending → w.log.count .begin = 1 ∧ w.log.count .end_ = 0) := by
  first | exact WindVerif.Pool.lifecycle_counts .. | (apply WindVerif.Pool.lifecycle_counts <;> assumption)

/-- `end()` is a step of its own without a join timeout too (REPLACES `ending_only_joinTimeout`, which claimed the contrary
and is false in the model with the unconditional `.ending`): a plain pool with one worker and no call — the worker takes the
stop order of `__exit__` and stands at `.ending` (`begin` logged, `end_` not yet) while `__exit__`'s join blocks -/
theorem ending_without_timeout :
    ∃ cfg sched s, cfg.joinTimeout = false ∧ run (init cfg) sched = some s ∧ s.cpc = .exitJoin 0 ∧ step s .c = none ∧
      ∃ w ∈ s.workers, w.pc = .ending ∧ w.log = [.begin] := by
  first | exact WindVerif.Pool.ending_without_timeout .. | (apply WindVerif.Pool.ending_without_timeout <;> assumption)

/-- non-vacuity of the `.ending` clause of `lifecycle_counts`: such a state is reachable -/
example : (run (init jtCfg) jtSched).map (fun s => s.workers.map (fun w => (w.wid, w.pc))) =
    some [(0, .ending), (1, .bfClear)] := by decide

/-- non-vacuity: a worker whose functor raises at its first chunk still logs begin · item · end -/
example : ((run (init ⟨1, none, none, false, none, false, [⟨1, true⟩], [], [(0, 0)], false, false⟩)
    [.c, .w 0, .w 0, .c, .c, .c, .c, .f, .w 0, .w 0]).map (fun s => s.workers.map (·.log))) =
    some [[.begin, .item 0, .end_]] := by decide

/-- a factory pool with 2 workers, quota 1, one unordered call of 2 chunks, `until_all_ready()` in the middle of the call -/
def midCfg : Cfg := ⟨2, none, none, true, some 1, false, [⟨2, false⟩], [], [], true, false⟩

/-- enter, start of the call, both workers through `begin()`, the feeder sends chunk 0, worker 0 delivers it, the consumer
drains it: the first result of the call is emitted and the consumer stands at the wait for worker 0 (slot 0) -/
def midSched : List Tid :=
  [.c, .c, .c, .c, .c, .c, .c, .c, .w 0, .w 0, .w 1, .w 1, .f, .f, .f, .f, .f, .w 0, .w 0, .w 0, .w 0,
   .c, .c, .c, .c, .c, .c, .c]

/-- non-vacuity of `ready_mid_after_begin`: the consumer is at the wait for worker 0, the occupant of slot 0 -/
example : (run (init midCfg) midSched).map (fun s => (s.cpc, s.procs)) = some (.midReady 0 0, [0, 1]) := by decide

/-- … worker 0 retires (quota 1: posts its wid, runs `end()`) and the replace thread SWAPS it for its successor 2 while the consumer is inside the
mid-call wait: the consumer still waits for the worker it fetched (0), not for the new occupant of the slot -/
example : (run (init midCfg) (midSched ++ [.w 0, .w 0, .r, .r])).map (fun s => (s.cpc, s.procs)) =
    some (.midReady 0 0, [2, 1]) := by decide

/-- … that wait returns (the hypotheses of the theorem: a reachable state at `midReady 0 0`, a later one elsewhere) -/
example : (run (init midCfg) midSched).bind (fun s => (run s [.w 0, .w 0, .r, .r, .c]).map (fun s' => (s.cpc, s'.cpc, s'.procs))) =
    some (.midReady 0 0, .midReady 1 1, [2, 1]) := by decide

/-- … the hypotheses of `ready_mid_listed`: slot 0 just fetched in `s₀`; later the consumer is outside `until_all_ready()`,
worker 1 was listed in `s₀` and still is -/
example : (run (init midCfg) midSched).bind (fun s => (run s [.w 0, .w 0, .r, .r, .c, .c]).map
    (fun s' => (s.cpc, s.procs[0]?, s.procs, s'.cpc, s'.procs))) =
    some (.midReady 0 0, some 0, [0, 1], .rdSending, [2, 1]) := by decide

/-- … and after the wait for worker 1 `until_all_ready()` has returned: workers 0 and 1 — the ones waited for — have
completed `begin()`; the successor 2, listed in slot 0 after that slot's occupant had been fetched, has not even been
started: the theorem cannot promise more than it does -/
example : (run (init midCfg) (midSched ++ [.w 0, .w 0, .r, .r, .c, .c])).map
    (fun s => (s.cpc, s.procs, s.workers.map (fun w => (w.wid, w.bf, w.pc)))) =
    some (.rdSending, [2, 1], [(0, true, .exited), (1, true, .get), (2, false, .notStarted)]) := by decide

end WindVerif.C04
