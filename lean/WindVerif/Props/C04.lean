import WindVerif.Proofs.PoolLife
/-!
# C04 — Worker lifecycle: begin first once, end last once, quota kept, none left running

Property theorems only (proofs in `Proofs/PoolLife*.lean`); they hold for every configuration incl. the injected faults
(`begin()` raising, the functor raising at any chunk), every call history and every interleaving (`Reach cfg s`).
That `__exit__` itself terminates is part of C02 (`imap_no_deadlock`; D19 repaired: for every work-queue bound).
-/
namespace WindVerif.C04
open WindVerif.Pool

/-- in every reachable state, under every interleaving and with `begin()` or the functor raising anywhere, every worker's
event log is `begin · item* · end` cut off where the worker is (begin exactly once and first, end exactly once and last,
present iff the worker has exited), and no worker processes more chunks than its quota -/
theorem lifecycle_trace (cfg : Cfg) (s : St) (h : Reach cfg s) (w : Worker) (hw : w ∈ s.workers) : LifeOk cfg w := by
  first | exact WindVerif.Pool.lifecycle_trace .. | (apply WindVerif.Pool.lifecycle_trace <;> assumption)

theorem quota_respected (cfg : Cfg) (s : St) (h : Reach cfg s) (w : Worker) (hw : w ∈ s.workers) (q : Nat)
    (hq : cfg.quota = some q) : itemCount w ≤ q := by
  first | exact WindVerif.Pool.quota_respected .. | (apply WindVerif.Pool.quota_respected <;> assumption)

/-- `until_all_ready()` has returned ⇒ `begin()` of every listed worker has been entered and (without a begin fault) has
completed: its `begin_finished` is set -/
theorem ready_after_begin (cfg : Cfg) (s : St) (h : Reach cfg s) (hr : cfg.waitReady = true)
    (hpast : match s.cpc with | .enterStart _ | .readyWait _ => False | _ => True)
    (w : Worker) (hw : w ∈ s.workers) (hinit : w.wid < cfg.nWorkers) : WEv.begin ∈ w.log ∧ (w.pc ≠ .exited → w.bf = true) := by
  first | exact WindVerif.Pool.ready_after_begin .. | (apply WindVerif.Pool.ready_after_begin <;> assumption)

/-- when the pool context has been left (no join timeout), no worker is running — replaced workers included -/
theorem exit_joins_all (cfg : Cfg) (s : St) (h : Reach cfg s) (hd : s.cpc = .done) : AllExited s := by
  first | exact WindVerif.Pool.exit_joins_all .. | (apply WindVerif.Pool.exit_joins_all <;> assumption)

/-- non-vacuity: a worker whose functor raises at its first chunk still logs begin · item · end -/
example : ((run (init ⟨1, none, none, false, none, false, [⟨1, true⟩], [], [(0, 0)]⟩)
    [.c, .w 0, .w 0, .c, .c, .c, .c, .f, .w 0]).map (fun s => s.workers.map (·.log))) =
    some [[.begin, .item 0, .end_]] := by decide

end WindVerif.C04
