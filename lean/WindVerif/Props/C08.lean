import WindVerif.Proofs.Dll
/-!
# C08 — DoublyLinkedList behaves as a sequence and keeps its links and length consistent

Property theorems only (lemmas live in `Proofs/Dll.lean`).
-/
namespace WindVerif.C08
open WindVerif.Dll

/-- One step: every operation, applied to member nodes of a consistent list, yields a consistent list that
represents exactly the reference sequence after the same operation. -/
theorem repr_step (d : Dll) (l : List Node) (op : Op) (h : Rep d l) (hv : op.Valid l) :
    Rep (applyOp d op) (specOp l d.fresh op) :=
  Dll.repr_step d l op h hv

/-- Any finite operation sequence from the empty list: the structure represents the reference sequence. -/
theorem repr_run (ops : List Op) (hv : ValidSeq Dll.empty [] ops) :
    Rep (runOps Dll.empty [] ops).1 (runOps Dll.empty [] ops).2 :=
  Dll.repr_run Dll.empty [] ops Dll.repr_empty hv

/-- A consistent structure: forward traversal yields exactly the reference sequence, backward traversal its
reverse, `len()` its length (for any amount of fuel that is at least the length). -/
theorem walks (d : Dll) (l : List Node) (h : Rep d l) (k : Nat) :
    walkF d (l.length + k) d.head = l ∧ walkB d (l.length + k) d.tail = l.reverse ∧ d.size = l.length :=
  ⟨Dll.walkF_eq d l h k, Dll.walkB_eq d l h k, h.size⟩

/-- The documented failures and nothing else: pops on the empty list raise `IndexError`, moves on the empty list
raise `RuntimeError`; on a non-empty consistent list with member arguments no operation fails. -/
theorem pop_empty : popBack Dll.empty = .error .indexError ∧ popFront Dll.empty = .error .indexError := by
  simp [popBack, popFront, Dll.empty]

theorem move_empty (n : Node) :
    moveToFront Dll.empty n = .error .runtimeError ∧ moveToBack Dll.empty n = .error .runtimeError := by
  simp [moveToFront, moveToBack, Dll.empty]

theorem total (d : Dll) (l : List Node) (h : Rep d l) (hne : l ≠ []) (n : Node) :
    (∃ r, popBack d = .ok r) ∧ (∃ r, popFront d = .ok r) ∧
    (∃ r, moveToFront d n = .ok r) ∧ (∃ r, moveToBack d n = .ok r) :=
  Dll.total d l h hne n

/-- non-vacuity: a concrete three-element list built by the model satisfies `Rep` and the hypotheses above -/
example : Rep (runOps Dll.empty [] [.append, .append, .prepend, .moveToFront 1, .rotate true, .moveAfter 2 0]).1
    [0, 2, 1] :=
  by
    have := repr_run [.append, .append, .prepend, .moveToFront 1, .rotate true, .moveAfter 2 0]
      (by simp [ValidSeq, Op.Valid, applyOp, specOp, Dll.append, Dll.prepend, Dll.empty, Dll.moveToFront,
                Dll.remove, Dll.setNext, Dll.setPrev, Dll.upd, Dll.rotate, insertAfter])
    simpa [runOps, specOp, applyOp, Dll.append, Dll.prepend, Dll.empty, Dll.moveToFront, Dll.remove, Dll.setNext,
      Dll.setPrev, Dll.upd, Dll.rotate, insertAfter, Dll.moveAfter] using this

end WindVerif.C08
