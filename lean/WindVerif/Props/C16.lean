import WindVerif.Proofs.IntervalMap
/-!
# C16 — ImmutIntervalMap returns the value of the one interval containing the key

Property theorems only (proofs in `Proofs/IntervalMap.lean`).  `Acceptable items`: every interval has start ≤ end and no
two intervals share a point; `Inside key iv`: `iv.1 ≤ key ≤ iv.2` (both ends inclusive).
-/
namespace WindVerif.C16
open WindVerif.SpanSet

/-- construction succeeds exactly for acceptable dicts, and raises `KeyError` otherwise -/
theorem imapInit_ok_iff (items : List (Span × Nat)) :
    (∃ m, imapInit items = .ok m) ↔ Acceptable items := by
  first | exact WindVerif.SpanSet.imapInit_ok_iff .. | (apply WindVerif.SpanSet.imapInit_ok_iff <;> assumption)

theorem imapInit_err (items : List (Span × Nat)) (h : ¬ Acceptable items) :
    imapInit items = .error .keyError := by
  first | exact WindVerif.SpanSet.imapInit_err .. | (apply WindVerif.SpanSet.imapInit_err <;> assumption)

theorem imapGet_hit (items : List (Span × Nat)) (m : IMap) (h : imapInit items = .ok m) (key : Int)
    (it : Span × Nat) (hit : it ∈ items) (hin : Inside key it.1) : imapGet m key = .ok it.2 := by
  first | exact WindVerif.SpanSet.imapGet_hit .. | (apply WindVerif.SpanSet.imapGet_hit <;> assumption)

theorem imapGet_miss (items : List (Span × Nat)) (m : IMap) (h : imapInit items = .ok m) (key : Int)
    (hmiss : ∀ it ∈ items, ¬ Inside key it.1) : imapGet m key = .error .keyError := by
  first | exact WindVerif.SpanSet.imapGet_miss .. | (apply WindVerif.SpanSet.imapGet_miss <;> assumption)

/-- the containing interval is unique -/
theorem inside_unique (items : List (Span × Nat)) (h : Acceptable items) (key : Int) (a b : Span × Nat)
    (ha : a ∈ items) (hb : b ∈ items) (hka : Inside key a.1) (hkb : Inside key b.1) : a.1 = b.1 := by
  first | exact WindVerif.SpanSet.inside_unique .. | (apply WindVerif.SpanSet.inside_unique <;> assumption)

theorem imapContains_iff (items : List (Span × Nat)) (m : IMap) (h : imapInit items = .ok m) (key : Int) :
    imapContains m key = true ↔ ∃ it ∈ items, Inside key it.1 := by
  first | exact WindVerif.SpanSet.imapContains_iff .. | (apply WindVerif.SpanSet.imapContains_iff <;> assumption)

theorem imapLen_spec (items : List (Span × Nat)) (m : IMap) (h : imapInit items = .ok m) :
    imapLen m = items.length := by
  first | exact WindVerif.SpanSet.imapLen_spec .. | (apply WindVerif.SpanSet.imapLen_spec <;> assumption)

/-- iteration lists every `(interval, value)` once, in ascending order -/
theorem imapIter_spec (items : List (Span × Nat)) (m : IMap) (h : imapInit items = .ok m) :
    (imapIter m).Perm items ∧ ((imapIter m).map (·.1.2)).Pairwise (· < ·) ∧
    ((imapIter m).map (·.1.1)).Pairwise (· < ·) := by
  first | exact WindVerif.SpanSet.imapIter_spec .. | (apply WindVerif.SpanSet.imapIter_spec <;> assumption)

/-- non-vacuity: an acceptable dict with a single-point interval and touching-but-disjoint neighbours -/
example : Acceptable [((2, 6), 1), ((8, 8), 2), ((-4, 0), 3)] := by
  simp [Acceptable, Apart]
example : ¬ Acceptable [((2, 6), 1), ((6, 8), 2)] := by
  simp [Acceptable, Apart]

end WindVerif.C16
