import WindVerif.Proofs.CacheSim
import WindVerif.Proofs.LfuRefine
import WindVerif.Proofs.LfuSpec
/-!
# C07 — LFUCache evicts a least frequently used key and keeps the latest stored value

Property theorems only; proofs are in `Proofs/LfuRefine.lean` (dict + linked list + `_inc_freq` walk ⟶ counted list),
`Proofs/CacheSim.lean` (simulation transports mixins and histories) and `Proofs/LfuSpec.lean` (the counted list:
counts, victim minimality, latest value, sortedness, mixins).
-/
namespace WindVerif.C07
open WindVerif.Cache WindVerif.Dll

section refinement
theorem lfu_init (cap : Nat) (h : 1 ≤ cap) : Lfu.R cap (Lfu.new cap) [] := by
  first | exact WindVerif.Cache.lfu_init .. | (apply WindVerif.Cache.lfu_init <;> assumption)

theorem lfu_R_wf (cap : Nat) (s : Lfu) (t : LfuSpec.St) (h : Lfu.R cap s t) : LfuSpec.Wf cap t ∧ 1 ≤ cap := by
  first | exact WindVerif.Cache.lfu_R_wf .. | (apply WindVerif.Cache.lfu_R_wf <;> assumption)

/-- the dict + linked-list model (with the `_inc_freq` walk) simulates the abstract counted list -/
theorem lfu_refines (cap : Nat) : Sim lfuPrim (LfuSpec.prim cap) (Lfu.R cap) := lfu_sim cap

theorem lfu_mixins_refine (cap : Nat) : MixinSim lfuPrim (LfuSpec.prim cap) (Lfu.R cap) :=
  mixins_refine (lfu_sim cap)

/-- every finite history from a fresh cache: same observations as the abstract cache; consistency holds at the end -/
theorem lfu_run_refines (cap : Nat) (h : 1 ≤ cap) (ops : List COp) :
    (runOps lfuPrim (Lfu.new cap) ops).2 = (runOps (LfuSpec.prim cap) [] ops).2 ∧
    Lfu.R cap (runOps lfuPrim (Lfu.new cap) ops).1 (runOps (LfuSpec.prim cap) [] ops).1 :=
  run_refines (lfu_sim cap) _ _ (lfu_init cap h) ops

/-- after any history: at most `max_size` entries, no repeated key, counts positive and non-decreasing along the list
(so iteration lists keys in non-decreasing use count) -/
theorem lfu_bounded_sorted (cap : Nat) (h : 1 ≤ cap) (ops : List COp) :
    LfuSpec.Wf cap (runOps (LfuSpec.prim cap) [] ops).1 ∧
    (runOps lfuPrim (Lfu.new cap) ops).1.cache.length ≤ cap := by
  have hr := (lfu_run_refines cap h ops).2
  have hw := (lfu_R_wf cap _ _ hr).1
  refine ⟨hw, ?_⟩
  have hlen : (runOps lfuPrim (Lfu.new cap) ops).1.cache.length
      = (runOps (LfuSpec.prim cap) [] ops).1.length := (lfu_sim cap).len _ _ hr
  rw [hlen]; exact hw.2.1

end refinement

section abstract
open WindVerif.Cache.LfuSpec
/-- the content as a multiset-like view: the entry of a key -/
theorem wf_get (cap : Nat) (l l' : St) (k : Key) (v : Val) (h : Wf cap l) (hg : get l k = .ok (l', v)) : Wf cap l' := by
  first | exact WindVerif.Cache.LfuSpec.wf_get .. | (apply WindVerif.Cache.LfuSpec.wf_get <;> assumption)

theorem wf_set (cap : Nat) (hc : 1 ≤ cap) (l : St) (k : Key) (v : Val) (h : Wf cap l) :
    ∃ l', set cap l k v = .ok l' ∧ Wf cap l' := by
  first | exact WindVerif.Cache.LfuSpec.wf_set .. | (apply WindVerif.Cache.LfuSpec.wf_set <;> assumption)

theorem wf_del (cap : Nat) (l l' : St) (k : Key) (h : Wf cap l) (hd : del l k = .ok l') : Wf cap l' := by
  first | exact WindVerif.Cache.LfuSpec.wf_del .. | (apply WindVerif.Cache.LfuSpec.wf_del <;> assumption)

/-- a successful lookup returns the stored value, adds one to the key's count and changes nothing else;
an absent key raises `KeyError` -/
theorem get_spec (cap : Nat) (l : St) (k : Key) (h : Wf cap l) :
    (∀ v c, lookup l k = some (v, c) → ∃ l', get l k = .ok (l', v) ∧ lookup l' k = some (v, c + 1) ∧
        ∀ k', k' ≠ k → lookup l' k' = lookup l k') ∧
    (lookup l k = none → get l k = .error .keyError) := by
  first | exact WindVerif.Cache.LfuSpec.get_spec .. | (apply WindVerif.Cache.LfuSpec.get_spec <;> assumption)

/-- `c[k] = v` on a present key: the latest value is kept, the count grows by one, nothing else changes -/
theorem set_present (cap : Nat) (l : St) (k : Key) (v : Val) (h : Wf cap l) (c : Nat) (w : Val)
    (hin : lookup l k = some (w, c)) :
    ∃ l', set cap l k v = .ok l' ∧ lookup l' k = some (v, c + 1) ∧ ∀ k', k' ≠ k → lookup l' k' = lookup l k' := by
  first | exact WindVerif.Cache.LfuSpec.set_present .. | (apply WindVerif.Cache.LfuSpec.set_present <;> assumption)

/-- a new key with room left: inserted with count 1, nothing removed -/
theorem set_room (cap : Nat) (l : St) (k : Key) (v : Val) (h : Wf cap l) (hnew : lookup l k = none)
    (hroom : l.length < cap) :
    ∃ l', set cap l k v = .ok l' ∧ lookup l' k = some (v, 1) ∧ ∀ k', k' ≠ k → lookup l' k' = lookup l k' := by
  first | exact WindVerif.Cache.LfuSpec.set_room .. | (apply WindVerif.Cache.LfuSpec.set_room <;> assumption)

/-- a new key into a full cache: exactly one key is removed, its count is the smallest among the keys present, the
new key enters with count 1 and every other entry is untouched -/
theorem set_evicts_min (cap : Nat) (hc : 1 ≤ cap) (l : St) (k : Key) (v : Val) (h : Wf cap l)
    (hnew : lookup l k = none) (hfull : l.length = cap) :
    ∃ l' victim, set cap l k v = .ok l' ∧ victim ∈ l ∧ (∀ e ∈ l, victim.2.2 ≤ e.2.2) ∧
      lookup l' k = some (v, 1) ∧ lookup l' victim.1 = none ∧
      ∀ k', k' ≠ k → k' ≠ victim.1 → lookup l' k' = lookup l k' := by
  first | exact WindVerif.Cache.LfuSpec.set_evicts_min .. | (apply WindVerif.Cache.LfuSpec.set_evicts_min <;> assumption)

theorem del_spec (cap : Nat) (l : St) (k : Key) (h : Wf cap l) :
    ((lookup l k).isSome → ∃ l', del l k = .ok l' ∧ lookup l' k = none ∧ ∀ k', k' ≠ k → lookup l' k' = lookup l k') ∧
    (lookup l k = none → del l k = .error .keyError) := by
  first | exact WindVerif.Cache.LfuSpec.del_spec .. | (apply WindVerif.Cache.LfuSpec.del_spec <;> assumption)

theorem items_spec (cap : Nat) (l : St) (h : Wf cap l) :
    ∃ l', items (prim cap) l = .ok (l', l.map (fun e => (e.1, e.2.1))) ∧ SameContent l l' ∧ Wf cap l' := by
  first | exact WindVerif.Cache.LfuSpec.items_spec .. | (apply WindVerif.Cache.LfuSpec.items_spec <;> assumption)

theorem contains_spec (cap : Nat) (l : St) (k : Key) (h : Wf cap l) :
    ∃ l', contains (prim cap) l k = .ok (l', (lookup l k).isSome) ∧ SameContent l l' := by
  first | exact WindVerif.Cache.LfuSpec.contains_spec .. | (apply WindVerif.Cache.LfuSpec.contains_spec <;> assumption)

theorem getD_spec (cap : Nat) (l : St) (k : Key) (h : Wf cap l) :
    ∃ l', getD (prim cap) l k = .ok (l', (lookup l k).map (·.1)) ∧ SameContent l l' := by
  first | exact WindVerif.Cache.LfuSpec.getD_spec .. | (apply WindVerif.Cache.LfuSpec.getD_spec <;> assumption)

theorem pop_spec (cap : Nat) (l : St) (k : Key) (h : Wf cap l) :
    (∀ v c, lookup l k = some (v, c) → pop (prim cap) l k = .ok (without l k, v)) ∧
    (lookup l k = none → pop (prim cap) l k = .error .keyError) := by
  first | exact WindVerif.Cache.LfuSpec.pop_spec .. | (apply WindVerif.Cache.LfuSpec.pop_spec <;> assumption)

theorem popitem_spec (cap : Nat) (l : St) (h : Wf cap l) :
    match l with
    | [] => popitem (prim cap) l = .error .keyError
    | (k, v, _) :: r => popitem (prim cap) l = .ok (r, k, v) := by
  first | exact WindVerif.Cache.LfuSpec.popitem_spec .. | (apply WindVerif.Cache.LfuSpec.popitem_spec <;> assumption)

theorem clear_spec (cap : Nat) (l : St) (h : Wf cap l) : clear (prim cap) l = .ok [] := by
  first | exact WindVerif.Cache.LfuSpec.clear_spec .. | (apply WindVerif.Cache.LfuSpec.clear_spec <;> assumption)

theorem update_total (cap : Nat) (hc : 1 ≤ cap) (l : St) (ps : List (Key × Val)) (h : Wf cap l) :
    ∃ l', update (prim cap) l ps = .ok l' ∧ Wf cap l' := by
  first | exact WindVerif.Cache.LfuSpec.update_total .. | (apply WindVerif.Cache.LfuSpec.update_total <;> assumption)

theorem setdefault_spec (cap : Nat) (hc : 1 ≤ cap) (l : St) (k : Key) (v : Val) (h : Wf cap l) :
    (∀ w c, lookup l k = some (w, c) → ∃ l', setdefault (prim cap) l k v = .ok (l', w) ∧ SameContent l l') ∧
    (lookup l k = none → ∃ l', setdefault (prim cap) l k v = .ok (l', v) ∧ set cap l k v = .ok l') := by
  first | exact WindVerif.Cache.LfuSpec.setdefault_spec .. | (apply WindVerif.Cache.LfuSpec.setdefault_spec <;> assumption)

theorem eq_spec (cap : Nat) (l : St) (other : List (Key × Val)) (h : Wf cap l)
    (ho : (other.map (·.1)).Nodup) :
    ∃ l' b, eqDict (prim cap) l other = .ok (l', b) ∧ SameContent l l' ∧
      (b = true ↔ ∀ k, (lookup l k).map (·.1) = other.lookup k) := by
  first | exact WindVerif.Cache.LfuSpec.eq_spec .. | (apply WindVerif.Cache.LfuSpec.eq_spec <;> assumption)

end abstract

/-- non-vacuity: key 1 is used three times, key 2 once; the third store evicts key 2; the overwritten value is kept -/
example : (runOps lfuPrim (Lfu.new 2) [.set 1 10, .set 2 20, .get 1, .set 1 11, .set 3 30, .keys, .get 1, .has 2]).2 =
    [.unit, .unit, .val 10, .unit, .unit, .keys [3, 1], .val 11, .bool false] := by
  have h := (lfu_run_refines 2 (by decide) [.set 1 10, .set 2 20, .get 1, .set 1 11, .set 3 30, .keys, .get 1, .has 2]).1
  rw [h]; decide

example : LfuSpec.Wf 2 [(2, 20, 1), (1, 10, 3)] := by simp [LfuSpec.Wf]

end WindVerif.C07
