import WindVerif.Proofs.LineFile
/-!
# C12 — Mutable line files act as a list of lines; save writes it; source untouched

Property theorems only (proofs in `Proofs/LineFile.lean`).  Every edit maps the presented list `ls` to the result of the
corresponding Python list operation (`Py.index` / `Py.insertPos` are Python's index conventions), fails with `IndexError`
exactly where a list does (and then there is no new state, so `dirty` cannot change), sets `dirty`, and never touches
`content` (the source file).
-/
namespace WindVerif.C12
open WindVerif.LineFile

theorem setItem_spec (f : LF) (ls : List Str) (h : Good f ls) (i : Int) (s : Str) :
    match Py.index ls.length i with
    | some p => ∃ f', f.setItem i s = .ok f' ∧ Good f' (ls.set p s) ∧ f'.dirty = true ∧ f'.content = f.content ∧
        f'.closed = f.closed
    | none => f.setItem i s = .error .indexError := by
  first | exact WindVerif.LineFile.setItem_spec .. | (apply WindVerif.LineFile.setItem_spec <;> assumption)

theorem delItem_spec (f : LF) (ls : List Str) (h : Good f ls) (i : Int) :
    match Py.index ls.length i with
    | some p => ∃ f', f.delItem i = .ok f' ∧ Good f' (ls.eraseIdx p) ∧ f'.dirty = true ∧ f'.content = f.content ∧
        f'.closed = f.closed
    | none => f.delItem i = .error .indexError := by
  first | exact WindVerif.LineFile.delItem_spec .. | (apply WindVerif.LineFile.delItem_spec <;> assumption)

theorem insert_spec (f : LF) (ls : List Str) (h : Good f ls) (i : Int) (s : Str) :
    Good (f.insert i s) (Py.insertAt ls (Py.insertPos ls.length i) s) ∧ (f.insert i s).dirty = true ∧
    (f.insert i s).content = f.content ∧ (f.insert i s).closed = f.closed := by
  first | exact WindVerif.LineFile.insert_spec .. | (apply WindVerif.LineFile.insert_spec <;> assumption)

theorem append_spec (f : LF) (ls : List Str) (h : Good f ls) (s : Str) :
    Good (f.append s) (ls ++ [s]) ∧ (f.append s).dirty = true ∧ (f.append s).content = f.content ∧
    (f.append s).closed = f.closed := by
  first | exact WindVerif.LineFile.append_spec .. | (apply WindVerif.LineFile.append_spec <;> assumption)

theorem extend_spec (f : LF) (ls : List Str) (h : Good f ls) (ss : List Str) :
    Good (f.extend ss) (ls ++ ss) ∧ (ss ≠ [] → (f.extend ss).dirty = true) ∧ (f.extend ss).content = f.content ∧
    (f.extend ss).closed = f.closed := by
  first | exact WindVerif.LineFile.extend_spec .. | (apply WindVerif.LineFile.extend_spec <;> assumption)

theorem pop_spec (f : LF) (ls : List Str) (h : Good f ls) (hc : f.closed = false) (i : Int) :
    match Py.index ls.length i with
    | some p => ∃ f' l, ls[p]? = some l ∧ f.pop i = .ok (f', l) ∧ Good f' (ls.eraseIdx p) ∧ f'.dirty = true ∧
        f'.content = f.content
    | none => f.pop i = .error .indexError := by
  first | exact WindVerif.LineFile.pop_spec .. | (apply WindVerif.LineFile.pop_spec <;> assumption)

theorem remove_spec (f : LF) (ls : List Str) (h : Good f ls) (hc : f.closed = false) (s : Str) :
    (s ∈ ls → ∃ f', f.remove s = .ok f' ∧ Good f' (ls.erase s) ∧ f'.dirty = true ∧ f'.content = f.content) ∧
    (s ∉ ls → f.remove s = .error .valueError) := by
  first | exact WindVerif.LineFile.remove_spec .. | (apply WindVerif.LineFile.remove_spec <;> assumption)

theorem reverse_spec (f : LF) (ls : List Str) (h : Good f ls) (hc : f.closed = false) :
    ∃ f', f.reverse = .ok f' ∧ Good f' ls.reverse ∧ f'.content = f.content ∧ f'.closed = false ∧
      (2 ≤ ls.length → f'.dirty = true) := by
  first | exact WindVerif.LineFile.reverse_spec .. | (apply WindVerif.LineFile.reverse_spec <;> assumption)

/-- iteration over the whole current view yields exactly the presented list -/
theorem view_spec (f : LF) (ls : List Str) (h : Good f ls) (hc : f.closed = false) :
    ∃ f', f.view = .ok (f', ls) ∧ SameButCursor f f' := by
  first | exact WindVerif.LineFile.view_spec .. | (apply WindVerif.LineFile.view_spec <;> assumption)

/-- `save` writes exactly the lines, each followed by the chosen line ending; the source content is untouched -/
theorem save_spec (f : LF) (ls : List Str) (h : Good f ls) (hc : f.closed = false) (le : Str) :
    ∃ f', f.save le = .ok (f', (ls.map (fun l => rstripNL l ++ le)).flatten) ∧ SameButCursor f f' := by
  first | exact WindVerif.LineFile.save_spec .. | (apply WindVerif.LineFile.save_spec <;> assumption)

/-- reopening what `save` wrote with the default ending gives the same list (lines without line breaks) -/
theorem reopen_roundtrip (ls : List Str) (h : ∀ l ∈ ls, '\n' ∉ l) :
    refLines ((ls.map (fun l => rstripNL l ++ ['\n'])).flatten) = ls := by
  first | exact WindVerif.LineFile.reopen_roundtrip .. | (apply WindVerif.LineFile.reopen_roundtrip <;> assumption)

theorem new_state (content : Str) (custom : Option (List Nat)) :
    (LF.new content custom).dirty = false ∧ (LF.new content custom).closed = true ∧
    (LF.new content custom).content = content := by
  first | exact WindVerif.LineFile.new_state .. | (apply WindVerif.LineFile.new_state <;> assumption)

/-- `f[i]` for an `int`: like a list, positive and negative `i`; `IndexError` outside; `RuntimeError` when closed -/
theorem getInt_spec (f : LF) (ls : List Str) (h : Good f ls) (i : Int) :
    (f.closed = true → f.getInt i = .error .runtimeError) ∧
    (f.closed = false → match Py.index ls.length i with
      | some p => ∃ f' l, ls[p]? = some l ∧ f.getInt i = .ok (f', l) ∧ SameButCursor f f'
      | none => f.getInt i = .error .indexError) := by
  first | exact WindVerif.LineFile.getInt_spec .. | (apply WindVerif.LineFile.getInt_spec <;> assumption)

/-- non-vacuity -/
example : ((⟨"a\nb\n".toList, [.off 0, .off 2], 0, false, false⟩ : LF).setItem (-1) "X".toList).toOption.map (·.lines) =
    some [.off 0, .str "X".toList] := by decide

end WindVerif.C12
