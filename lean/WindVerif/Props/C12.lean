import WindVerif.Proofs.LineFile
import WindVerif.Proofs.RecFileM
/-!
# C12 — Mutable line files act as a list of lines; save writes it; source untouched

Property theorems only (proofs in `Proofs/LineFile.lean`).  Every edit maps the presented list `ls` to the result of the
corresponding Python list operation (`Py.index` / `Py.insertPos` are Python's index conventions), fails with `IndexError`
exactly where a list does (and then there is no new state, so `dirty` cannot change), sets `dirty`, and never touches
`content` (the source file).
-/
namespace WindVerif.C12
open WindVerif.LineFile

theorem setItem_spec (f : LF) (ls : List Str) (h : Good f ls) (i : Int) (s : Str) :
    match Py.index ls.length i with
    | some p => ∃ f', f.setItem i s = .ok f' ∧ Good f' (ls.set p s) ∧ f'.dirty = true ∧ f'.content = f.content ∧
        f'.closed = f.closed
    | none => f.setItem i s = .error .indexError := by
  first | exact WindVerif.LineFile.setItem_spec .. | (apply WindVerif.LineFile.setItem_spec <;> assumption)

theorem delItem_spec (f : LF) (ls : List Str) (h : Good f ls) (i : Int) :
    match Py.index ls.length i with
    | some p => ∃ f', f.delItem i = .ok f' ∧ Good f' (ls.eraseIdx p) ∧ f'.dirty = true ∧ f'.content = f.content ∧
        f'.closed = f.closed
    | none => f.delItem i = .error .indexError := by
  first | exact WindVerif.LineFile.delItem_spec .. | (apply WindVerif.LineFile.delItem_spec <;> assumption)

theorem insert_spec (f : LF) (ls : List Str) (h : Good f ls) (i : Int) (s : Str) :
    Good (f.insert i s) (Py.insertAt ls (Py.insertPos ls.length i) s) ∧ (f.insert i s).dirty = true ∧
    (f.insert i s).content = f.content ∧ (f.insert i s).closed = f.closed := by
  first | exact WindVerif.LineFile.insert_spec .. | (apply WindVerif.LineFile.insert_spec <;> assumption)

theorem append_spec (f : LF) (ls : List Str) (h : Good f ls) (s : Str) :
    Good (f.append s) (ls ++ [s]) ∧ (f.append s).dirty = true ∧ (f.append s).content = f.content ∧
    (f.append s).closed = f.closed := by
  first | exact WindVerif.LineFile.append_spec .. | (apply WindVerif.LineFile.append_spec <;> assumption)

theorem extend_spec (f : LF) (ls : List Str) (h : Good f ls) (ss : List Str) :
    Good (f.extend ss) (ls ++ ss) ∧ (ss ≠ [] → (f.extend ss).dirty = true) ∧ (f.extend ss).content = f.content ∧
    (f.extend ss).closed = f.closed := by
  first | exact WindVerif.LineFile.extend_spec .. | (apply WindVerif.LineFile.extend_spec <;> assumption)

theorem pop_spec (f : LF) (ls : List Str) (h : Good f ls) (hc : f.closed = false) (i : Int) :
    match Py.index ls.length i with
    | some p => ∃ f' l, ls[p]? = some l ∧ f.pop i = .ok (f', l) ∧ Good f' (ls.eraseIdx p) ∧ f'.dirty = true ∧
        f'.content = f.content
    | none => f.pop i = .error .indexError := by
  first | exact WindVerif.LineFile.pop_spec .. | (apply WindVerif.LineFile.pop_spec <;> assumption)

theorem remove_spec (f : LF) (ls : List Str) (h : Good f ls) (hc : f.closed = false) (s : Str) :
    (s ∈ ls → ∃ f', f.remove s = .ok f' ∧ Good f' (ls.erase s) ∧ f'.dirty = true ∧ f'.content = f.content) ∧
    (s ∉ ls → f.remove s = .error .valueError) := by
  first | exact WindVerif.LineFile.remove_spec .. | (apply WindVerif.LineFile.remove_spec <;> assumption)

theorem reverse_spec (f : LF) (ls : List Str) (h : Good f ls) (hc : f.closed = false) :
    ∃ f', f.reverse = .ok f' ∧ Good f' ls.reverse ∧ f'.content = f.content ∧ f'.closed = false ∧
      (2 ≤ ls.length → f'.dirty = true) := by
  first | exact WindVerif.LineFile.reverse_spec .. | (apply WindVerif.LineFile.reverse_spec <;> assumption)

/-- iteration over the whole current view yields exactly the presented list -/
theorem view_spec (f : LF) (ls : List Str) (h : Good f ls) (hc : f.closed = false) :
    ∃ f', f.view = .ok (f', ls) ∧ SameButCursor f f' := by
  first | exact WindVerif.LineFile.view_spec .. | (apply WindVerif.LineFile.view_spec <;> assumption)

/-- `save` writes exactly the lines, each followed by the chosen line ending; the source content is untouched -/
theorem save_spec (f : LF) (ls : List Str) (h : Good f ls) (hc : f.closed = false) (le : Str) :
    ∃ f', f.save le = .ok (f', (ls.map (fun l => rstripNL l ++ le)).flatten) ∧ SameButCursor f f' := by
  first | exact WindVerif.LineFile.save_spec .. | (apply WindVerif.LineFile.save_spec <;> assumption)

/-- reopening what `save` wrote with the default ending gives the same list (lines without line breaks) -/
theorem reopen_roundtrip (ls : List Str) (h : ∀ l ∈ ls, '\n' ∉ l) :
    refLines ((ls.map (fun l => rstripNL l ++ ['\n'])).flatten) = ls := by
  first | exact WindVerif.LineFile.reopen_roundtrip .. | (apply WindVerif.LineFile.reopen_roundtrip <;> assumption)

theorem new_state (content : Str) (custom : Option (List Nat)) :
    (LF.new content custom).dirty = false ∧ (LF.new content custom).closed = true ∧
    (LF.new content custom).content = content := by
  first | exact WindVerif.LineFile.new_state .. | (apply WindVerif.LineFile.new_state <;> assumption)

/-- `f[i]` for an `int`: like a list, positive and negative `i`; `IndexError` outside; `RuntimeError` when closed -/
theorem getInt_spec (f : LF) (ls : List Str) (h : Good f ls) (i : Int) :
    (f.closed = true → f.getInt i = .error .runtimeError) ∧
    (f.closed = false → match Py.index ls.length i with
      | some p => ∃ f' l, ls[p]? = some l ∧ f.getInt i = .ok (f', l) ∧ SameButCursor f f'
      | none => f.getInt i = .error .indexError) := by
  first | exact WindVerif.LineFile.getInt_spec .. | (apply WindVerif.LineFile.getInt_spec <;> assumption)

/-- non-vacuity -/
example : ((⟨"a\nb\n".toList, [.off 0, .off 2], 0, false, false⟩ : LF).setItem (-1) "X".toList).toOption.map (·.lines) =
    some [.off 0, .str "X".toList] := by decide

end WindVerif.C12

/-!
## The record variant (`BaseMutableRecordFile`, model `Model/RecFile.lean`, proofs `Proofs/RecFileM.lean`)

A mutable record file presents `list(f)` = `load` of every position (`records`; `none` = that position raises).  `f[i] = r`,
`insert`, `append` store the text `r.save()`; the presented list changes as the Python list does (the new element is
`load(save(r))`, which is `r` for a format with a round trip); `del` / `pop` / `reverse` as on a list; `save` copies
untouched source lines verbatim and writes `save(r).rstrip("\n")` for edited positions.  Valid for ANY record format.
-/
namespace WindVerif.C12
open WindVerif.RecFile

/-- a position that still holds `src i` is written as source line `i` verbatim -/
theorem save_untouched (f : RecFile) (p i : Nat) (l ending : RecFile.Str) (hp : f.slots[p]? = some (.src i))
    (hl : f.source[i]? = some l) (hnl : '\n' ∉ l) :
    f.lineAt p = some l ∧ (f.saveLines ending)[p]? = some (l ++ ending) := by
  first | exact WindVerif.RecFile.save_untouched .. | (apply WindVerif.RecFile.save_untouched <;> assumption)

/-- a position written with record `r` is written as `strip (save r)` (`strip` = `rstrip("\n")`) -/
theorem save_edited {R : Type} (F : Fmt R) (f f' : RecFile) (i : Int) (p : Nat) (r : R) (ending : RecFile.Str)
    (hi : Py.index f.slots.length i = some p) (hs : f.setRec F i r = .ok f') :
    f'.lineAt p = some (strip (F.save r)) ∧ (f'.saveLines ending)[p]? = some (strip (F.save r) ++ ending) := by
  first | exact WindVerif.RecFile.save_edited .. | (apply WindVerif.RecFile.save_edited <;> assumption)

/-- … and so is an inserted record, at the position Python's `list.insert` chooses -/
theorem save_inserted {R : Type} (F : Fmt R) (f : RecFile) (i : Int) (r : R) (ending : RecFile.Str) :
    (f.insertRec F i r).lineAt (Py.insertPos f.slots.length i) = some (strip (F.save r)) ∧
    ((f.insertRec F i r).saveLines ending)[Py.insertPos f.slots.length i]? = some (strip (F.save r) ++ ending) := by
  first | exact WindVerif.RecFile.save_inserted .. | (apply WindVerif.RecFile.save_inserted <;> assumption)

/-- `f[i]`: the presented record; `IndexError` outside the range (negative indices as Python); a line that does not load
raises -/
theorem rec_get_spec {R : Type} (F : Fmt R) (f : RecFile) (i : Int) :
    f.getRec F i = match Py.index (f.records F).length i with
      | none => .error .indexError
      | some p => match (f.records F)[p]? with
        | some (some r) => .ok r
        | _ => .error .loadError := by
  first | exact WindVerif.RecFile.getRec_spec .. | (apply WindVerif.RecFile.getRec_spec <;> assumption)

theorem rec_set_spec {R : Type} (F : Fmt R) (f : RecFile) (i : Int) (r : R) :
    match Py.index (f.records F).length i with
    | some p => ∃ f', f.setRec F i r = .ok f' ∧ f'.records F = (f.records F).set p (F.load (F.save r)) ∧
        f'.source = f.source
    | none => f.setRec F i r = .error .indexError := by
  first | exact WindVerif.RecFile.records_setRec .. | (apply WindVerif.RecFile.records_setRec <;> assumption)

theorem rec_insert_spec {R : Type} (F : Fmt R) (f : RecFile) (i : Int) (r : R) :
    (f.insertRec F i r).records F =
      Py.insertAt (f.records F) (Py.insertPos (f.records F).length i) (F.load (F.save r)) ∧
    (f.insertRec F i r).source = f.source := by
  first | exact WindVerif.RecFile.records_insertRec .. | (apply WindVerif.RecFile.records_insertRec <;> assumption)

theorem rec_append_spec {R : Type} (F : Fmt R) (f : RecFile) (r : R) :
    (f.appendRec F r).records F = f.records F ++ [F.load (F.save r)] ∧ (f.appendRec F r).source = f.source := by
  first | exact WindVerif.RecFile.records_appendRec .. | (apply WindVerif.RecFile.records_appendRec <;> assumption)

theorem rec_del_spec {R : Type} (F : Fmt R) (f : RecFile) (i : Int) :
    match Py.index (f.records F).length i with
    | some p => ∃ f', f.delRec i = .ok f' ∧ f'.records F = (f.records F).eraseIdx p ∧ f'.source = f.source
    | none => f.delRec i = .error .indexError := by
  first | exact WindVerif.RecFile.records_delRec .. | (apply WindVerif.RecFile.records_delRec <;> assumption)

/-- `pop(i)` returns the record and removes the position; a position that does not load raises and stays -/
theorem rec_pop_spec {R : Type} (F : Fmt R) (f : RecFile) (i : Int) :
    match Py.index (f.records F).length i with
    | some p => (match (f.records F)[p]? with
      | some (some r) => ∃ f', f.popRec F i = .ok (r, f') ∧ f'.records F = (f.records F).eraseIdx p ∧
          f'.source = f.source
      | _ => f.popRec F i = .error .loadError)
    | none => f.popRec F i = .error .indexError := by
  first | exact WindVerif.RecFile.records_popRec .. | (apply WindVerif.RecFile.records_popRec <;> assumption)

/-- `reverse()` (the swap loop of `MutableSequence`) presents the reversed list and does not raise, when every position
loads and the records survive `save` + `load` -/
theorem rec_reverse_spec {R : Type} (F : Fmt R) (f : RecFile) (rs : List R) (hrs : f.records F = rs.map some)
    (hrt : ∀ r ∈ rs, F.load (F.save r) = some r) :
    ∃ f', f.reverse F = (f', none) ∧ f'.records F = (f.records F).reverse ∧ f'.source = f.source := by
  first | exact WindVerif.RecFile.records_reverse .. | (apply WindVerif.RecFile.records_reverse <;> assumption)

/-- LIST SEMANTICS: for a format with an in-memory round trip on the domain `P`, a file in the invariant of a history of
edits (`Inv`: stored texts are `save r` with `P r`) whose source lines load into the domain, and any operation with
records of the domain: the presented list afterwards is the Python list operation applied to the presented list before -/
theorem records_list_semantics {R : Type} (F : Fmt R) (P : R → Prop) (hmem : F.OkMem P) (f : RecFile)
    (hf : Inv F P f) (hl : Loads F P f.source) (op : Op R) (hop : ∀ r ∈ op.recs, P r) :
    (f.step F op).records F = op.onList (f.records F) := by
  first | exact WindVerif.RecFile.records_list_semantics .. | (apply WindVerif.RecFile.records_list_semantics <;> assumption)

/-- … for every history, starting from the freshly opened file -/
theorem records_history {R : Type} (F : Fmt R) (P : R → Prop) (hmem : F.OkMem P) (source : List RecFile.Str)
    (hsrc : ∀ l ∈ source, '\n' ∉ l) (hl : Loads F P source) (ops : List (Op R))
    (hops : ∀ op ∈ ops, ∀ r ∈ op.recs, P r) :
    ((RecFile.open source).run F ops).records F = ops.foldl (fun l op => op.onList l) (source.map F.load) := by
  rw [← WindVerif.RecFile.records_open F source]
  exact WindVerif.RecFile.records_run F P hmem ops _ (WindVerif.RecFile.inv_open F P source hsrc) hl hops

/-- non-vacuity: a csv file of three lines (one field needlessly quoted), `f[1] = …`, `insert(0, …)`, `reverse()`:
the stored slots, the presented records and the saved text -/
example :
    let F := csvFmt ',' 2
    let f := (RecFile.open ["a,\"b\"".toList, "c,d".toList, "e,\"f,g\"".toList]).run F
      [.set 1 ["x".toList, "y,z".toList], .insert 0 ["i".toList, []], .reverse]
    f.slots = [.txt "e,\"f,g\"\r\n".toList, .txt "x,\"y,z\"\r\n".toList, .txt "a,b\r\n".toList, .txt "i,\r\n".toList] ∧
    f.records F = [some ["e".toList, "f,g".toList], some ["x".toList, "y,z".toList], some ["a".toList, "b".toList],
      some ["i".toList, []]] ∧
    f.saveText ['\n'] = "e,\"f,g\"\r\nx,\"y,z\"\r\na,b\r\ni,\r\n".toList := by
  decide

/-- an untouched line is copied verbatim (the needless quotes stay), an edited one is re-serialised -/
example :
    let F := csvFmt ',' 2
    let f := (RecFile.open ["a,\"b\"".toList, "c,d".toList]).run F [.set 1 ["x".toList, "y".toList]]
    f.saveText ['\n'] = "a,\"b\"\nx,y\r\n".toList := by
  decide

/-- the hypotheses of `save_untouched` / `save_edited` / `rec_reverse_spec` on that file: position 0 still points to source
line 0, which carries no line break; `f[-1] = …` succeeds at position 1; every position loads and survives `save` + `load` -/
example :
    let F := csvFmt ',' 2
    let f := RecFile.open ["a,\"b\"".toList, "c,d".toList]
    f.slots[0]? = some (.src 0) ∧ f.source[0]? = some "a,\"b\"".toList ∧ '\n' ∉ "a,\"b\"".toList ∧
    Py.index f.slots.length (-1) = some 1 ∧
    (f.setRec F (-1) ["x".toList, "y".toList]).toOption = some ⟨f.source, [.src 0, .txt "x,y\r\n".toList]⟩ ∧
    f.records F = [["a".toList, "b".toList], ["c".toList, "d".toList]].map some ∧
    (∀ r ∈ [["a".toList, "b".toList], ["c".toList, "d".toList]], F.load (F.save r) = some r) := by
  decide

end WindVerif.C12
