import WindVerif.Proofs.LineFile
import WindVerif.Proofs.SaveEndings
import WindVerif.Proofs.RecFileM
import WindVerif.Proofs.LineFileSeq
import WindVerif.Proofs.RecFileSeq
/-!
# C12 — Mutable line files act as a list of lines; save writes it; source untouched

Property theorems only (proofs in `Proofs/LineFile.lean`).  Every edit maps the presented list `ls` to the result of the
corresponding Python list operation (`Py.index` / `Py.insertPos` are Python's index conventions), fails with `IndexError`
exactly where a list does (and then there is no new state, so `dirty` cannot change), sets `dirty`, and never touches
`content` (the source file).
-/
namespace WindVerif.C12
open WindVerif.LineFile

theorem setItem_spec (f : LF) (ls : List Str) (h : Good f ls) (i : Int) (s : Str) :
    match Py.index ls.length i with
    | some p => ∃ f', f.setItem i s = .ok f' ∧ Good f' (ls.set p s) ∧ f'.dirty = true ∧ f'.content = f.content ∧
        f'.closed = f.closed
    | none => f.setItem i s = .error .indexError := by
  first | exact WindVerif.LineFile.setItem_spec .. | (apply WindVerif.LineFile.setItem_spec <;> assumption)

theorem delItem_spec (f : LF) (ls : List Str) (h : Good f ls) (i : Int) :
    match Py.index ls.length i with
    | some p => ∃ f', f.delItem i = .ok f' ∧ Good f' (ls.eraseIdx p) ∧ f'.dirty = true ∧ f'.content = f.content ∧
        f'.closed = f.closed
    | none => f.delItem i = .error .indexError := by
  first | exact WindVerif.LineFile.delItem_spec .. | (apply WindVerif.LineFile.delItem_spec <;> assumption)

theorem insert_spec (f : LF) (ls : List Str) (h : Good f ls) (i : Int) (s : Str) :
    Good (f.insert i s) (Py.insertAt ls (Py.insertPos ls.length i) s) ∧ (f.insert i s).dirty = true ∧
    (f.insert i s).content = f.content ∧ (f.insert i s).closed = f.closed := by
  first | exact WindVerif.LineFile.insert_spec .. | (apply WindVerif.LineFile.insert_spec <;> assumption)

theorem append_spec (f : LF) (ls : List Str) (h : Good f ls) (s : Str) :
    Good (f.append s) (ls ++ [s]) ∧ (f.append s).dirty = true ∧ (f.append s).content = f.content ∧
    (f.append s).closed = f.closed := by
  first | exact WindVerif.LineFile.append_spec .. | (apply WindVerif.LineFile.append_spec <;> assumption)

theorem extend_spec (f : LF) (ls : List Str) (h : Good f ls) (ss : List Str) :
    Good (f.extend ss) (ls ++ ss) ∧ (ss ≠ [] → (f.extend ss).dirty = true) ∧ (f.extend ss).content = f.content ∧
    (f.extend ss).closed = f.closed := by
  first | exact WindVerif.LineFile.extend_spec .. | (apply WindVerif.LineFile.extend_spec <;> assumption)

theorem pop_spec (f : LF) (ls : List Str) (h : Good f ls) (hc : f.closed = false) (i : Int) :
    match Py.index ls.length i with
    | some p => ∃ f' l, ls[p]? = some l ∧ f.pop i = .ok (f', l) ∧ Good f' (ls.eraseIdx p) ∧ f'.dirty = true ∧
        f'.content = f.content
    | none => f.pop i = .error .indexError := by
  first | exact WindVerif.LineFile.pop_spec .. | (apply WindVerif.LineFile.pop_spec <;> assumption)

theorem remove_spec (f : LF) (ls : List Str) (h : Good f ls) (hc : f.closed = false) (s : Str) :
    (s ∈ ls → ∃ f', f.remove s = .ok f' ∧ Good f' (ls.erase s) ∧ f'.dirty = true ∧ f'.content = f.content) ∧
    (s ∉ ls → f.remove s = .error .valueError) := by
  first | exact WindVerif.LineFile.remove_spec .. | (apply WindVerif.LineFile.remove_spec <;> assumption)

theorem reverse_spec (f : LF) (ls : List Str) (h : Good f ls) (hc : f.closed = false) :
    ∃ f', f.reverse = .ok f' ∧ Good f' ls.reverse ∧ f'.content = f.content ∧ f'.closed = false ∧
      (2 ≤ ls.length → f'.dirty = true) := by
  first | exact WindVerif.LineFile.reverse_spec .. | (apply WindVerif.LineFile.reverse_spec <;> assumption)

/-- iteration over the whole current view yields exactly the presented list -/
theorem view_spec (f : LF) (ls : List Str) (h : Good f ls) (hc : f.closed = false) :
    ∃ f', f.view = .ok (f', ls) ∧ SameButCursor f f' := by
  first | exact WindVerif.LineFile.view_spec .. | (apply WindVerif.LineFile.view_spec <;> assumption)

/-- `save` writes exactly the lines, each followed by the chosen line ending; the source content is untouched -/
theorem save_spec (f : LF) (ls : List Str) (h : Good f ls) (hc : f.closed = false) (le : Str) :
    ∃ f', f.save le = .ok (f', (ls.map (fun l => rstripNL l ++ le)).flatten) ∧ SameButCursor f f' := by
  first | exact WindVerif.LineFile.save_spec .. | (apply WindVerif.LineFile.save_spec <;> assumption)

/-- reopening what `save` wrote with the default ending gives the same list (lines without line breaks) -/
theorem reopen_roundtrip (ls : List Str) (h : ∀ l ∈ ls, '\n' ∉ l) :
    refLines ((ls.map (fun l => rstripNL l ++ ['\n'])).flatten) = ls := by
  first | exact WindVerif.LineFile.reopen_roundtrip .. | (apply WindVerif.LineFile.reopen_roundtrip <;> assumption)

theorem new_state (content : Str) (custom : Option (List Nat)) :
    (LF.new content custom).dirty = false ∧ (LF.new content custom).closed = true ∧
    (LF.new content custom).content = content := by
  first | exact WindVerif.LineFile.new_state .. | (apply WindVerif.LineFile.new_state <;> assumption)

/-- `f[i]` for an `int`: like a list, positive and negative `i`; `IndexError` outside; `RuntimeError` when closed -/
theorem getInt_spec (f : LF) (ls : List Str) (h : Good f ls) (i : Int) :
    (f.closed = true → f.getInt i = .error .runtimeError) ∧
    (f.closed = false → match Py.index ls.length i with
      | some p => ∃ f' l, ls[p]? = some l ∧ f.getInt i = .ok (f', l) ∧ SameButCursor f f'
      | none => f.getInt i = .error .indexError) := by
  first | exact WindVerif.LineFile.getInt_spec .. | (apply WindVerif.LineFile.getInt_spec <;> assumption)

/-- non-vacuity -/
example : ((⟨"a\nb\n".toList, [.off 0, .off 2], 0, false, false⟩ : LF).setItem (-1) "X".toList).toOption.map (·.lines) =
    some [.off 0, .str "X".toList] := by decide

/-! ### the inherited `MutableSequence.remove` and `clear` (`Model/LineFileSeq.lean`, `Proofs/LineFileSeq.lean`) -/

/-- `f.remove(v)` (the model of `Model/LineFile.lean`, `remove_spec` above) is `del f[f.index(v)]` with the inherited
`Sequence.index` of C11 -/
theorem remove_eq_del_index (f : LF) (v : Str) :
    f.remove v = match lfIndex f v none none with
      | .error e => .error e
      | .ok (f', p) => f'.delItem (p : Int) := by
  first | exact WindVerif.LineFile.remove_eq_del_index .. | (apply WindVerif.LineFile.remove_eq_del_index <;> assumption)

theorem remove_closed (f : LF) (hc : f.closed = true) (v : Str) : f.remove v = .error .runtimeError := by
  first | exact WindVerif.LineFile.remove_closed .. | (apply WindVerif.LineFile.remove_closed <;> assumption)

/-- `f.clear()` on an opened file: the file presents the empty list (and is dirty unless it was empty already, in which
case nothing changes); the source content is untouched -/
theorem clear_spec (f : LF) (ls : List Str) (h : Good f ls) (hc : f.closed = false) :
    ∃ f', f.clear = .ok f' ∧ Good f' [] ∧ f'.content = f.content ∧ f'.closed = false ∧
      (ls ≠ [] → f'.dirty = true) ∧ (ls = [] → f' = f) := by
  first | exact WindVerif.LineFile.clear_spec .. | (apply WindVerif.LineFile.clear_spec <;> assumption)

/-- a closed file: the first `self.pop()` raises `RuntimeError` (before it could raise `IndexError`, even without lines) -/
theorem clear_closed (f : LF) (hc : f.closed = true) : f.clear = .error .runtimeError := by
  first | exact WindVerif.LineFile.clear_closed .. | (apply WindVerif.LineFile.clear_closed <;> assumption)

/-- the fuel of the `clear` loop suffices on every file: more changes nothing -/
theorem clearGo_fuel (fuel : Nat) (f : LF) (h : f.lines.length < fuel) :
    f.clearGo fuel = f.clearGo (f.lines.length + 1) := by
  first | exact WindVerif.LineFile.clearGo_fuel .. | (apply WindVerif.LineFile.clearGo_fuel <;> assumption)

/-- non-vacuity: an opened file of two lines with an inserted third; `clear` leaves no line and sets `dirty`; on the
closed file it raises `RuntimeError`; on an opened file without lines it changes nothing -/
example :
    let f := ((LF.new "a\nb\n".toList (some [0, 2])).open).insert 1 "x".toList
    (f.clear.toOption.map (fun g => (g.lines, g.dirty, g.content))) = some ([], true, "a\nb\n".toList) ∧
    (match f.close.clear with | .error .runtimeError => true | _ => false) = true ∧
    ((LF.new [] (some [])).open.clear.toOption.map (fun g => (g.lines, g.dirty))) = some ([], false) ∧
    (f.remove "x".toList).toOption.map (·.lines) = some [.off 0, .off 2] := by
  decide

example : Good (LF.new "a\nb\n".toList (some [0, 2])).open ["a".toList, "b".toList] :=
  (WindVerif.LineFile.open_good _ _ (WindVerif.LineFile.new_custom_good _ _ _ (by decide))).1

end WindVerif.C12

/-!
## The record variant (`BaseMutableRecordFile`, model `Model/RecFile.lean`, proofs `Proofs/RecFileM.lean`)

A mutable record file presents `list(f)` = `load` of every position (`records`; `none` = that position raises).  `f[i] = r`,
`insert`, `append` store the text `r.save()`; the presented list changes as the Python list does (the new element is
`load(save(r))`, which is `r` for a format with a round trip); `del` / `pop` / `reverse` as on a list; `save` copies
untouched source lines verbatim and writes `save(r).rstrip("\n")` for edited positions.  Valid for ANY record format.
-/
namespace WindVerif.C12
open WindVerif.RecFile

/-- a position that still holds `src i` is written as source line `i` verbatim -/
theorem save_untouched (f : RecFile) (p i : Nat) (l ending : RecFile.Str) (hp : f.slots[p]? = some (.src i))
    (hl : f.source[i]? = some l) (hnl : '\n' ∉ l) :
    f.lineAt p = some l ∧ (f.saveLines ending)[p]? = some (l ++ ending) := by
  first | exact WindVerif.RecFile.save_untouched .. | (apply WindVerif.RecFile.save_untouched <;> assumption)

/-- a position written with record `r` is written as `strip (save r)` (`strip` = `rstrip("\n")`) -/
theorem save_edited {R : Type} (F : Fmt R) (f f' : RecFile) (i : Int) (p : Nat) (r : R) (ending : RecFile.Str)
    (hi : Py.index f.slots.length i = some p) (hs : f.setRec F i r = .ok f') :
    f'.lineAt p = some (strip (F.save r)) ∧ (f'.saveLines ending)[p]? = some (strip (F.save r) ++ ending) := by
  first | exact WindVerif.RecFile.save_edited .. | (apply WindVerif.RecFile.save_edited <;> assumption)

/-- … and so is an inserted record, at the position Python's `list.insert` chooses -/
theorem save_inserted {R : Type} (F : Fmt R) (f : RecFile) (i : Int) (r : R) (ending : RecFile.Str) :
    (f.insertRec F i r).lineAt (Py.insertPos f.slots.length i) = some (strip (F.save r)) ∧
    ((f.insertRec F i r).saveLines ending)[Py.insertPos f.slots.length i]? = some (strip (F.save r) ++ ending) := by
  first | exact WindVerif.RecFile.save_inserted .. | (apply WindVerif.RecFile.save_inserted <;> assumption)

/-- `f[i]`: the presented record; `IndexError` outside the range (negative indices as Python); a line that does not load
raises -/
theorem rec_get_spec {R : Type} (F : Fmt R) (f : RecFile) (i : Int) :
    f.getRec F i = match Py.index (f.records F).length i with
      | none => .error .indexError
      | some p => match (f.records F)[p]? with
        | some (some r) => .ok r
        | _ => .error .loadError := by
  first | exact WindVerif.RecFile.getRec_spec .. | (apply WindVerif.RecFile.getRec_spec <;> assumption)

theorem rec_set_spec {R : Type} (F : Fmt R) (f : RecFile) (i : Int) (r : R) :
    match Py.index (f.records F).length i with
    | some p => ∃ f', f.setRec F i r = .ok f' ∧ f'.records F = (f.records F).set p (F.load (F.save r)) ∧
        f'.source = f.source
    | none => f.setRec F i r = .error .indexError := by
  first | exact WindVerif.RecFile.records_setRec .. | (apply WindVerif.RecFile.records_setRec <;> assumption)

theorem rec_insert_spec {R : Type} (F : Fmt R) (f : RecFile) (i : Int) (r : R) :
    (f.insertRec F i r).records F =
      Py.insertAt (f.records F) (Py.insertPos (f.records F).length i) (F.load (F.save r)) ∧
    (f.insertRec F i r).source = f.source := by
  first | exact WindVerif.RecFile.records_insertRec .. | (apply WindVerif.RecFile.records_insertRec <;> assumption)

theorem rec_append_spec {R : Type} (F : Fmt R) (f : RecFile) (r : R) :
    (f.appendRec F r).records F = f.records F ++ [F.load (F.save r)] ∧ (f.appendRec F r).source = f.source := by
  first | exact WindVerif.RecFile.records_appendRec .. | (apply WindVerif.RecFile.records_appendRec <;> assumption)

theorem rec_del_spec {R : Type} (F : Fmt R) (f : RecFile) (i : Int) :
    match Py.index (f.records F).length i with
    | some p => ∃ f', f.delRec i = .ok f' ∧ f'.records F = (f.records F).eraseIdx p ∧ f'.source = f.source
    | none => f.delRec i = .error .indexError := by
  first | exact WindVerif.RecFile.records_delRec .. | (apply WindVerif.RecFile.records_delRec <;> assumption)

/-- `pop(i)` returns the record and removes the position; a position that does not load raises and stays -/
theorem rec_pop_spec {R : Type} (F : Fmt R) (f : RecFile) (i : Int) :
    match Py.index (f.records F).length i with
    | some p => (match (f.records F)[p]? with
      | some (some r) => ∃ f', f.popRec F i = .ok (r, f') ∧ f'.records F = (f.records F).eraseIdx p ∧
          f'.source = f.source
      | _ => f.popRec F i = .error .loadError)
    | none => f.popRec F i = .error .indexError := by
  first | exact WindVerif.RecFile.records_popRec .. | (apply WindVerif.RecFile.records_popRec <;> assumption)

/-- `reverse()` (the swap loop of `MutableSequence`) presents the reversed list and does not raise, when every position
loads and the records survive `save` + `load` -/
theorem rec_reverse_spec {R : Type} (F : Fmt R) (f : RecFile) (rs : List R) (hrs : f.records F = rs.map some)
    (hrt : ∀ r ∈ rs, F.load (F.save r) = some r) :
    ∃ f', f.reverse F = (f', none) ∧ f'.records F = (f.records F).reverse ∧ f'.source = f.source := by
  first | exact WindVerif.RecFile.records_reverse .. | (apply WindVerif.RecFile.records_reverse <;> assumption)

/-- LIST SEMANTICS: for a format with an in-memory round trip on the domain `P`, a file in the invariant of a history of
edits (`Inv`: stored texts are `save r` with `P r`) whose source lines load into the domain, and any operation with
records of the domain: the presented list afterwards is the Python list operation applied to the presented list before -/
theorem records_list_semantics {R : Type} (F : Fmt R) (P : R → Prop) (hmem : F.OkMem P) (f : RecFile)
    (hf : Inv F P f) (hl : Loads F P f.source) (op : Op R) (hop : ∀ r ∈ op.recs, P r) :
    (f.step F op).records F = op.onList (f.records F) := by
  first | exact WindVerif.RecFile.records_list_semantics .. | (apply WindVerif.RecFile.records_list_semantics <;> assumption)

/-- … for every history, starting from the freshly opened file -/
theorem records_history {R : Type} (F : Fmt R) (P : R → Prop) (hmem : F.OkMem P) (source : List RecFile.Str)
    (hsrc : ∀ l ∈ source, '\n' ∉ l) (hl : Loads F P source) (ops : List (Op R))
    (hops : ∀ op ∈ ops, ∀ r ∈ op.recs, P r) :
    ((RecFile.open source).run F ops).records F = ops.foldl (fun l op => op.onList l) (source.map F.load) := by
  rw [← WindVerif.RecFile.records_open F source]
  exact WindVerif.RecFile.records_run F P hmem ops _ (WindVerif.RecFile.inv_open F P source hsrc) hl hops

/-! ### the record variant of the inherited `remove` and `clear` (`Model/RecFileSeq.lean`, `Proofs/RecFileSeq.lean`) -/

/-- `f.remove(r)` when every position loads: the first record equal to `r` is removed — the position, whatever text it
holds —, `ValueError` and no change when there is none -/
theorem rec_remove_spec {R : Type} [DecidableEq R] (F : Fmt R) (f : RecFile) (rs : List R)
    (hrs : f.records F = rs.map some) (r : R) :
    (r ∈ rs → ∃ f', f.removeRec F r = .ok f' ∧ f'.records F = (rs.erase r).map some ∧ f'.source = f.source ∧
      f'.slots = f.slots.eraseIdx (rs.idxOf r)) ∧
    (r ∉ rs → f.removeRec F r = .error .valueError) := by
  first | exact WindVerif.RecFile.removeRec_spec .. | (apply WindVerif.RecFile.removeRec_spec <;> assumption)

/-- `f.clear()` when every position loads: nothing is left, nothing is raised, the source is as before -/
theorem rec_clear_spec {R : Type} (F : Fmt R) (f : RecFile) (rs : List R) (hrs : f.records F = rs.map some) :
    f.clearRec F = (⟨f.source, []⟩, none) := by
  first | exact WindVerif.RecFile.clearRec_spec .. | (apply WindVerif.RecFile.clearRec_spec <;> assumption)

/-- `clear()` on ANY record file pops from the end as long as the last position loads (`pop` loads what it removes): with
`_lines = pre ++ suf`, every position of `suf` loading and `pre` empty or ending in a position that does not load, `pre`
stays — and the exception of `load` for its last position is raised unless `pre` is empty -/
theorem rec_clear_general {R : Type} (F : Fmt R) (fuel : Nat) (f : RecFile) (pre suf : List Slot)
    (hs : f.slots = pre ++ suf) (hsuf : ∀ s ∈ suf, ∃ x, F.load (f.raw s) = some x)
    (hpre : pre = [] ∨ ∃ init last, pre = init ++ [last] ∧ F.load (f.raw last) = none)
    (hf : pre.length + suf.length < fuel) :
    f.clearGo F fuel = (⟨f.source, pre⟩, if pre = [] then none else some .loadError) := by
  first | exact WindVerif.RecFile.clearGo_spec .. | (apply WindVerif.RecFile.clearGo_spec <;> assumption)

/-- the fuel of the `clear` loop suffices on every record file -/
theorem rec_clearGo_fuel {R : Type} (F : Fmt R) (fuel : Nat) (f : RecFile) (h : f.slots.length < fuel) :
    f.clearGo F fuel = f.clearGo F (f.slots.length + 1) := by
  first | exact WindVerif.RecFile.clearGo_fuel .. | (apply WindVerif.RecFile.clearGo_fuel <;> assumption)

/-- LIST SEMANTICS with `remove` and `clear` (`Op2` = the operations of `Op`, `remove r`, `clear`): the presented record
list after an operation is the Python list operation applied to the presented list before (`list.remove` deletes the first
equal element; when it raises `ValueError` the list — and the file — stay as they are) -/
theorem records_list_semantics2 {R : Type} [DecidableEq R] (F : Fmt R) (P : R → Prop) (hmem : F.OkMem P) (f : RecFile)
    (hf : Inv F P f) (hl : Loads F P f.source) (op : Op2 R) (hop : ∀ r ∈ op.recs, P r) :
    (f.step2 F op).records F = op.onList (f.records F) := by
  first | exact WindVerif.RecFile.records_list_semantics2 .. | (apply WindVerif.RecFile.records_list_semantics2 <;> assumption)

/-- … for every history, starting from the freshly opened file -/
theorem records_history2 {R : Type} [DecidableEq R] (F : Fmt R) (P : R → Prop) (hmem : F.OkMem P)
    (source : List RecFile.Str) (hsrc : ∀ l ∈ source, '\n' ∉ l) (hl : Loads F P source) (ops : List (Op2 R))
    (hops : ∀ op ∈ ops, ∀ r ∈ op.recs, P r) :
    ((RecFile.open source).run2 F ops).records F = ops.foldl (fun l op => op.onList l) (source.map F.load) := by
  rw [← WindVerif.RecFile.records_open F source]
  exact WindVerif.RecFile.records_run2 F P hmem ops _ (WindVerif.RecFile.inv_open F P source hsrc) hl hops

/-- non-vacuity: `remove` of a record whose first occurrence is a needlessly quoted source line, then `clear` of a file
whose position 1 does not load (one field only): the positions behind it are popped, it stays and `load` raises -/
example :
    let F := csvFmt ',' 2
    let f := (RecFile.open ["x,y".toList, "\"a\",\"b\"".toList, "a,b".toList])
    (f.removeRec F ["a".toList, "b".toList]).toOption.map (·.slots) = some [.src 0, .src 2] ∧
    f.records F = [["x".toList, "y".toList], ["a".toList, "b".toList], ["a".toList, "b".toList]].map some ∧
    f.clearRec F = (⟨f.source, []⟩, none) ∧
    (RecFile.open ["x,y".toList, "lonely".toList, "a,b".toList]).clearRec F =
      (⟨["x,y".toList, "lonely".toList, "a,b".toList], [.src 0, .src 1]⟩, some .loadError) := by
  decide

/-- non-vacuity: a csv file of three lines (one field needlessly quoted), `f[1] = …`, `insert(0, …)`, `reverse()`:
the stored slots, the presented records and the saved text -/
example :
    let F := csvFmt ',' 2
    let f := (RecFile.open ["a,\"b\"".toList, "c,d".toList, "e,\"f,g\"".toList]).run F
      [.set 1 ["x".toList, "y,z".toList], .insert 0 ["i".toList, []], .reverse]
    f.slots = [.txt "e,\"f,g\"\r\n".toList, .txt "x,\"y,z\"\r\n".toList, .txt "a,b\r\n".toList, .txt "i,\r\n".toList] ∧
    f.records F = [some ["e".toList, "f,g".toList], some ["x".toList, "y,z".toList], some ["a".toList, "b".toList],
      some ["i".toList, []]] ∧
    f.saveText ['\n'] = "e,\"f,g\"\r\nx,\"y,z\"\r\na,b\r\ni,\r\n".toList := by
  decide

/-- an untouched line is copied verbatim (the needless quotes stay), an edited one is re-serialised -/
example :
    let F := csvFmt ',' 2
    let f := (RecFile.open ["a,\"b\"".toList, "c,d".toList]).run F [.set 1 ["x".toList, "y".toList]]
    f.saveText ['\n'] = "a,\"b\"\nx,y\r\n".toList := by
  decide

/-- the hypotheses of `save_untouched` / `save_edited` / `rec_reverse_spec` on that file: position 0 still points to source
line 0, which carries no line break; `f[-1] = …` succeeds at position 1; every position loads and survives `save` + `load` -/
example :
    let F := csvFmt ',' 2
    let f := RecFile.open ["a,\"b\"".toList, "c,d".toList]
    f.slots[0]? = some (.src 0) ∧ f.source[0]? = some "a,\"b\"".toList ∧ '\n' ∉ "a,\"b\"".toList ∧
    Py.index f.slots.length (-1) = some 1 ∧
    (f.setRec F (-1) ["x".toList, "y".toList]).toOption = some ⟨f.source, [.src 0, .txt "x,y\r\n".toList]⟩ ∧
    f.records F = [["a".toList, "b".toList], ["c".toList, "d".toList]].map some ∧
    (∀ r ∈ [["a".toList, "b".toList], ["c".toList, "d".toList]], F.load (F.save r) = some r) := by
  decide

end WindVerif.C12

/-! ### every line ending, the empty one included (proofs in `Proofs/SaveEndings.lean`, corollaries of `save_spec`) -/
namespace WindVerif.C12
open WindVerif.LineFile

/-- with the empty ending the saved text is the concatenation of the lines (each without trailing line breaks) -/
theorem save_empty_ending (f : LF) (ls : List Str) (h : Good f ls) (hc : f.closed = false) :
    ∃ f', f.save [] = .ok (f', (ls.map rstripNL).flatten) ∧ SameButCursor f f' := by
  first | exact WindVerif.LineFile.save_empty_ending .. | (apply WindVerif.LineFile.save_empty_ending <;> assumption)

/-- … for lines that carry no line break it is the plain concatenation -/
theorem save_empty_ending_nonl (f : LF) (ls : List Str) (h : Good f ls) (hc : f.closed = false)
    (hnl : ∀ l ∈ ls, '\n' ∉ l) :
    ∃ f', f.save [] = .ok (f', ls.flatten) ∧ SameButCursor f f' := by
  first | exact WindVerif.LineFile.save_empty_ending_nonl .. | (apply WindVerif.LineFile.save_empty_ending_nonl <;> assumption)

/-- the saved text has the sum of the line lengths plus `n` times the length of the ending — in characters and in bytes
(utf-8) -/
theorem save_ending_length (f : LF) (ls : List Str) (h : Good f ls) (hc : f.closed = false) (le : Str) :
    ∃ f' out, f.save le = .ok (f', out) ∧
      out.length = (ls.map (fun l => (rstripNL l).length)).sum + ls.length * le.length ∧
      byteLen out = (ls.map (fun l => byteLen (rstripNL l))).sum + ls.length * byteLen le := by
  first | exact WindVerif.LineFile.save_ending_length .. | (apply WindVerif.LineFile.save_ending_length <;> assumption)

/-- the seeded variant (`line_ending = line_ending or "\n"`) agrees with `save` for every non-empty ending … -/
theorem saveOrDefault_nonempty (f : LF) (le : Str) (hne : le ≠ []) : f.saveOrDefault le = f.save le := by
  first | exact WindVerif.LineFile.saveOrDefault_nonempty .. | (apply WindVerif.LineFile.saveOrDefault_nonempty <;> assumption)

/-- … and differs on the empty one: lines `a`, `b` are saved as `ab`, the variant writes `a\nb\n` -/
theorem save_or_default_wrong :
    let f := (LF.new "a\nb\n".toList (some [0, 2])).open
    (f.save []).toOption.map (·.2) = some "ab".toList ∧
    (f.saveOrDefault []).toOption.map (·.2) = some "a\nb\n".toList ∧
    (f.save []).toOption.map (·.2) ≠ (f.saveOrDefault []).toOption.map (·.2) := by
  first | exact WindVerif.LineFile.save_or_default_wrong .. | (apply WindVerif.LineFile.save_or_default_wrong <;> assumption)

/-- non-vacuity: the file of the witness is opened and presents the lines `a`, `b` (no line breaks in them); with a
two-character ending and a non-ASCII line the saved text and its two lengths -/
example : Good (LF.new "a\nb\n".toList (some [0, 2])).open ["a".toList, "b".toList] ∧
    (LF.new "a\nb\n".toList (some [0, 2])).open.closed = false ∧ (∀ l ∈ ["a".toList, "b".toList], '\n' ∉ l) :=
  ⟨WindVerif.LineFile.save_or_default_witness_good.1, WindVerif.LineFile.save_or_default_witness_good.2, by decide⟩
example :
    let f := ((LF.new "a\nb\n".toList (some [0, 2])).open).insert 1 "é".toList
    (f.save "\r\n".toList).toOption.map (fun r => (r.2, r.2.length, byteLen r.2)) = some ("a\r\né\r\nb\r\n".toList, 9, 10) := by
  decide

end WindVerif.C12
