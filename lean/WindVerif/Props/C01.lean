import WindVerif.Proofs.PoolSafe
import WindVerif.Proofs.PoolData
/-!
# C01 — Ordered imap returns exactly map(f, data), once each, in input order

Property theorems only (proofs in `Proofs/PoolSafe*.lean`, `Proofs/PoolData.lean`) about the interleaving model
`Model/Pool.lean` of `FunctorPool` / `FactoryFunctorPool`: for every configuration (workers, chunk counts, queue bounds, plain
or factory with quotas, any list of calls) without injected faults and **every interleaving** of consumer, feeding thread,
replace thread and workers (`Reach cfg s`).  The pool model moves chunk *indices*; `yielded_ordered` / `yielded_unordered`
turn "the chunk indices were emitted as `0 … n-1`" (resp. a permutation) into "the caller received `map f data`" (resp.
the same multiset with the order inside each chunk kept).
-/
namespace WindVerif.C01
open WindVerif.Pool

theorem cfg_const (cfg : Cfg) (s : St) (h : Reach cfg s) : s.cfg = cfg := by
  first | exact WindVerif.Pool.cfg_const .. | (apply WindVerif.Pool.cfg_const <;> assumption)

theorem safe_init (cfg : Cfg) : SafeInv (init cfg) := by
  first | exact WindVerif.Pool.safe_init .. | (apply WindVerif.Pool.safe_init <;> assumption)

/-- the invariant is preserved by every step of every thread -/
theorem safe_step (s s' : St) (t : Tid) (hf : NoFaults s.cfg) (h : SafeInv s) (hs : step s t = some s') : SafeInv s' := by
  first | exact WindVerif.Pool.safe_step .. | (apply WindVerif.Pool.safe_step <;> assumption)

theorem safe_reach (cfg : Cfg) (hf : NoFaults cfg) (s : St) (h : Reach cfg s) : SafeInv s := by
  first | exact WindVerif.Pool.safe_reach .. | (apply WindVerif.Pool.safe_reach <;> assumption)

/-- ordered `imap`: at every moment, under every interleaving, the chunks emitted so far are `0, 1, …, m-1` in this order:
nothing lost, duplicated, reordered or invented -/
theorem imap_prefix (cfg : Cfg) (hf : NoFaults cfg) (s : St) (h : Reach cfg s) (c : Call) (hc : s.cur = some c)
    (ho : c.ordered = true) : curOut s = List.range (curOut s).length ∧ (curOut s).length ≤ c.chunks := by
  first | exact WindVerif.Pool.imap_prefix .. | (apply WindVerif.Pool.imap_prefix <;> assumption)

/-- `imap_unordered`: every emitted chunk is a chunk of the input and no chunk is emitted twice -/
theorem imap_unordered_nodup (cfg : Cfg) (hf : NoFaults cfg) (s : St) (h : Reach cfg s) (c : Call) (hc : s.cur = some c) :
    (curOut s).Nodup ∧ ∀ i ∈ curOut s, i < c.chunks := by
  first | exact WindVerif.Pool.imap_unordered_nodup .. | (apply WindVerif.Pool.imap_unordered_nodup <;> assumption)

/-- when the consumer has left the result loop of a call, every chunk has been emitted exactly once (ordered: in input
order) and no result chunk, work item or held chunk is left anywhere (wake-up tokens may remain) -/
theorem imap_result (cfg : Cfg) (hf : NoFaults cfg) (s : St) (h : Reach cfg s) (c : Call) (hc : s.cur = some c)
    (hp : postLoop s = true) :
    (curOut s).Perm (List.range c.chunks) ∧ (c.ordered = true → curOut s = List.range c.chunks) ∧
    chunksOf s.resQ = [] ∧ chunksOf s.workQ = [] ∧ heldChunks s = [] ∧ s.buffer = [] := by
  first | exact WindVerif.Pool.imap_result .. | (apply WindVerif.Pool.imap_result <;> assumption)

theorem chunking_flatten {α} (data : List α) (k : Nat) (hk : 0 < k) : (chunking data k).flatten = data := by
  first | exact WindVerif.Pool.chunking_flatten .. | (apply WindVerif.Pool.chunking_flatten <;> assumption)

/-- all chunks have `k` elements except possibly a shorter, non-empty last one; their number is ⌈n/k⌉ -/
theorem chunking_sizes {α} (data : List α) (k : Nat) (hk : 0 < k) :
    (chunking data k).length = (data.length + k - 1) / k ∧
    ∀ i ch, (chunking data k)[i]? = some ch →
      0 < ch.length ∧ ch.length ≤ k ∧ (i + 1 < (chunking data k).length → ch.length = k) := by
  first | exact WindVerif.Pool.chunking_sizes .. | (apply WindVerif.Pool.chunking_sizes <;> assumption)

/-- chunks emitted in input order: the caller receives exactly `map f data` -/
theorem yielded_ordered {α β} (f : α → β) (data : List α) (k : Nat) (hk : 0 < k) :
    yielded f data k (List.range (chunking data k).length) = data.map f := by
  first | exact WindVerif.Pool.yielded_ordered .. | (apply WindVerif.Pool.yielded_ordered <;> assumption)

/-- chunks emitted in any order, each once: the same multiset of results, order inside each chunk kept -/
theorem yielded_unordered {α β} (f : α → β) (data : List α) (k : Nat) (hk : 0 < k) (order : List Nat)
    (hp : order.Perm (List.range (chunking data k).length)) :
    (yielded f data k order).Perm (data.map f) ∧
    yielded f data k order = (order.map (fun i => (((chunking data k)[i]?).getD []).map f)).flatten := by
  first | exact WindVerif.Pool.yielded_unordered .. | (apply WindVerif.Pool.yielded_unordered <;> assumption)

/-- the property at the level of values: when the consumer of an ordered `imap` over `data` (cut into chunks of `k`) has
left the result loop — in any reachable state of any configuration, i.e. under every interleaving — what the caller
received is exactly `data.map f`; for `imap_unordered` it is a permutation of `data.map f` with the order inside each chunk
kept -/
theorem imap_values {α β} (f : α → β) (data : List α) (k : Nat) (hk : 0 < k)
    (cfg : Cfg) (hf : NoFaults cfg) (s : St) (h : Reach cfg s) (c : Call) (hc : s.cur = some c)
    (hp : postLoop s = true) (hchunks : c.chunks = (chunking data k).length) :
    (c.ordered = true → yielded f data k (curOut s) = data.map f) ∧
    (yielded f data k (curOut s)).Perm (data.map f) := by
  have hres := WindVerif.Pool.imap_result cfg hf s h c hc hp
  refine ⟨?_, ?_⟩
  · intro ho
    rw [hres.2.1 ho, hchunks]
    exact WindVerif.Pool.yielded_ordered f data k hk
  · have hperm : (curOut s).Perm (List.range (chunking data k).length) := hchunks ▸ hres.1
    exact (WindVerif.Pool.yielded_unordered f data k hk (curOut s) hperm).1

/-- non-vacuity: the consumer-first schedule that exposed D15 on the unrepaired code reaches the loop with the flags set -/
example : ((run (init ⟨1, none, none, false, none, false, [⟨1, true⟩], [], [], false, false⟩) [.c, .c, .c, .c, .c, .c]).map
    (fun s => (s.sending, s.dataCnt, s.cpc))) = some (true, 0, .qsize1) := by decide
example : NoFaults ⟨1, none, none, false, none, false, [⟨1, true⟩], [], [], false, false⟩ := by unfold NoFaults; decide

end WindVerif.C01
