import WindVerif.Proofs.Sorted
import WindVerif.Proofs.SortedCopy
import WindVerif.Proofs.SortedMixins
import WindVerif.Proofs.SortedPartial
/-!
# C09 — SortedSet / SortedMap stay sorted, duplicate-free and equivalent to set / dict

Property theorems only (proofs in `Proofs/Sorted.lean`).  `Strict` = strictly ascending.  For the set, the content after
each operation is characterised by membership (`y ∈ setAdd s v ↔ y = v ∨ y ∈ s`, …), which together with `Strict` and
`strict_unique` determines the list — i.e. iteration equals the sorted elements of the builtin set driven by the same
operations.  For the map, `mapLookup` is the dict it stands for.  A foreign probe (a value whose comparison with a
number raises `TypeError`) is reported absent by pure functions of the state, so nothing can be corrupted.
-/
namespace WindVerif.C09
open WindVerif.Sorted

/-- two strictly ascending lists with the same elements are the same list: the iteration order of a sorted set is
determined by its content -/
theorem strict_unique (a b : List Int) (ha : Strict a) (hb : Strict b) (h : ∀ y, y ∈ a ↔ y ∈ b) : a = b := by
  first | exact WindVerif.Sorted.strict_unique .. | (apply WindVerif.Sorted.strict_unique <;> assumption)

/-- on a strictly ascending list the real `bisect_left` loop returns the number of smaller elements -/
theorem bisect_exact (a : List Int) (x : Int) (h : Strict a) :
    bisectLeftNum a x = (a.filter (· < x)).length := by
  first | exact WindVerif.Sorted.bisect_exact .. | (apply WindVerif.Sorted.bisect_exact <;> assumption)

theorem insertionsIndex_num (a : List Int) (x : Int) (h : Strict a) :
    insertionsIndex a (.num x) = .ok ((a.filter (· < x)).length, decide (x ∈ a)) := by
  first | exact WindVerif.Sorted.insertionsIndex_num .. | (apply WindVerif.Sorted.insertionsIndex_num <;> assumption)

theorem setInit_strict (vals : List Int) : Strict (setInit vals) := by
  first | exact WindVerif.Sorted.setInit_strict .. | (apply WindVerif.Sorted.setInit_strict <;> assumption)

theorem setInit_mem (vals : List Int) (y : Int) : y ∈ setInit vals ↔ y ∈ vals := by
  first | exact WindVerif.Sorted.setInit_mem .. | (apply WindVerif.Sorted.setInit_mem <;> assumption)

theorem setAdd_strict (s : List Int) (v : Int) (h : Strict s) : Strict (setAdd s v) := by
  first | exact WindVerif.Sorted.setAdd_strict .. | (apply WindVerif.Sorted.setAdd_strict <;> assumption)

theorem setAdd_mem (s : List Int) (v y : Int) (h : Strict s) : y ∈ setAdd s v ↔ (y = v ∨ y ∈ s) := by
  first | exact WindVerif.Sorted.setAdd_mem .. | (apply WindVerif.Sorted.setAdd_mem <;> assumption)

theorem setDiscard_strict (s : List Int) (v : Int) (h : Strict s) : Strict (setDiscard s v) := by
  first | exact WindVerif.Sorted.setDiscard_strict .. | (apply WindVerif.Sorted.setDiscard_strict <;> assumption)

theorem setDiscard_mem (s : List Int) (v y : Int) (h : Strict s) : y ∈ setDiscard s v ↔ (y ≠ v ∧ y ∈ s) := by
  first | exact WindVerif.Sorted.setDiscard_mem .. | (apply WindVerif.Sorted.setDiscard_mem <;> assumption)

theorem setContains_num (s : List Int) (v : Int) (h : Strict s) : setContains s (.num v) = decide (v ∈ s) := by
  first | exact WindVerif.Sorted.setContains_num .. | (apply WindVerif.Sorted.setContains_num <;> assumption)

/-- a probe that cannot be ordered against the content is reported absent (and nothing is modified: `setContains` is a
pure function of the content) -/
theorem setContains_foreign (s : List Int) : setContains s .foreign = false := by
  first | exact WindVerif.Sorted.setContains_foreign .. | (apply WindVerif.Sorted.setContains_foreign <;> assumption)

theorem setRemove_spec (s : List Int) (v : Int) (h : Strict s) :
    (v ∈ s → setRemove s v = .ok (setDiscard s v)) ∧ (v ∉ s → setRemove s v = .error .keyError) := by
  first | exact WindVerif.Sorted.setRemove_spec .. | (apply WindVerif.Sorted.setRemove_spec <;> assumption)

theorem setPop_spec (s : List Int) (h : Strict s) :
    match s with
    | [] => setPop s = .error .keyError
    | v :: r => setPop s = .ok (r, v) := by
  first | exact WindVerif.Sorted.setPop_spec .. | (apply WindVerif.Sorted.setPop_spec <;> assumption)

theorem setClear_spec (s : List Int) (h : Strict s) : setClear (s.length + 1) s = [] := by
  first | exact WindVerif.Sorted.setClear_spec .. | (apply WindVerif.Sorted.setClear_spec <;> assumption)

theorem mapInit_wf (pairs : List (Int × Nat)) : MapWf (mapInit pairs) := by
  first | exact WindVerif.Sorted.mapInit_wf .. | (apply WindVerif.Sorted.mapInit_wf <;> assumption)

/-- initial pairs behave like `dict(pairs)`: the last pair of a key wins -/
theorem mapInit_lookup (pairs : List (Int × Nat)) (k : Int) :
    mapLookup (mapInit pairs) k = pairs.reverse.lookup k := by
  first | exact WindVerif.Sorted.mapInit_lookup .. | (apply WindVerif.Sorted.mapInit_lookup <;> assumption)

theorem mapGet_num (m : SMap) (k : Int) (h : MapWf m) :
    mapGet m (.num k) = (match mapLookup m k with | some v => .ok v | none => .error .keyError) := by
  first | exact WindVerif.Sorted.mapGet_num .. | (apply WindVerif.Sorted.mapGet_num <;> assumption)

theorem mapGet_foreign (m : SMap) : mapGet m .foreign = .error .keyError := by
  first | exact WindVerif.Sorted.mapGet_foreign .. | (apply WindVerif.Sorted.mapGet_foreign <;> assumption)

theorem mapContains_num (m : SMap) (k : Int) (h : MapWf m) : mapContains m (.num k) = (mapLookup m k).isSome := by
  first | exact WindVerif.Sorted.mapContains_num .. | (apply WindVerif.Sorted.mapContains_num <;> assumption)

theorem mapContains_foreign (m : SMap) : mapContains m .foreign = false := by
  first | exact WindVerif.Sorted.mapContains_foreign .. | (apply WindVerif.Sorted.mapContains_foreign <;> assumption)

theorem mapDel_foreign (m : SMap) : mapDel m .foreign = .error .keyError := by
  first | exact WindVerif.Sorted.mapDel_foreign .. | (apply WindVerif.Sorted.mapDel_foreign <;> assumption)

theorem mapPop_foreign (m : SMap) : mapPop m .foreign = .error .keyError := by
  first | exact WindVerif.Sorted.mapPop_foreign .. | (apply WindVerif.Sorted.mapPop_foreign <;> assumption)

theorem mapSet_wf (m : SMap) (k : Int) (v : Nat) (h : MapWf m) : MapWf (mapSet m k v) := by
  first | exact WindVerif.Sorted.mapSet_wf .. | (apply WindVerif.Sorted.mapSet_wf <;> assumption)

theorem mapSet_lookup (m : SMap) (k k' : Int) (v : Nat) (h : MapWf m) :
    mapLookup (mapSet m k v) k' = if k' = k then some v else mapLookup m k' := by
  first | exact WindVerif.Sorted.mapSet_lookup .. | (apply WindVerif.Sorted.mapSet_lookup <;> assumption)

theorem mapDel_spec (m : SMap) (k : Int) (h : MapWf m) :
    match mapLookup m k with
    | some _ => ∃ m', mapDel m (.num k) = .ok m' ∧ MapWf m' ∧
        ∀ k', mapLookup m' k' = if k' = k then none else mapLookup m k'
    | none => mapDel m (.num k) = .error .keyError := by
  first | exact WindVerif.Sorted.mapDel_spec .. | (apply WindVerif.Sorted.mapDel_spec <;> assumption)

theorem mapPop_spec (m : SMap) (k : Int) (h : MapWf m) :
    match mapLookup m k with
    | some v => ∃ m', mapPop m (.num k) = .ok (m', v) ∧ mapDel m (.num k) = .ok m'
    | none => mapPop m (.num k) = .error .keyError := by
  first | exact WindVerif.Sorted.mapPop_spec .. | (apply WindVerif.Sorted.mapPop_spec <;> assumption)

/-- `popitem` removes the smallest key -/
theorem mapPopitem_spec (m : SMap) (h : MapWf m) :
    match m.keys, m.vals with
    | k :: ks, v :: vs => mapPopitem m = .ok (⟨ks, vs⟩, k, v)
    | _, _ => mapPopitem m = .error .keyError := by
  first | exact WindVerif.Sorted.mapPopitem_spec .. | (apply WindVerif.Sorted.mapPopitem_spec <;> assumption)

theorem mapSetdefault_spec (m : SMap) (k : Int) (v : Nat) (h : MapWf m) :
    match mapLookup m k with
    | some w => mapSetdefault m k v = (m, w)
    | none => mapSetdefault m k v = (mapSet m k v, v) := by
  first | exact WindVerif.Sorted.mapSetdefault_spec .. | (apply WindVerif.Sorted.mapSetdefault_spec <;> assumption)

theorem mapUpdate_wf (m : SMap) (ps : List (Int × Nat)) (h : MapWf m) : MapWf (mapUpdate m ps) := by
  first | exact WindVerif.Sorted.mapUpdate_wf .. | (apply WindVerif.Sorted.mapUpdate_wf <;> assumption)

theorem mapUpdate_lookup (m : SMap) (ps : List (Int × Nat)) (k : Int) (h : MapWf m) :
    mapLookup (mapUpdate m ps) k = (match ps.reverse.lookup k with | some v => some v | none => mapLookup m k) := by
  first | exact WindVerif.Sorted.mapUpdate_lookup .. | (apply WindVerif.Sorted.mapUpdate_lookup <;> assumption)

/-- iteration lists the items in strictly ascending key order -/
theorem mapItems_spec (m : SMap) (h : MapWf m) :
    (mapItems m).map (·.1) = m.keys ∧ (mapItems m).map (·.2) = m.vals ∧ Strict ((mapItems m).map (·.1)) := by
  first | exact WindVerif.Sorted.mapItems_spec .. | (apply WindVerif.Sorted.mapItems_spec <;> assumption)

/-- every history of set operations keeps the list strictly ascending -/
inductive SetOp | add (v : Int) | discard (v : Int) | pop | clear

def applySetOp (s : List Int) : SetOp → List Int
  | .add v => setAdd s v
  | .discard v => setDiscard s v
  | .pop => match setPop s with | .ok (s', _) => s' | .error _ => s
  | .clear => setClear (s.length + 1) s

theorem set_history_strict (init : List Int) (ops : List SetOp) :
    Strict (ops.foldl applySetOp (setInit init)) := by
  suffices h : ∀ s, Strict s → Strict (ops.foldl applySetOp s) from h _ (WindVerif.Sorted.setInit_strict init)
  induction ops with
  | nil => intro s hs; exact hs
  | cons op ops ih =>
    intro s hs
    apply ih
    cases op with
    | add v => exact WindVerif.Sorted.setAdd_strict s v hs
    | discard v => exact WindVerif.Sorted.setDiscard_strict s v hs
    | pop =>
      have := WindVerif.Sorted.setPop_spec s hs
      cases s with
      | nil => simp [applySetOp, setPop]; exact hs
      | cons v r =>
        simp only at this
        simp only [applySetOp, this]
        exact (List.pairwise_cons.mp hs).2
    | clear =>
      simp only [applySetOp, WindVerif.Sorted.setClear_spec s hs]
      exact List.Pairwise.nil

/-- non-vacuity: concrete states meet the hypotheses -/
example : setAdd [1, 3] 2 = [1, 2, 3] ∧ setContains [1, 3] .foreign = false ∧ setDiscard [1, 2, 3] 2 = [1, 3] := by decide
example : Strict [1, 3] := by simp [Strict]
example : MapWf ⟨[1, 2], [7, 6]⟩ := by simp [MapWf, Strict]
example : mapLookup (mapInit [(1, 5), (2, 6), (1, 7)]) 1 = some 7 := by
  rw [WindVerif.Sorted.mapInit_lookup]; decide

/-! ### Copy-construction: `SortedSet(another sorted set)` / `SortedMap(another sorted map)` -/

/-- constructing a sorted set from the content of a sorted set gives that content again -/
theorem setInit_of_strict (s : List Int) (h : Strict s) : setInit s = s := by
  first | exact WindVerif.Sorted.setInit_of_strict .. | (apply WindVerif.Sorted.setInit_of_strict <;> assumption)

/-- constructing a sorted map from a well-formed sorted map (through `dict(m)`, i.e. its items) gives that map again -/
theorem mapInit_items (m : SMap) (h : MapWf m) : mapInit (mapItems m) = m := by
  first | exact WindVerif.Sorted.mapInit_items .. | (apply WindVerif.Sorted.mapInit_items <;> assumption)

/-- non-vacuity: a copy of the map built from unsorted pairs with a repeated key -/
example : mapInit (mapItems (mapInit [(5, 1), (2, 7), (5, 3)])) = mapInit [(5, 1), (2, 7), (5, 3)] :=
  mapInit_items _ (mapInit_wf _)

example : Strict (setInit [3, 1, 3, 2]) ∧ setInit (setInit [3, 1, 3, 2]) = setInit [3, 1, 3, 2] :=
  ⟨setInit_strict _, setInit_of_strict _ (setInit_strict _)⟩

/-! ### The inherited `collections.abc` interface (`Mapping` / `MutableMapping`, the views, `Set` / `MutableSet`)

Models in `Model/SortedMixins.lean` (the mixin methods as CPython 3.12 `_collections_abc.py` writes them, on top of the
primitive operations), proofs in `Proofs/SortedMixins.lean`.  The other operand of a set operation is a builtin set, given
as the duplicate-free list of its elements in its iteration order. -/

/-- `get(key, default)` is the dict lookup, or the default; the default for a foreign-typed key -/
theorem mapGetD_spec (m : SMap) (d : Nat) (h : MapWf m) :
    (∀ k, mapGetD m (.num k) d = (mapLookup m k).getD d) ∧ mapGetD m .foreign d = d := by
  first | exact WindVerif.Sorted.mapGetD_spec .. | (apply WindVerif.Sorted.mapGetD_spec <;> assumption)

/-- `pop(key, default)` of an absent key (also of a foreign-typed one): the state is unchanged, the default comes back -/
theorem mapPopD_absent (m : SMap) (d : Nat) (h : MapWf m) :
    (∀ k, mapLookup m k = none → mapPopD m (.num k) d = (m, d)) ∧ mapPopD m .foreign d = (m, d) := by
  first | exact WindVerif.Sorted.mapPopD_absent .. | (apply WindVerif.Sorted.mapPopD_absent <;> assumption)

/-- `pop(key, default)` of a present key is `del m[key]` and returns the value: the new state is well formed and stands for
the dict without the key -/
theorem mapPopD_present (m : SMap) (k : Int) (v d : Nat) (h : MapWf m) (hk : mapLookup m k = some v) :
    ∃ m', mapDel m (.num k) = .ok m' ∧ mapPopD m (.num k) d = (m', v) ∧ MapWf m' ∧
      ∀ k', mapLookup m' k' = if k' = k then none else mapLookup m k' := by
  first | exact WindVerif.Sorted.mapPopD_present .. | (apply WindVerif.Sorted.mapPopD_present <;> assumption)

/-- `key in m.keys()` -/
theorem mapKeysContains_iff (m : SMap) (h : MapWf m) :
    (∀ k, mapKeysContains m (.num k) = true ↔ (mapLookup m k).isSome = true) ∧
    mapKeysContains m .foreign = false := by
  first | exact WindVerif.Sorted.mapKeysContains_iff .. | (apply WindVerif.Sorted.mapKeysContains_iff <;> assumption)

/-- `(key, value) in m.items()` -/
theorem mapItemsContains_iff (m : SMap) (v : Nat) (h : MapWf m) :
    (∀ k, mapItemsContains m (.num k) v = true ↔ mapLookup m k = some v) ∧
    mapItemsContains m .foreign v = false := by
  first | exact WindVerif.Sorted.mapItemsContains_iff .. | (apply WindVerif.Sorted.mapItemsContains_iff <;> assumption)

/-- `value in m.values()` -/
theorem mapValuesContains_iff (m : SMap) (v : Nat) (h : MapWf m) :
    mapValuesContains m v = true ↔ ∃ k, mapLookup m k = some v := by
  first | exact WindVerif.Sorted.mapValuesContains_iff .. | (apply WindVerif.Sorted.mapValuesContains_iff <;> assumption)

/-- iterating the items view yields the items in key order -/
theorem mapIterItems_eq (m : SMap) (h : MapWf m) : mapIterItems m = mapItems m := by
  first | exact WindVerif.Sorted.mapIterItems_eq .. | (apply WindVerif.Sorted.mapIterItems_eq <;> assumption)

/-- `m == d` for a dict `d` (given by its items, distinct keys) holds exactly when both stand for the same finite map -/
theorem mapEq_iff (m : SMap) (other : List (Int × Nat)) (h : MapWf m) (ho : (other.map (·.1)).Nodup) :
    mapEq m other = true ↔ ∀ k, mapLookup m k = other.lookup k := by
  first | exact WindVerif.Sorted.mapEq_iff .. | (apply WindVerif.Sorted.mapEq_iff <;> assumption)

/-- `clear()` (a loop of `popitem`) empties the map; `len + 1` rounds of the loop suffice -/
theorem mapClear_spec (m : SMap) (h : MapWf m) :
    mapClear (m.keys.length + 1) m = ⟨[], []⟩ ∧ MapWf (mapClear (m.keys.length + 1) m) := by
  first | exact WindVerif.Sorted.mapClear_spec .. | (apply WindVerif.Sorted.mapClear_spec <;> assumption)

/-- in a well-formed state the only error `self[key]` can give is `KeyError` (the mixins catch nothing else) -/
theorem mapGet_error_wf (m : SMap) (p : Probe) (e : Err) (h : MapWf m) (he : mapGet m p = .error e) :
    e = .keyError := by
  first | exact WindVerif.Sorted.mapGet_error_wf .. | (apply WindVerif.Sorted.mapGet_error_wf <;> assumption)

/-- after `self[key]` succeeded, `del self[key]` succeeds (in any state) -/
theorem mapDel_ok_of_get_ok (m : SMap) (p : Probe) (v : Nat) (h : mapGet m p = .ok v) :
    ∃ m', mapDel m p = .ok m' := by
  first | exact WindVerif.Sorted.mapDel_ok_of_get_ok .. | (apply WindVerif.Sorted.mapDel_ok_of_get_ok <;> assumption)

/-- `s <= t` -/
theorem setLe_iff (s t : List Int) (h : Strict s) : setLe s t = true ↔ ∀ y, y ∈ s → y ∈ t := by
  first | exact WindVerif.Sorted.setLe_iff .. | (apply WindVerif.Sorted.setLe_iff <;> assumption)

/-- `s == t` -/
theorem setEq_iff (s t : List Int) (h : Strict s) (ht : t.Nodup) : setEq s t = true ↔ ∀ y, y ∈ s ↔ y ∈ t := by
  first | exact WindVerif.Sorted.setEq_iff .. | (apply WindVerif.Sorted.setEq_iff <;> assumption)

/-- `s.isdisjoint(t)` -/
theorem setIsDisjoint_iff (s t : List Int) (h : Strict s) :
    setIsDisjoint s t = true ↔ ∀ y, ¬ (y ∈ s ∧ y ∈ t) := by
  first | exact WindVerif.Sorted.setIsDisjoint_iff .. | (apply WindVerif.Sorted.setIsDisjoint_iff <;> assumption)

/-- `s & t` -/
theorem setAnd_spec (s t : List Int) (h : Strict s) :
    Strict (setAnd s t) ∧ ∀ y, y ∈ setAnd s t ↔ (y ∈ s ∧ y ∈ t) := by
  first | exact WindVerif.Sorted.setAnd_spec .. | (apply WindVerif.Sorted.setAnd_spec <;> assumption)

/-- `s | t` -/
theorem setOr_spec (s t : List Int) :
    Strict (setOr s t) ∧ ∀ y, y ∈ setOr s t ↔ (y ∈ s ∨ y ∈ t) := by
  first | exact WindVerif.Sorted.setOr_spec .. | (apply WindVerif.Sorted.setOr_spec <;> assumption)

/-- `s - t` -/
theorem setSub_spec (s t : List Int) :
    Strict (setSub s t) ∧ ∀ y, y ∈ setSub s t ↔ (y ∈ s ∧ y ∉ t) := by
  first | exact WindVerif.Sorted.setSub_spec .. | (apply WindVerif.Sorted.setSub_spec <;> assumption)

/-- `s ^ t` -/
theorem setXor_spec (s t : List Int) (h : Strict s) :
    Strict (setXor s t) ∧ ∀ y, y ∈ setXor s t ↔ ((y ∈ s ∧ y ∉ t) ∨ (y ∈ t ∧ y ∉ s)) := by
  first | exact WindVerif.Sorted.setXor_spec .. | (apply WindVerif.Sorted.setXor_spec <;> assumption)

/-- `s |= t` (element-wise `add`) -/
theorem setIor_spec (s t : List Int) (h : Strict s) :
    Strict (setIor s t) ∧ ∀ y, y ∈ setIor s t ↔ (y ∈ s ∨ y ∈ t) := by
  first | exact WindVerif.Sorted.setIor_spec .. | (apply WindVerif.Sorted.setIor_spec <;> assumption)

/-- `s &= t` (element-wise `discard` of `s - t`) -/
theorem setIand_spec (s t : List Int) (h : Strict s) :
    Strict (setIand s t) ∧ ∀ y, y ∈ setIand s t ↔ (y ∈ s ∧ y ∈ t) := by
  first | exact WindVerif.Sorted.setIand_spec .. | (apply WindVerif.Sorted.setIand_spec <;> assumption)

/-- `s -= t` (element-wise `discard`) -/
theorem setIsub_spec (s t : List Int) (h : Strict s) :
    Strict (setIsub s t) ∧ ∀ y, y ∈ setIsub s t ↔ (y ∈ s ∧ y ∉ t) := by
  first | exact WindVerif.Sorted.setIsub_spec .. | (apply WindVerif.Sorted.setIsub_spec <;> assumption)

/-- `s ^= t` (element-wise `discard` / `add`; the elements of a set come once) -/
theorem setIxor_spec (s t : List Int) (h : Strict s) (ht : t.Nodup) :
    Strict (setIxor s t) ∧ ∀ y, y ∈ setIxor s t ↔ ((y ∈ s ∧ y ∉ t) ∨ (y ∈ t ∧ y ∉ s)) := by
  first | exact WindVerif.Sorted.setIxor_spec .. | (apply WindVerif.Sorted.setIxor_spec <;> assumption)

/-- the in-place operators leave exactly the list the pure operator builds -/
theorem setIor_eq (s t : List Int) (h : Strict s) : setIor s t = setOr s t := by
  first | exact WindVerif.Sorted.setIor_eq .. | (apply WindVerif.Sorted.setIor_eq <;> assumption)

theorem setIand_eq (s t : List Int) (h : Strict s) : setIand s t = setAnd s t := by
  first | exact WindVerif.Sorted.setIand_eq .. | (apply WindVerif.Sorted.setIand_eq <;> assumption)

theorem setIsub_eq (s t : List Int) (h : Strict s) : setIsub s t = setSub s t := by
  first | exact WindVerif.Sorted.setIsub_eq .. | (apply WindVerif.Sorted.setIsub_eq <;> assumption)

theorem setIxor_eq (s t : List Int) (h : Strict s) (ht : t.Nodup) : setIxor s t = setXor s t := by
  first | exact WindVerif.Sorted.setIxor_eq .. | (apply WindVerif.Sorted.setIxor_eq <;> assumption)

/-- non-vacuity: concrete states meet the hypotheses, and the in-place operators computed on them -/
example : MapWf ⟨[1, 2, 5], [7, 6, 7]⟩ ∧ mapLookup ⟨[1, 2, 5], [7, 6, 7]⟩ 2 = some 6 ∧ mapLookup ⟨[1, 2, 5], [7, 6, 7]⟩ 3 = none := by
  refine ⟨by simp [MapWf, Strict], by decide, by decide⟩
example : mapGetD ⟨[1, 2, 5], [7, 6, 7]⟩ (.num 3) 9 = 9 ∧ mapGetD ⟨[1, 2, 5], [7, 6, 7]⟩ .foreign 9 = 9 ∧
    mapGetD ⟨[1, 2, 5], [7, 6, 7]⟩ (.num 2) 9 = 6 ∧ (mapPopD ⟨[1, 2, 5], [7, 6, 7]⟩ (.num 2) 9).2 = 6 ∧
    (mapPopD ⟨[1, 2, 5], [7, 6, 7]⟩ (.num 2) 9).1.keys = [1, 5] ∧ mapValuesContains ⟨[1, 2, 5], [7, 6, 7]⟩ 6 = true ∧
    mapItemsContains ⟨[1, 2, 5], [7, 6, 7]⟩ (.num 5) 7 = true ∧ (mapClear 4 ⟨[1, 2, 5], [7, 6, 7]⟩).keys = [] := by decide
example : ([(5, 7), (1, 7), (2, 6)].map (·.1)).Nodup ∧ dictEq [(1, 7), (2, 6), (5, 7)] [(5, 7), (1, 7), (2, 6)] = true := by decide
example : Strict [1, 3, 4] ∧ [4, 9, 3].Nodup := by refine ⟨by simp [Strict], by decide⟩
example : setLe [1, 3] [3, 4, 1] = true ∧ setEq [1, 3] [3, 1] = true ∧ setIsDisjoint [1, 3] [2, 4] = true ∧
    setIor [1, 3, 4] [4, 9, 3] = [1, 3, 4, 9] ∧ setIsub [1, 3, 4] [4, 9, 3] = [1] ∧ setIxor [1, 3, 4] [4, 9, 3] = [1, 9] := by decide
example : setIand [1, 3, 4] [4, 9, 3] = setAnd [1, 3, 4] [4, 9, 3] ∧ setIxor [1, 3, 4] [4, 9, 3] = setXor [1, 3, 4] [4, 9, 3] :=
  ⟨setIand_eq _ _ (by simp [Strict]), setIxor_eq _ _ (by simp [Strict]) (by decide)⟩

/-! ### bulk operations fed by a source that fails in the middle (proofs in `Proofs/SortedPartial.lean`)

`setIorPartial s xs k` / `mapUpdatePartial m ps k`: the state when the source of `s |= xs` / `m.update(ps)` raises after
having delivered `k` items — the inherited loops have called `add` / `__setitem__` for exactly these, one at a time. -/

theorem setIorPartial_zero (s xs : List Int) : setIorPartial s xs 0 = s := by
  first | exact WindVerif.Sorted.setIorPartial_zero .. | (apply WindVerif.Sorted.setIorPartial_zero <;> assumption)

/-- one at a time: the state after `k+1` items is the state after `k` items with `xs[k]` added -/
theorem setIorPartial_succ (s xs : List Int) (k : Nat) (hk : k < xs.length) :
    setIorPartial s xs (k + 1) = setAdd (setIorPartial s xs k) xs[k] := by
  first | exact WindVerif.Sorted.setIorPartial_succ .. | (apply WindVerif.Sorted.setIorPartial_succ <;> assumption)

/-- a source that does not fail: the whole `__ior__` -/
theorem setIorPartial_all (s xs : List Int) : setIorPartial s xs xs.length = setIor s xs := by
  first | exact WindVerif.Sorted.setIorPartial_all .. | (apply WindVerif.Sorted.setIorPartial_all <;> assumption)

/-- at every moment (every `k`; for `k ≥ len(xs)` the prefix is the whole source) the values are strictly ascending —
sorted and duplicate-free — and are exactly the old values plus the delivered prefix -/
theorem ior_prefix (s xs : List Int) (k : Nat) (h : Strict s) :
    Strict (setIorPartial s xs k) ∧ ∀ y, y ∈ setIorPartial s xs k ↔ (y ∈ s ∨ y ∈ xs.take k) := by
  first | exact WindVerif.Sorted.ior_prefix .. | (apply WindVerif.Sorted.ior_prefix <;> assumption)

theorem ior_prefix_nodup (s xs : List Int) (k : Nat) (h : Strict s) : (setIorPartial s xs k).Nodup := by
  first | exact WindVerif.Sorted.ior_prefix_nodup .. | (apply WindVerif.Sorted.ior_prefix_nodup <;> assumption)

/-- a delivered prefix of members changes nothing (what the harness feeds before the source raises) -/
theorem ior_existing_noop (s xs : List Int) (k : Nat) (h : Strict s) (hm : ∀ y ∈ xs.take k, y ∈ s) :
    setIorPartial s xs k = s := by
  first | exact WindVerif.Sorted.ior_existing_noop .. | (apply WindVerif.Sorted.ior_existing_noop <;> assumption)

theorem mapUpdatePartial_zero (m : SMap) (ps : List (Int × Nat)) : mapUpdatePartial m ps 0 = m := by
  first | exact WindVerif.Sorted.mapUpdatePartial_zero .. | (apply WindVerif.Sorted.mapUpdatePartial_zero <;> assumption)

/-- one at a time: the state after `k+1` pairs is the state after `k` pairs with `ps[k]` stored -/
theorem mapUpdatePartial_succ (m : SMap) (ps : List (Int × Nat)) (k : Nat) (hk : k < ps.length) :
    mapUpdatePartial m ps (k + 1) = mapSet (mapUpdatePartial m ps k) ps[k].1 ps[k].2 := by
  first | exact WindVerif.Sorted.mapUpdatePartial_succ .. | (apply WindVerif.Sorted.mapUpdatePartial_succ <;> assumption)

theorem mapUpdatePartial_all (m : SMap) (ps : List (Int × Nat)) : mapUpdatePartial m ps ps.length = mapUpdate m ps := by
  first | exact WindVerif.Sorted.mapUpdatePartial_all .. | (apply WindVerif.Sorted.mapUpdatePartial_all <;> assumption)

/-- at every moment the state is well formed (keys strictly ascending, one value per key) and stands for the old content
overridden by the delivered pairs in order (a later pair for the same key wins) -/
theorem update_prefix (m : SMap) (ps : List (Int × Nat)) (k : Nat) (h : MapWf m) :
    MapWf (mapUpdatePartial m ps k) ∧
    ∀ key, mapLookup (mapUpdatePartial m ps k) key =
      (match (ps.take k).reverse.lookup key with | some v => some v | none => mapLookup m key) := by
  first | exact WindVerif.Sorted.update_prefix .. | (apply WindVerif.Sorted.update_prefix <;> assumption)

/-- delivered pairs whose keys are present with exactly the stored values change nothing -/
theorem update_existing_noop (m : SMap) (ps : List (Int × Nat)) (k : Nat) (h : MapWf m)
    (hm : ∀ p ∈ ps.take k, mapLookup m p.1 = some p.2) : mapUpdatePartial m ps k = m := by
  first | exact WindVerif.Sorted.update_existing_noop .. | (apply WindVerif.Sorted.update_existing_noop <;> assumption)

/-- the seeded variant "extend the list with everything, then sort and de-duplicate" (`iorBulkPartial`: the values are
appended as they arrive, the failure of the source comes before the sort): values `[1,5,9]`, source `9,7,3,5` and then the
failure leave `[1,5,9,9,7,3,5]`, neither sorted nor duplicate-free, where the loop of `add` calls leaves `[1,3,5,7,9]` -/
theorem ior_bulk_wrong :
    Strict [1, 5, 9] ∧
    iorBulkPartial [1, 5, 9] [9, 7, 3, 5] 4 = [1, 5, 9, 9, 7, 3, 5] ∧
    ¬ Strict (iorBulkPartial [1, 5, 9] [9, 7, 3, 5] 4) ∧
    ¬ (iorBulkPartial [1, 5, 9] [9, 7, 3, 5] 4).Nodup ∧
    setIorPartial [1, 5, 9] [9, 7, 3, 5] 4 = [1, 3, 5, 7, 9] := by
  first | exact WindVerif.Sorted.ior_bulk_wrong .. | (apply WindVerif.Sorted.ior_bulk_wrong <;> assumption)

/-- already one delivered member shows the difference -/
theorem ior_bulk_wrong_member :
    iorBulkPartial [1, 5, 9] [5, 1] 1 = [1, 5, 9, 5] ∧ ¬ Strict (iorBulkPartial [1, 5, 9] [5, 1] 1) ∧
    setIorPartial [1, 5, 9] [5, 1] 1 = [1, 5, 9] := by
  first | exact WindVerif.Sorted.ior_bulk_wrong_member .. | (apply WindVerif.Sorted.ior_bulk_wrong_member <;> assumption)

/-- non-vacuity: a set and a source whose first two items are members (the third is not), a map and a source whose first
two pairs are stored as they are (the third is not); the states after 2 and after 3 items -/
example : Strict [1, 5, 9] ∧ (∀ y ∈ [5, 1, 7].take 2, y ∈ [1, 5, 9]) ∧
    setIorPartial [1, 5, 9] [5, 1, 7] 2 = [1, 5, 9] ∧ setIorPartial [1, 5, 9] [5, 1, 7] 3 = [1, 5, 7, 9] := by
  refine ⟨by simp [Strict], by decide, by decide, by decide⟩
example : MapWf ⟨[1, 2, 5], [7, 6, 7]⟩ ∧ (∀ p ∈ [(5, 7), (1, 7), (2, 8)].take 2, mapLookup ⟨[1, 2, 5], [7, 6, 7]⟩ p.1 = some p.2) ∧
    mapItems (mapUpdatePartial ⟨[1, 2, 5], [7, 6, 7]⟩ [(5, 7), (1, 7), (2, 8)] 2) = [(1, 7), (2, 6), (5, 7)] ∧
    mapItems (mapUpdatePartial ⟨[1, 2, 5], [7, 6, 7]⟩ [(5, 7), (1, 7), (2, 8), (3, 0)] 4) = [(1, 7), (2, 8), (3, 0), (5, 7)] := by
  refine ⟨by simp [MapWf, Strict], by decide, by decide, by decide⟩

end WindVerif.C09
