import WindVerif.Proofs.Storage
import WindVerif.Proofs.StorageSession
import WindVerif.Proofs.StorageSeq
/-!
# C14 — TextFileStorage: what is stored under an id is what any process reads back

Property theorems only (proofs in `Proofs/Storage*.lean`) about the interleaving model `Model/Storage.lean`: any number of
processes with their own copy of the storage object, arbitrary scripts of store / read / len / is_contiguous / iterate /
close operations (`close` = `close()` or leaving the `with storage:` block; the process goes on, its next store re-opens its
file in append mode, read handles are re-opened on demand) (`NoFlush`: `flush()` is a separate theorem, it requires
everybody else to be done), pre-sized index or not, and
**every interleaving** of their visible operations (`Reach presize scripts s`).  `resultOf scripts s i k` is the k-th
operation of process `i` together with its result once it has one.
-/
namespace WindVerif.C14
open WindVerif.Storage

/-- published ⇒ durable, under every interleaving of any number of writers and readers: an index entry always points at a
complete line (text and terminator) in an existing file -/
theorem published_durable (presize : Nat) (scripts : List (List Op)) (hnf : NoFlush scripts) (s : St)
    (hr : Reach presize scripts s) (g : Nat) (l : List (Option Nat)) (h : entryLine s g = some l) :
    ∃ t, l = [some t, none] := by
  first | exact WindVerif.Storage.published_durable .. | (apply WindVerif.Storage.published_durable <;> assumption)

/-- an index entry, once published, never changes, and neither does the line it points at (files are append-only) -/
theorem published_stable (presize : Nat) (scripts : List (List Op)) (hnf : NoFlush scripts) (s : St)
    (hr : Reach presize scripts s) (sched : List Nat) (s' : St) (hs : run s sched = some s') (g : Nat)
    (l : List (Option Nat)) (h : entryLine s g = some l) : entryLine s' g = some l ∧ s'.index[g]? = s.index[g]? := by
  first | exact WindVerif.Storage.published_stable .. | (apply WindVerif.Storage.published_stable <;> assumption)

/-- what is stored under an id is what any process reads back: a finished read of `g` either raised `IndexError` or
returned exactly the complete line of the text of a store of `g` that succeeded — never empty, partial or another id's -/
theorem read_spec (presize : Nat) (scripts : List (List Op)) (hnf : NoFlush scripts) (s : St)
    (hr : Reach presize scripts s) (i k g : Nat) (r : Res) (h : resultOf scripts s i k = some (.read g, r)) :
    r = .indexError ∨ ∃ j k' t, resultOf scripts s j k' = some (.store g t, .ok) ∧ r = .text [some t, none] := by
  first | exact WindVerif.Storage.read_spec .. | (apply WindVerif.Storage.read_spec <;> assumption)

/-- storing twice under one id: at most one store of `g` succeeds, every other finished one raised `ValueError` -/
theorem store_once (presize : Nat) (scripts : List (List Op)) (hnf : NoFlush scripts) (s : St)
    (hr : Reach presize scripts s) (i k j k' g t t' : Nat) (r r' : Res)
    (h1 : resultOf scripts s i k = some (.store g t, r)) (h2 : resultOf scripts s j k' = some (.store g t', r'))
    (hne : (i, k) ≠ (j, k')) : (r = .ok ∨ r = .valueError) ∧ ¬ (r = .ok ∧ r' = .ok) := by
  first | exact WindVerif.Storage.store_once .. | (apply WindVerif.Storage.store_once <;> assumption)

/-- a successful store makes the id stored; a failed one (ValueError) found it stored -/
theorem store_result (presize : Nat) (scripts : List (List Op)) (hnf : NoFlush scripts) (s : St)
    (hr : Reach presize scripts s) (i k g t : Nat) (r : Res) (h : resultOf scripts s i k = some (.store g t, r)) :
    stored s g = true := by
  first | exact WindVerif.Storage.store_result .. | (apply WindVerif.Storage.store_result <;> assumption)

/-- the counters, whenever nobody is inside a critical section: `len()` is the number of stored ids and `_waiting_for` is
the smallest id that is not stored -/
theorem counters_quiescent (presize : Nat) (scripts : List (List Op)) (hnf : NoFlush scripts) (s : St)
    (hr : Reach presize scripts s) (hq : s.lock = none) :
    s.cnt = ((List.range s.index.length).filter (stored s)).length ∧ (∀ g, g < s.wf → stored s g = true) ∧
    stored s s.wf = false := by
  first | exact WindVerif.Storage.counters_quiescent .. | (apply WindVerif.Storage.counters_quiescent <;> assumption)

/-- `is_contiguous()` (evaluated in such a state) is true exactly when the stored ids are `0 .. len-1` -/
theorem contiguous_iff (presize : Nat) (scripts : List (List Op)) (hnf : NoFlush scripts) (s : St)
    (hr : Reach presize scripts s) (hq : s.lock = none) :
    (s.wf = s.cnt) ↔ (∀ g, stored s g = true ↔ g < s.cnt) := by
  first | exact WindVerif.Storage.contiguous_iff .. | (apply WindVerif.Storage.contiguous_iff <;> assumption)

/-- iteration (which holds the lock throughout) yields every stored text in id order, skipping gaps -/
theorem iter_spec (presize : Nat) (scripts : List (List Op)) (hnf : NoFlush scripts) (s s' : St)
    (hr : Reach presize scripts s) (i : Nat) (p : Proc) (hp : s.procs[i]? = some p) (hpc : p.pc = .iRel)
    (hs : step s i = some s') :
    ∃ p', s'.procs[i]? = some p' ∧
      p'.results = p.results ++ [.texts ((List.range s.index.length).filterMap (entryLine s))] := by
  first | exact WindVerif.Storage.iter_spec .. | (apply WindVerif.Storage.iter_spec <;> assumption)

/-- `flush()`: running the flushing process through its critical section (it holds the lock, nobody else can interfere with
the shared state) removes every listed file and leaves the storage in its initial state -/
theorem flush_clears (s : St) (i : Nat) (p : Proc) (hp : s.procs[i]? = some p) (hpc : p.pc = .fPathsGet)
    (hlock : s.lock = some i) (hk : p.tmp = 0) :
    ∃ sched s' p', run s sched = some s' ∧ (∀ j ∈ sched, j = i) ∧ s'.procs[i]? = some p' ∧ p'.pc = .fRel ∧
      s'.paths = [] ∧ s'.index = [] ∧ s'.cnt = 0 ∧ s'.wf = 0 ∧
      (∀ w, some w ∈ s.paths → fileOf s' w = none) := by
  first | exact WindVerif.Storage.flush_clears .. | (apply WindVerif.Storage.flush_clears <;> assumption)

/-- non-vacuity: a reader polls id 1 while the writer is storing it; it gets IndexError first, the complete line later -/
example : ((run (start (init 0 [[.store 1 5], [.read 1, .read 1]]))
    ([1, 1, 1] ++ List.replicate 19 0 ++ List.replicate 8 1)).map (fun s => s.procs.map (·.results))) =
    some [[.ok], [.indexError, .text [some 5, none]]] := by decide
example : NoFlush [[.store 1 5], [.read 1, .read 1]] := by unfold NoFlush; decide

/-! ## sessions: `close()` / `__exit__` and re-opening in append mode -/

/-- `close()` is local: a `close` step changes nothing but the closing process's handles and results — index, paths,
counters, lock, files and every other process are unchanged; the closing process keeps its identifier (so its next store
re-opens the same file), has no handle left and has recorded `ok` -/
theorem close_local (s s' : St) (i : Nat) (p : Proc) (hp : s.procs[i]? = some p) (hpc : p.pc = .xClose)
    (hs : step s i = some s') :
    s'.index = s.index ∧ s'.paths = s.paths ∧ s'.cnt = s.cnt ∧ s'.wf = s.wf ∧ s'.lock = s.lock ∧ s'.files = s.files ∧
    (∀ j, j ≠ i → s'.procs[j]? = s.procs[j]?) ∧
    ∃ p', s'.procs[i]? = some p' ∧ p'.results = p.results ++ [.ok] ∧ p'.ident = p.ident ∧ p'.wOpen = false ∧
      p'.rOpen = [] := by
  first | exact WindVerif.Storage.close_local .. | (apply WindVerif.Storage.close_local <;> assumption)

/-- the session goes on: when the operation after a `close` is a store and the process already has a file, that store starts
with the append branch of `open()` (`open(self._file_paths[self._process_identifier], "a")`) -/
theorem close_then_store_reopens (s s' : St) (i : Nat) (p : Proc) (hp : s.procs[i]? = some p) (hpc : p.pc = .xClose)
    (hs : step s i = some s') (g t : Nat) (rest : List Op) (hsc : p.script = .store g t :: rest)
    (hid : p.ident.isSome = true) :
    ∃ p', s'.procs[i]? = some p' ∧ p'.pc = .oPathsGet ∧ p'.gid = g ∧ p'.text = t ∧ p'.script = rest := by
  first | exact WindVerif.Storage.close_then_store_reopens .. | (apply WindVerif.Storage.close_then_store_reopens <;> assumption)

/-- a store — the first one of a session and every later one, in particular the one that re-opened the file in append mode
after a `close` — writes at the end of the process's own file: at the moment the entry is published (`index.setitem`) the
file is what was there when `tell()` was evaluated (`c`, whose length is the offset `tell()` reported) followed by exactly
the line of the text; the new entry is (own file, length of `c`) and denotes that line.  (That no earlier line of the file
changes afterwards is `files_append_only` / `published_stable`.) -/
theorem reopen_appends (presize : Nat) (scripts : List (List Op)) (hnf : NoFlush scripts) (s s' : St)
    (hr : Reach presize scripts s) (i : Nat) (p : Proc) (hp : s.procs[i]? = some p) (hpc : p.pc = .sIdxSet)
    (hs : step s i = some s') :
    ∃ w c, p.ident = some w ∧ fileOf s w = some (c ++ [some p.text, none]) ∧ c.length = p.off ∧
      s'.index[p.gid]? = some (some (w, c.length)) ∧ fileOf s' w = fileOf s w ∧
      entryLine s' p.gid = some [some p.text, none] := by
  first | exact WindVerif.Storage.reopen_appends .. | (apply WindVerif.Storage.reopen_appends <;> assumption)

/-- files are append-only under every interleaving, sessions included (a handle re-opened with "a" does not truncate):
whatever is in a file stays where it is -/
theorem files_append_only (presize : Nat) (scripts : List (List Op)) (hnf : NoFlush scripts) (s : St)
    (hr : Reach presize scripts s) (sched : List Nat) (s' : St) (hs : run s sched = some s') (w : Nat)
    (c : List (Option Nat)) (h : fileOf s w = some c) : ∃ d, fileOf s' w = some (c ++ d) := by
  first | exact WindVerif.Storage.files_append_only .. | (apply WindVerif.Storage.files_append_only <;> assumption)

/-- non-vacuity: process 0 stores id 0, closes (leaves its `with` block), stores id 1 — which re-opens its file in append
mode —, and process 1 reads both texts (the first one between the store and the close, the second one afterwards through the
read handle it already has) -/
example : ((run (start (init 0 [[.store 0 5, .close, .store 1 6], [.read 0, .read 1]]))
    (List.replicate 23 0 ++ List.replicate 8 1 ++ [0] ++ List.replicate 20 0 ++ List.replicate 6 1)).map
      (fun s => s.procs.map (·.results))) =
    some [[.ok, .ok, .ok], [.text [some 5, none], .text [some 6, none]]] := by decide
/-- … both lines are in the one file of process 0, the second entry at the offset where the first line ended -/
example : ((run (start (init 0 [[.store 0 5, .close, .store 1 6], [.read 0, .read 1]]))
    (List.replicate 23 0 ++ List.replicate 8 1 ++ [0] ++ List.replicate 20 0 ++ List.replicate 6 1)).map
      (fun s => (s.index, s.files))) =
    some ([some (0, 0), some (0, 2)], [(0, [some 5, none, some 6, none])]) := by decide
example : NoFlush [[.store 0 5, .close, .store 1 6], [.read 0, .read 1]] := by unfold NoFlush; decide
/-- the hypotheses of `close_local` / `close_then_store_reopens`: after its first store (23 steps) process 0 is about to
close, with a store as the rest of its script and an identifier; the step is enabled and leads to the append branch with
no handle open -/
example : ((run (start (init 0 [[.store 0 5, .close, .store 1 6], [.read 0, .read 1]])) (List.replicate 23 0)).bind
      (fun s => s.procs[0]?)).map (fun p => (p.pc, p.script, p.ident, p.wOpen)) =
    some (.xClose, [.store 1 6], some 0, true) := by decide
example : ((run (start (init 0 [[.store 0 5, .close, .store 1 6], [.read 0, .read 1]])) (List.replicate 24 0)).bind
      (fun s => s.procs[0]?)).map (fun p => (p.pc, p.script, p.ident, p.wOpen)) =
    some (.oPathsGet, [], some 0, false) := by decide
/-- the hypotheses of `reopen_appends`: 35 steps of process 0 bring its second store to `index.setitem`, with the offset
`tell()` reported on the re-opened handle = 2 = the length of the file before the second line -/
example : ((run (start (init 0 [[.store 0 5, .close, .store 1 6], [.read 0, .read 1]])) (List.replicate 35 0)).bind
      (fun s => s.procs[0]?)).map (fun p => (p.pc, p.gid, p.off)) = some (.sIdxSet, 1, 2) := by decide
example : ((run (start (init 0 [[.store 0 5, .close, .store 1 6], [.read 0, .read 1]])) (List.replicate 36 0)).map
      (fun s => (s.index, s.files))) =
    some ([some (0, 0), some (0, 2)], [(0, [some 5, none, some 6, none])]) := by decide

end WindVerif.C14

/-!
### a store whose write raises — the sequential specification (`Model/StorageSeq.lean`)

One process, one operation at a time; the state is `_index` (id → text or `None`), `_stored_cnt`, `_waiting_for`.
`store g t false` is a `__setitem__` whose `print(data, file=self._file, flush=True)` raises (e.g. a text the encoding of the
file cannot hold): the index has been extended with `None`s, nothing else has happened.  The names carry the prefix `seq_`
(`store_once` and `contiguous_iff` above are the theorems about the interleaving model).
-/
namespace WindVerif.C14
open WindVerif.StorageSeq

/-- a store of a free id whose write raises leaves the storage as it was: result `raised`; the map id → text, every read
(reading `g` raises `IndexError`), `len`, `_waiting_for`, `is_contiguous` and the iteration are unchanged; a following store
of `g` succeeds and is read back -/
theorem seq_failed_store_frees_id (s : St) (g t t' : Nat) (hfree : s.get g = none) :
    (store s g t false).2 = .raised ∧
    (∀ i, (store s g t false).1.get i = s.get i) ∧
    read (store s g t false).1 g = .indexError ∧
    (∀ i, read (store s g t false).1 i = read s i) ∧
    len (store s g t false).1 = len s ∧
    (store s g t false).1.waiting = s.waiting ∧
    contiguous (store s g t false).1 = contiguous s ∧
    iter (store s g t false).1 = iter s ∧
    (store (store s g t false).1 g t' true).2 = .ok ∧
    read (store (store s g t false).1 g t' true).1 g = .text t' := by
  first | exact WindVerif.StorageSeq.failed_store_frees_id .. | (apply WindVerif.StorageSeq.failed_store_frees_id <;> assumption)

/-- non-vacuity: id 2 stored, then a store of id 0 raises (id 0 is free) -/
example : (run St.empty [.store 2 7 true]).get 0 = none := by decide

/-- a successful store of `g`; every further store of `g` (any text, write raising or not) raises `ValueError` and
changes nothing -/
theorem seq_store_once (s : St) (g t t' : Nat) (ok' : Bool) (hfree : s.get g = none) :
    (store s g t true).2 = .ok ∧ read (store s g t true).1 g = .text t ∧
    store (store s g t true).1 g t' ok' = ((store s g t true).1, .valueError) := by
  first | exact WindVerif.StorageSeq.store_once .. | (apply WindVerif.StorageSeq.store_once <;> assumption)

/-- a store (successful or not) does not touch the other ids -/
theorem seq_store_other (s : St) (g t i : Nat) (ok : Bool) (hne : i ≠ g) : (store s g t ok).1.get i = s.get i := by
  first | exact WindVerif.StorageSeq.store_other .. | (apply WindVerif.StorageSeq.store_other <;> assumption)

/-- after any script (failed stores included) from `TextFileStorage(path, number_of_data=n)`: `len` is the number of ids
holding a text, and the number of texts iterated -/
theorem seq_len_is_count (n : Nat) (ops : List Op) :
    len (run (St.init n) ops) = (storedIds (run (St.init n) ops)).length ∧
    len (run (St.init n) ops) = (iter (run (St.init n) ops)).length := by
  first | exact WindVerif.StorageSeq.len_is_count .. | (apply WindVerif.StorageSeq.len_is_count <;> assumption)

/-- after any script: `is_contiguous()` is true exactly when the ids holding a text are `0 … len-1` -/
theorem seq_contiguous_iff (n : Nat) (ops : List Op) :
    contiguous (run (St.init n) ops) = true ↔
      ∀ i, ((run (St.init n) ops).get i).isSome = true ↔ i < len (run (St.init n) ops) := by
  first | exact WindVerif.StorageSeq.contiguous_iff .. | (apply WindVerif.StorageSeq.contiguous_iff <;> assumption)

/-- after any script: `_waiting_for` is the smallest id that holds no text -/
theorem seq_waiting_is_first_gap (n : Nat) (ops : List Op) :
    (∀ i, i < (run (St.init n) ops).waiting → ((run (St.init n) ops).get i).isSome = true) ∧
    (run (St.init n) ops).get (run (St.init n) ops).waiting = none := by
  first | exact WindVerif.StorageSeq.waiting_is_first_gap .. | (apply WindVerif.StorageSeq.waiting_is_first_gap <;> assumption)

/-- iteration yields the texts in the order of their ids: `storedIds` is strictly increasing, holds exactly the ids with a
text, and the iteration is the list of their texts -/
theorem seq_iter_sorted_by_id (s : St) :
    (storedIds s).Pairwise (· < ·) ∧ (∀ i, i ∈ storedIds s ↔ (s.get i).isSome = true) ∧
    (iter s).map some = (storedIds s).map s.get := by
  first | exact WindVerif.StorageSeq.iter_sorted_by_id .. | (apply WindVerif.StorageSeq.iter_sorted_by_id <;> assumption)

/-- `flush()` gives the initial state: nothing stored, nothing to read or iterate, contiguous; every id can be stored again -/
theorem seq_flush_resets (s : St) (g t : Nat) :
    (step s .flush).1 = St.empty ∧ len (step s .flush).1 = 0 ∧ contiguous (step s .flush).1 = true ∧
    iter (step s .flush).1 = [] ∧ read (step s .flush).1 g = .indexError ∧
    (store (step s .flush).1 g t true).2 = .ok ∧ read (store (step s .flush).1 g t true).1 g = .text t := by
  first | exact WindVerif.StorageSeq.flush_resets .. | (apply WindVerif.StorageSeq.flush_resets <;> assumption)

/-- the fuel of the `_waiting_for` loop of the model suffices: when it stops, the condition of the `while` is false -/
theorem seq_advance_fuel (idx : List (Option Nat)) (stored w : Nat) :
    ¬ (advance idx stored (stored - w) w < stored ∧ (idx.getD (advance idx stored (stored - w) w) none).isSome = true) := by
  first | exact WindVerif.StorageSeq.advance_fuel .. | (apply WindVerif.StorageSeq.advance_fuel <;> assumption)

/-- a session: id 2 stored; a store of id 0 raises — id 0 unreadable, `len` 1, not contiguous, iteration `[7]`; id 0 stored
again with another text, read back; a second store of it raises `ValueError`; id 1 fills the gap (contiguous, iteration in
id order); `flush`, `len` 0 -/
example : results St.empty
    [.store 2 7 true, .store 0 5 false, .read 0, .len, .contiguous, .iter, .store 0 6 true, .read 0, .store 0 8 true,
     .store 1 9 true, .contiguous, .iter, .len, .flush, .len, .read 2] =
    [.ok, .raised, .indexError, .num 1, .bool false, .texts [7], .ok, .text 6, .valueError,
     .ok, .bool true, .texts [6, 9, 7], .num 3, .ok, .num 0, .indexError] := by decide

/-- the same failed store on a pre-sized index -/
example : results (St.init 3) [.store 1 4 false, .len, .iter, .contiguous, .store 1 4 true, .read 1] =
    [.raised, .num 0, .texts [], .bool true, .ok, .text 4] := by decide

end WindVerif.C14
