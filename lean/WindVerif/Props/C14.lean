import WindVerif.Proofs.Storage
/-!
# C14 — TextFileStorage: what is stored under an id is what any process reads back

Property theorems only (proofs in `Proofs/Storage*.lean`) about the interleaving model `Model/Storage.lean`: any number of
processes with their own copy of the storage object, arbitrary scripts of store / read / len / is_contiguous / iterate
operations (`NoFlush`: `flush()` is a separate theorem, it requires everybody else to be done), pre-sized index or not, and
**every interleaving** of their visible operations (`Reach presize scripts s`).  `resultOf scripts s i k` is the k-th
operation of process `i` together with its result once it has one.
-/
namespace WindVerif.C14
open WindVerif.Storage

/-- published ⇒ durable, under every interleaving of any number of writers and readers: an index entry always points at a
complete line (text and terminator) in an existing file -/
theorem published_durable (presize : Nat) (scripts : List (List Op)) (hnf : NoFlush scripts) (s : St)
    (hr : Reach presize scripts s) (g : Nat) (l : List (Option Nat)) (h : entryLine s g = some l) :
    ∃ t, l = [some t, none] := by
  first | exact WindVerif.Storage.published_durable .. | (apply WindVerif.Storage.published_durable <;> assumption)

/-- an index entry, once published, never changes, and neither does the line it points at (files are append-only) -/
theorem published_stable (presize : Nat) (scripts : List (List Op)) (hnf : NoFlush scripts) (s : St)
    (hr : Reach presize scripts s) (sched : List Nat) (s' : St) (hs : run s sched = some s') (g : Nat)
    (l : List (Option Nat)) (h : entryLine s g = some l) : entryLine s' g = some l ∧ s'.index[g]? = s.index[g]? := by
  first | exact WindVerif.Storage.published_stable .. | (apply WindVerif.Storage.published_stable <;> assumption)

/-- what is stored under an id is what any process reads back: a finished read of `g` either raised `IndexError` or
returned exactly the complete line of the text of a store of `g` that succeeded — never empty, partial or another id's -/
theorem read_spec (presize : Nat) (scripts : List (List Op)) (hnf : NoFlush scripts) (s : St)
    (hr : Reach presize scripts s) (i k g : Nat) (r : Res) (h : resultOf scripts s i k = some (.read g, r)) :
    r = .indexError ∨ ∃ j k' t, resultOf scripts s j k' = some (.store g t, .ok) ∧ r = .text [some t, none] := by
  first | exact WindVerif.Storage.read_spec .. | (apply WindVerif.Storage.read_spec <;> assumption)

/-- storing twice under one id: at most one store of `g` succeeds, every other finished one raised `ValueError` -/
theorem store_once (presize : Nat) (scripts : List (List Op)) (hnf : NoFlush scripts) (s : St)
    (hr : Reach presize scripts s) (i k j k' g t t' : Nat) (r r' : Res)
    (h1 : resultOf scripts s i k = some (.store g t, r)) (h2 : resultOf scripts s j k' = some (.store g t', r'))
    (hne : (i, k) ≠ (j, k')) : (r = .ok ∨ r = .valueError) ∧ ¬ (r = .ok ∧ r' = .ok) := by
  first | exact WindVerif.Storage.store_once .. | (apply WindVerif.Storage.store_once <;> assumption)

/-- a successful store makes the id stored; a failed one (ValueError) found it stored -/
theorem store_result (presize : Nat) (scripts : List (List Op)) (hnf : NoFlush scripts) (s : St)
    (hr : Reach presize scripts s) (i k g t : Nat) (r : Res) (h : resultOf scripts s i k = some (.store g t, r)) :
    stored s g = true := by
  first | exact WindVerif.Storage.store_result .. | (apply WindVerif.Storage.store_result <;> assumption)

/-- the counters, whenever nobody is inside a critical section: `len()` is the number of stored ids and `_waiting_for` is
the smallest id that is not stored -/
theorem counters_quiescent (presize : Nat) (scripts : List (List Op)) (hnf : NoFlush scripts) (s : St)
    (hr : Reach presize scripts s) (hq : s.lock = none) :
    s.cnt = ((List.range s.index.length).filter (stored s)).length ∧ (∀ g, g < s.wf → stored s g = true) ∧
    stored s s.wf = false := by
  first | exact WindVerif.Storage.counters_quiescent .. | (apply WindVerif.Storage.counters_quiescent <;> assumption)

/-- `is_contiguous()` (evaluated in such a state) is true exactly when the stored ids are `0 .. len-1` -/
theorem contiguous_iff (presize : Nat) (scripts : List (List Op)) (hnf : NoFlush scripts) (s : St)
    (hr : Reach presize scripts s) (hq : s.lock = none) :
    (s.wf = s.cnt) ↔ (∀ g, stored s g = true ↔ g < s.cnt) := by
  first | exact WindVerif.Storage.contiguous_iff .. | (apply WindVerif.Storage.contiguous_iff <;> assumption)

/-- iteration (which holds the lock throughout) yields every stored text in id order, skipping gaps -/
theorem iter_spec (presize : Nat) (scripts : List (List Op)) (hnf : NoFlush scripts) (s s' : St)
    (hr : Reach presize scripts s) (i : Nat) (p : Proc) (hp : s.procs[i]? = some p) (hpc : p.pc = .iRel)
    (hs : step s i = some s') :
    ∃ p', s'.procs[i]? = some p' ∧
      p'.results = p.results ++ [.texts ((List.range s.index.length).filterMap (entryLine s))] := by
  first | exact WindVerif.Storage.iter_spec .. | (apply WindVerif.Storage.iter_spec <;> assumption)

/-- `flush()`: running the flushing process through its critical section (it holds the lock, nobody else can interfere with
the shared state) removes every listed file and leaves the storage in its initial state -/
theorem flush_clears (s : St) (i : Nat) (p : Proc) (hp : s.procs[i]? = some p) (hpc : p.pc = .fPathsGet)
    (hlock : s.lock = some i) (hk : p.tmp = 0) :
    ∃ sched s' p', run s sched = some s' ∧ (∀ j ∈ sched, j = i) ∧ s'.procs[i]? = some p' ∧ p'.pc = .fRel ∧
      s'.paths = [] ∧ s'.index = [] ∧ s'.cnt = 0 ∧ s'.wf = 0 ∧
      (∀ w, some w ∈ s.paths → fileOf s' w = none) := by
  first | exact WindVerif.Storage.flush_clears .. | (apply WindVerif.Storage.flush_clears <;> assumption)

/-- non-vacuity: a reader polls id 1 while the writer is storing it; it gets IndexError first, the complete line later -/
example : ((run (start (init 0 [[.store 1 5], [.read 1, .read 1]]))
    ([1, 1, 1] ++ List.replicate 19 0 ++ List.replicate 8 1)).map (fun s => s.procs.map (·.results))) =
    some [[.ok], [.indexError, .text [some 5, none]]] := by decide
example : NoFlush [[.store 1 5], [.read 1, .read 1]] := by unfold NoFlush; decide

end WindVerif.C14
