import WindVerif.Proofs.PoolSafe
import WindVerif.Proofs.PoolLife
import WindVerif.Proofs.PoolJoinTimeout
/-!
# C03 — A pool stays correct across consecutive calls and across worker replacement

Property theorems only.  The model's consumer runs an arbitrary list of calls on one pool (`cfg.calls`), with
`FactoryFunctorPool` and quotas replacing retired workers at any moment.  `calls_independent` / `past_calls`: every call of the
history emitted exactly its own chunks (ordered calls in input order) under every interleaving — nothing leaks from one
call into the next; `imap_result` gives the quiescent state between calls (no result chunk, work item or held chunk left).
Worker availability across replacement and the termination of every call are the liveness theorems of C02
(`imap_no_deadlock`); D19 repaired: leaving the context is covered by them too.

A finite `join_timeout` (`Cfg.joinTimeout`; the model's worker has then a step `.ending` of its own between the post of its wid
to the replace queue and its `end()`/exit, and the joins of the replace thread and of `__exit__` return whether the worker
has exited or not): every theorem above holds for these configurations too (same statements) — EXCEPT `exit_joins_all`, which
is false then (`C02.exit_returns_with_running_worker`) and carries the hypothesis `cfg.joinTimeout = false`.
`successor_while_retired_runs`: the successor of a retired worker can be started while the retired worker is still running;
`retired_still_ends`: it ends all the same, its lifecycle is intact.
-/
namespace WindVerif.C03
open WindVerif.Pool

/-- consecutive calls: when the caller's whole program has finished, every call `k` of the history (different lengths,
chunk sizes, ordered or not, empty ones in between, with or without worker replacement) has emitted exactly its own chunks,
ordered calls in input order — nothing leaked from one call into another -/
theorem calls_independent (cfg : Cfg) (hf : NoFaults cfg) (s : St) (h : Reach cfg s) (hd : s.cpc = .done)
    (k : Nat) (c : Call) (hk : cfg.calls[k]? = some c) :
    (outOf s (k + 1)).Perm (List.range c.chunks) ∧ (c.ordered = true → outOf s (k + 1) = List.range c.chunks) := by
  first | exact WindVerif.Pool.calls_independent .. | (apply WindVerif.Pool.calls_independent <;> assumption)

/-- the same for every call that is already over while the program is still running -/
theorem past_calls (cfg : Cfg) (hf : NoFaults cfg) (s : St) (h : Reach cfg s) (k : Nat) (c : Call)
    (hk : cfg.calls[k]? = some c) (hpast : k + 1 < s.callNo) :
    (outOf s (k + 1)).Perm (List.range c.chunks) ∧ (c.ordered = true → outOf s (k + 1) = List.range c.chunks) := by
  first | exact WindVerif.Pool.past_calls .. | (apply WindVerif.Pool.past_calls <;> assumption)

/-- when the consumer has left the result loop of a call, every chunk has been emitted exactly once (ordered: in input
order) and no result chunk, work item or held chunk is left anywhere (wake-up tokens may remain) -/
theorem imap_result (cfg : Cfg) (hf : NoFaults cfg) (s : St) (h : Reach cfg s) (c : Call) (hc : s.cur = some c)
    (hp : postLoop s = true) :
    (curOut s).Perm (List.range c.chunks) ∧ (c.ordered = true → curOut s = List.range c.chunks) ∧
    chunksOf s.resQ = [] ∧ chunksOf s.workQ = [] ∧ heldChunks s = [] ∧ s.buffer = [] := by
  first | exact WindVerif.Pool.imap_result .. | (apply WindVerif.Pool.imap_result <;> assumption)

theorem safe_reach (cfg : Cfg) (hf : NoFaults cfg) (s : St) (h : Reach cfg s) : SafeInv s := by
  first | exact WindVerif.Pool.safe_reach .. | (apply WindVerif.Pool.safe_reach <;> assumption)

/-- when the pool context has been left (no join timeout: `join_timeout=None`), no worker is running — replaced workers
included.  HYPOTHESIS `cfg.joinTimeout = false` ADDED: with a finite join timeout the statement is false
(`C02.exit_returns_with_running_worker`); what remains true then is `C02.imap_maximal_all_exited` /
`C02.eventually_all_exited` -/
theorem exit_joins_all (cfg : Cfg) (hjt : cfg.joinTimeout = false) (s : St) (h : Reach cfg s) (hd : s.cpc = .done) :
    AllExited s := by
  first | exact WindVerif.Pool.exit_joins_all .. | (apply WindVerif.Pool.exit_joins_all <;> assumption)

/-- non-vacuity: the default (`join_timeout=None`) -/
example : d19Cfg.joinTimeout = false ∧ (⟨1, none, none, false, none, false, [⟨1, true⟩], [], [], false, false⟩ : Cfg).joinTimeout = false := by
  decide

/-- timed joins: the situation exists in the model — a reachable state (1 worker, factory, quota 1, one call of 2 chunks,
`joinTimeout`) in which the successor (worker 1) has been listed and started while the retired worker 0 is still running:
its pc is `.ending`, `end` is not yet in its log -/
theorem successor_while_retired_runs :
    ∃ sched s, run (init jtCfg) sched = some s ∧ s.procs = [1] ∧
      (∃ w ∈ s.workers, w.wid = 0 ∧ w.pc = .ending ∧ w.log = [.begin, .item 0]) ∧
      (∃ w ∈ s.workers, w.wid = 1 ∧ w.pc = .bfClear) := by
  first | exact WindVerif.Pool.successor_while_retired_runs .. | (apply WindVerif.Pool.successor_while_retired_runs <;> assumption)

/-- timed joins: in every reachable state each worker's log is still `begin · item* · end` cut off where the worker is
(`LifeOk`, the lifecycle theorem of C04, unchanged): `begin` at most once, `end_` at most once, both exactly once when the
worker has exited; a retired worker whose successor may already run (`.ending`) has not logged `end_` yet, can always move,
and its step logs `end_` and exits -/
theorem retired_still_ends (cfg : Cfg) (hjt : cfg.joinTimeout = true) (s : St) (h : Reach cfg s) (w : Worker)
    (hw : w ∈ s.workers) :
    LifeOk cfg w ∧ w.log.count .begin ≤ 1 ∧ w.log.count .end_ ≤ 1 ∧
    (w.pc = .exited → w.log.count .begin = 1 ∧ w.log.count .end_ = 1) ∧
    (w.pc = .ending → w.log.count .end_ = 0 ∧
      ∃ s', step s (.w w.wid) = some s' ∧ ∃ w' ∈ s'.workers, w'.wid = w.wid ∧ w'.pc = .exited ∧ w'.log = w.log ++ [.end_]) := by
  first | exact WindVerif.Pool.retired_still_ends .. | (apply WindVerif.Pool.retired_still_ends <;> assumption)

/-- non-vacuity: `jtCfg` has a join timeout, and the state of `successor_while_retired_runs` is reachable with worker 0 at
`.ending`; one step of worker 0 later it has exited with `begin · item 0 · end` -/
example : jtCfg.joinTimeout = true := rfl
example : (run (init jtCfg) (jtSched ++ [.w 0])).map (fun s => s.workers.map (fun w => (w.wid, w.pc, w.log))) =
    some [(0, .exited, [.begin, .item 0, .end_]), (1, .bfClear, [])] := by decide

end WindVerif.C03
