import WindVerif.Proofs.PoolSafe
import WindVerif.Proofs.PoolLife
/-!
# C03 — A pool stays correct across consecutive calls and across worker replacement

Property theorems only.  The model's consumer runs an arbitrary list of calls on one pool (`cfg.calls`), with
`FactoryFunctorPool` and quotas replacing retired workers at any moment.  `calls_independent` / `past_calls`: every call of the
history emitted exactly its own chunks (ordered calls in input order) under every interleaving — nothing leaks from one
call into the next; `imap_result` gives the quiescent state between calls (no result chunk, work item or held chunk left).
Worker availability across replacement and the termination of every call are the liveness theorems of C02
(`imap_no_deadlock`); D19 repaired: leaving the context is covered by them too.
-/
namespace WindVerif.C03
open WindVerif.Pool

/-- consecutive calls: when the caller's whole program has finished, every call `k` of the history (different lengths,
chunk sizes, ordered or not, empty ones in between, with or without worker replacement) has emitted exactly its own chunks,
ordered calls in input order — nothing leaked from one call into another -/
theorem calls_independent (cfg : Cfg) (hf : NoFaults cfg) (s : St) (h : Reach cfg s) (hd : s.cpc = .done)
    (k : Nat) (c : Call) (hk : cfg.calls[k]? = some c) :
    (outOf s (k + 1)).Perm (List.range c.chunks) ∧ (c.ordered = true → outOf s (k + 1) = List.range c.chunks) := by
  first | exact WindVerif.Pool.calls_independent .. | (apply WindVerif.Pool.calls_independent <;> assumption)

/-- the same for every call that is already over while the program is still running -/
theorem past_calls (cfg : Cfg) (hf : NoFaults cfg) (s : St) (h : Reach cfg s) (k : Nat) (c : Call)
    (hk : cfg.calls[k]? = some c) (hpast : k + 1 < s.callNo) :
    (outOf s (k + 1)).Perm (List.range c.chunks) ∧ (c.ordered = true → outOf s (k + 1) = List.range c.chunks) := by
  first | exact WindVerif.Pool.past_calls .. | (apply WindVerif.Pool.past_calls <;> assumption)

/-- when the consumer has left the result loop of a call, every chunk has been emitted exactly once (ordered: in input
order) and no result chunk, work item or held chunk is left anywhere (wake-up tokens may remain) -/
theorem imap_result (cfg : Cfg) (hf : NoFaults cfg) (s : St) (h : Reach cfg s) (c : Call) (hc : s.cur = some c)
    (hp : postLoop s = true) :
    (curOut s).Perm (List.range c.chunks) ∧ (c.ordered = true → curOut s = List.range c.chunks) ∧
    chunksOf s.resQ = [] ∧ chunksOf s.workQ = [] ∧ heldChunks s = [] ∧ s.buffer = [] := by
  first | exact WindVerif.Pool.imap_result .. | (apply WindVerif.Pool.imap_result <;> assumption)

theorem safe_reach (cfg : Cfg) (hf : NoFaults cfg) (s : St) (h : Reach cfg s) : SafeInv s := by
  first | exact WindVerif.Pool.safe_reach .. | (apply WindVerif.Pool.safe_reach <;> assumption)

/-- when the pool context has been left (no join timeout), no worker is running — replaced workers included -/
theorem exit_joins_all (cfg : Cfg) (s : St) (h : Reach cfg s) (hd : s.cpc = .done) : AllExited s := by
  first | exact WindVerif.Pool.exit_joins_all .. | (apply WindVerif.Pool.exit_joins_all <;> assumption)

end WindVerif.C03
