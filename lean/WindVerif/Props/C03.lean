import WindVerif.Proofs.PoolSafe
import WindVerif.Proofs.PoolLife
import WindVerif.Proofs.PoolJoinTimeout
import WindVerif.Proofs.PoolAlive
/-!
# C03 — A pool stays correct across consecutive calls and across worker replacement

Property theorems only.  The model's consumer runs an arbitrary list of calls on one pool (`cfg.calls`), with
`FactoryFunctorPool` and quotas replacing retired workers at any moment.  `calls_independent` / `past_calls`: every call of the
history emitted exactly its own chunks (ordered calls in input order) under every interleaving — nothing leaks from one
call into the next; `imap_result` gives the quiescent state between calls (no result chunk, work item or held chunk left).
Worker availability across replacement and the termination of every call are the liveness theorems of C02
(`imap_no_deadlock`); D19 repaired: leaving the context is covered by them too.

The model's worker has a step `.ending` of its own between the operation that ends its loop (stop order taken, wid posted,
…) and its `end()`/exit, in every configuration.  A finite `join_timeout` (`Cfg.joinTimeout`; the joins of the replace
thread and of `__exit__` return whether the worker has exited or not): every theorem above holds for these configurations too (same statements) — EXCEPT `exit_joins_all`, which
is false then (`C02.exit_returns_with_running_worker`) and carries the hypothesis `cfg.joinTimeout = false`.
`successor_while_retired_runs`: the successor of a retired worker can be started while the retired worker is still running;
`retired_still_ends`: it ends all the same, its lifecycle is intact.
-/
namespace WindVerif.C03
open WindVerif.Pool

/-- consecutive calls: when the caller's whole program has finished, every call `k` of the history (different lengths,
chunk sizes, ordered or not, empty ones in between, with or without worker replacement) has emitted exactly its own chunks,
ordered calls in input order — nothing leaked from one call into another -/
theorem calls_independent (cfg : Cfg) (hf : NoFaults cfg) (s : St) (h : Reach cfg s) (hd : s.cpc = .done)
    (k : Nat) (c : Call) (hk : cfg.calls[k]? = some c) :
    (outOf s (k + 1)).Perm (List.range c.chunks) ∧ (c.ordered = true → outOf s (k + 1) = List.range c.chunks) := by
  first | exact WindVerif.Pool.calls_independent .. | (apply WindVerif.Pool.calls_independent <;> assumption)

/-- the same for every call that is already over while the program is still running -/
theorem past_calls (cfg : Cfg) (hf : NoFaults cfg) (s : St) (h : Reach cfg s) (k : Nat) (c : Call)
    (hk : cfg.calls[k]? = some c) (hpast : k + 1 < s.callNo) :
    (outOf s (k + 1)).Perm (List.range c.chunks) ∧ (c.ordered = true → outOf s (k + 1) = List.range c.chunks) := by
  first | exact WindVerif.Pool.past_calls .. | (apply WindVerif.Pool.past_calls <;> assumption)

/-- when the consumer has left the result loop of a call, every chunk has been emitted exactly once (ordered: in input
order) and no result chunk, work item or held chunk is left anywhere (wake-up tokens may remain) -/
theorem imap_result (cfg : Cfg) (hf : NoFaults cfg) (s : St) (h : Reach cfg s) (c : Call) (hc : s.cur = some c)
    (hp : postLoop s = true) :
    (curOut s).Perm (List.range c.chunks) ∧ (c.ordered = true → curOut s = List.range c.chunks) ∧
    chunksOf s.resQ = [] ∧ chunksOf s.workQ = [] ∧ heldChunks s = [] ∧ s.buffer = [] := by
  first | exact WindVerif.Pool.imap_result .. | (apply WindVerif.Pool.imap_result <;> assumption)

theorem safe_reach (cfg : Cfg) (hf : NoFaults cfg) (s : St) (h : Reach cfg s) : SafeInv s := by
  first | exact WindVerif.Pool.safe_reach .. | (apply WindVerif.Pool.safe_reach <;> assumption)

/-- when the pool context has been left (no join timeout: `join_timeout=None`), no worker is running — replaced workers
included.  HYPOTHESIS `cfg.joinTimeout = false` ADDED: with a finite join timeout the statement is false
(`C02.exit_returns_with_running_worker`); what remains true then is `C02.imap_maximal_all_exited` /
`C02.eventually_all_exited` -/
theorem exit_joins_all (cfg : Cfg) (hjt : cfg.joinTimeout = false) (s : St) (h : Reach cfg s) (hd : s.cpc = .done) :
    AllExited s := by
  first | exact WindVerif.Pool.exit_joins_all .. | (apply WindVerif.Pool.exit_joins_all <;> assumption)

/-- non-vacuity: the default (`join_timeout=None`) -/
example : d19Cfg.joinTimeout = false ∧ (⟨1, none, none, false, none, false, [⟨1, true⟩], [], [], false, false⟩ : Cfg).joinTimeout = false := by
  decide

/-- timed joins: the situation exists in the model — a reachable state (1 worker, factory, quota 1, one call of 2 chunks,
`joinTimeout`) in which the successor (worker 1) has been listed and started while the retired worker 0 is still running:
its pc is `.ending`, `end` is not yet in its log -/
theorem successor_while_retired_runs :
    ∃ sched s, run (init jtCfg) sched = some s ∧ s.procs = [1] ∧
      (∃ w ∈ s.workers, w.wid = 0 ∧ w.pc = .ending ∧ w.log = [.begin, .item 0]) ∧
      (∃ w ∈ s.workers, w.wid = 1 ∧ w.pc = .bfClear) := by
  first | exact WindVerif.Pool.successor_while_retired_runs .. | (apply WindVerif.Pool.successor_while_retired_runs <;> assumption)

/-- timed joins: in every reachable state each worker's log is still `begin · item* · end` cut off where the worker is
(`LifeOk`, the lifecycle theorem of C04, unchanged): `begin` at most once, `end_` at most once, both exactly once when the
worker has exited; a retired worker whose successor may already run (`.ending`) has not logged `end_` yet, can always move,
and its step logs `end_` and exits -/
theorem retired_still_ends (cfg : Cfg) (hjt : cfg.joinTimeout = true) (s : St) (h : Reach cfg s) (w : Worker)
    (hw : w ∈ s.workers) :
    LifeOk cfg w ∧ w.log.count .begin ≤ 1 ∧ w.log.count .end_ ≤ 1 ∧
    (w.pc = .exited → w.log.count .begin = 1 ∧ w.log.count .end_ = 1) ∧
    (w.pc = .ending → w.log.count .end_ = 0 ∧
      ∃ s', step s (.w w.wid) = some s' ∧ ∃ w' ∈ s'.workers, w'.wid = w.wid ∧ w'.pc = .exited ∧ w'.log = w.log ++ [.end_]) := by
  first | exact WindVerif.Pool.retired_still_ends .. | (apply WindVerif.Pool.retired_still_ends <;> assumption)

/-- non-vacuity: `jtCfg` has a join timeout, and the state of `successor_while_retired_runs` is reachable with worker 0 at
`.ending`; one step of worker 0 later it has exited with `begin · item 0 · end` -/
example : jtCfg.joinTimeout = true := rfl
example : (run (init jtCfg) (jtSched ++ [.w 0])).map (fun s => s.workers.map (fun w => (w.wid, w.pc, w.log))) =
    some [(0, .exited, [.begin, .item 0, .end_]), (1, .bfClear, [])] := by decide

/-! ### how many worker processes are alive at once (Proofs/PoolAlive.lean)

`aliveCnt s` = number of workers whose pc is neither `notStarted` nor `exited` (running processes); `notStartedCnt` = created
but not started; `endingCnt` = workers inside `end()`; `unlistedCnt` = workers the pool
does not list any more; `replCount s₀ sched` = steps of the replace thread along `sched` that create a successor. -/

/-- **`join_timeout=None`: in every reachable state at most `nWorkers` worker processes are running.**  The replace thread
joins the retired worker before it creates and starts the successor, so a replacement never raises the number of running
processes (nor of the descriptors they hold).  No `+ 1` is needed: the successor is created (`notStarted`) only after the
retired worker has exited (`successor_after_exit`) -/
theorem alive_le_workers (cfg : Cfg) (hjt : cfg.joinTimeout = false) (s : St) (h : Reach cfg s) :
    aliveCnt s ≤ cfg.nWorkers := by
  first | exact WindVerif.Pool.alive_le_workers .. | (apply WindVerif.Pool.alive_le_workers <;> assumption)

/-- … even counted together with the processes that are created but not yet started -/
theorem alive_notStarted_le_workers (cfg : Cfg) (hjt : cfg.joinTimeout = false) (s : St) (h : Reach cfg s) :
    aliveCnt s + notStartedCnt s ≤ cfg.nWorkers := by
  first | exact WindVerif.Pool.alive_notStarted_le_workers .. | (apply WindVerif.Pool.alive_notStarted_le_workers <;> assumption)

/-- `join_timeout=None`: a running worker is one of the listed ones -/
theorem alive_listed (cfg : Cfg) (hjt : cfg.joinTimeout = false) (s : St) (h : Reach cfg s) (w : Worker)
    (hw : w ∈ s.workers) (hr : running w.pc = true) : w.wid ∈ s.procs := by
  first | exact WindVerif.Pool.alive_listed .. | (apply WindVerif.Pool.alive_listed <;> assumption)

/-- `join_timeout=None`: whenever the replace thread PERFORMS its `join` step for worker `wid` (the step that creates the
successor), that worker has already exited.  RESTATED: hypothesis `hs` (the step is taken) ADDED — the worker posts its wid
BEFORE it runs `end()`, so the replace thread can arrive at the join while the worker is still inside `end()`; the join then
blocks (counterexample to the old form: `successor_join_waits` below) -/
theorem successor_after_exit (cfg : Cfg) (hjt : cfg.joinTimeout = false) (s : St) (h : Reach cfg s) (wid : Nat)
    (hr : s.rpc = .join wid) (s' : St) (hs : step s .r = some s') : ∀ w ∈ s.workers, w.wid = wid → w.pc = .exited := by
  first | exact WindVerif.Pool.successor_after_exit .. | (apply WindVerif.Pool.successor_after_exit <;> assumption)

/-- the state the old form of `successor_after_exit` overlooked: `join_timeout=None`, the replace thread at its join for
worker 0, which is still inside `end()` — the join blocks (the replace thread is not enabled, worker 0 is); one process runs -/
theorem successor_join_waits : (run (init njCfg) njSchedWait).map
    (fun s => (s.rpc, s.workers.map (fun w => (w.wid, w.pc)), (step s .r).isSome, (step s (.w 0)).isSome, aliveCnt s)) =
    some (.join 0, [(0, .ending)], false, true, 1) := by
  first | exact WindVerif.Pool.successor_join_waits .. | (apply WindVerif.Pool.successor_join_waits <;> assumption)

/-- every configuration: the worker the replace thread is about to join has left its loop for good (exited or in `end()`) -/
theorem successor_after_gone (cfg : Cfg) (s : St) (h : Reach cfg s) (wid : Nat) (hr : s.rpc = .join wid) :
    ∀ w ∈ s.workers, w.wid = wid → gone w.pc = true := by
  first | exact WindVerif.Pool.successor_after_gone .. | (apply WindVerif.Pool.successor_after_gone <;> assumption)

/-- every configuration (timed joins included): the running or created-but-not-started workers beyond `nWorkers` are
workers inside `end()` -/
theorem alive_le_general (cfg : Cfg) (s : St) (h : Reach cfg s) :
    aliveCnt s + notStartedCnt s ≤ cfg.nWorkers + endingCnt s := by
  first | exact WindVerif.Pool.alive_le_general .. | (apply WindVerif.Pool.alive_le_general <;> assumption)

/-- the pool lists exactly `nWorkers` wids in every reachable state (a replacement overwrites a slot) … -/
theorem listed_length (cfg : Cfg) (s : St) (h : Reach cfg s) : s.procs.length = cfg.nWorkers := by
  first | exact WindVerif.Pool.listed_length .. | (apply WindVerif.Pool.listed_length <;> assumption)

/-- … no wid twice -/
theorem listed_nodup (cfg : Cfg) (s : St) (h : Reach cfg s) : s.procs.Nodup := by
  first | exact WindVerif.Pool.listed_nodup .. | (apply WindVerif.Pool.listed_nodup <;> assumption)

/-- the number of workers ever created is `nWorkers` + the number of replacements performed; their wids are
`0 … (number created) - 1` in creation order, and the wid counter is that number -/
theorem created_eq (cfg : Cfg) (sched : List Tid) (s : St) (h : run (init cfg) sched = some s) :
    s.workers.length = cfg.nWorkers + replCount (init cfg) sched ∧ s.widCounter = s.workers.length ∧
    s.workers.map (·.wid) = List.range s.workers.length := by
  first | exact WindVerif.Pool.created_eq .. | (apply WindVerif.Pool.created_eq <;> assumption)

theorem created_le (cfg : Cfg) (sched : List Tid) (s : St) (h : run (init cfg) sched = some s) :
    s.workers.length ≤ cfg.nWorkers + replCount (init cfg) sched := by
  first | exact WindVerif.Pool.created_le .. | (apply WindVerif.Pool.created_le <;> assumption)

/-- a plain `FunctorPool` never creates a worker after `__init__` -/
theorem created_plain (cfg : Cfg) (hf : cfg.factory = false) (s : St) (h : Reach cfg s) :
    s.workers.length = cfg.nWorkers := by
  first | exact WindVerif.Pool.created_plain .. | (apply WindVerif.Pool.created_plain <;> assumption)

/-- the number of workers ever created is `nWorkers` + the number of workers the pool does not list any more -/
theorem created_unlisted (cfg : Cfg) (s : St) (h : Reach cfg s) : s.workers.length = cfg.nWorkers + unlistedCnt s := by
  first | exact WindVerif.Pool.created_unlisted .. | (apply WindVerif.Pool.created_unlisted <;> assumption)

/-- `join_timeout=None`: every worker that is not listed any more (every replaced worker) has exited -/
theorem unlisted_exited (cfg : Cfg) (hjt : cfg.joinTimeout = false) (s : St) (h : Reach cfg s) (w : Worker)
    (hw : w ∈ s.workers) (hn : w.wid ∉ s.procs) : w.pc = .exited := by
  first | exact WindVerif.Pool.unlisted_exited .. | (apply WindVerif.Pool.unlisted_exited <;> assumption)

/-- finite `join_timeout`: the bound fails — a reachable state of `jtCfg` (1 worker) with `nWorkers + 1` running worker
processes: the retired worker 0 inside `end()`, its successor started -/
theorem alive_exceeds_with_timeout :
    ∃ sched s, jtCfg.joinTimeout = true ∧ run (init jtCfg) sched = some s ∧ aliveCnt s = jtCfg.nWorkers + 1 := by
  first | exact WindVerif.Pool.alive_exceeds_with_timeout .. | (apply WindVerif.Pool.alive_exceeds_with_timeout <;> assumption)

/-- finite `join_timeout`: the number of running processes grows with every replacement — `nWorkers + 2` after two -/
theorem alive_grows_with_timeout :
    ∃ sched s, jtCfg.joinTimeout = true ∧ run (init jtCfg) sched = some s ∧ replCount (init jtCfg) sched = 2 ∧
      aliveCnt s = jtCfg.nWorkers + 2 := by
  first | exact WindVerif.Pool.alive_grows_with_timeout .. | (apply WindVerif.Pool.alive_grows_with_timeout <;> assumption)

/-- hence `alive_le_workers` without its hypothesis `cfg.joinTimeout = false` is false -/
theorem alive_bound_needs_no_timeout : ¬ ∀ (cfg : Cfg) (s : St), Reach cfg s → aliveCnt s ≤ cfg.nWorkers := by
  first | exact WindVerif.Pool.alive_bound_needs_no_timeout .. | (apply WindVerif.Pool.alive_bound_needs_no_timeout <;> assumption)

/-- non-vacuity: `njCfg` (= `jtCfg` with `join_timeout=None`: 1 worker, factory, quota 1, a call of 2 chunks) meets the
hypothesis; after the schedule `njSched` (worker 0 retires and exits, the replace thread joins it, creates, lists and starts
worker 1) the bound is attained (1 running process = `nWorkers`), 2 workers have been created by 1 replacement, 1 worker is
unlisted and it has exited; the replace thread is at its `join` for worker 0 (exited: the join can return) one step before
the creation -/
example : njCfg.joinTimeout = false ∧ njCfg.factory = true ∧ njCfg.nWorkers = 1 := by decide
example : (run (init njCfg) njSched).map
    (fun s => (s.procs, s.workers.map (fun w => (w.wid, w.pc)), aliveCnt s, unlistedCnt s)) =
    some ([1], [(0, .exited), (1, .bfClear)], 1, 1) ∧ replCount (init njCfg) njSched = 1 := by decide
example : (run (init njCfg) (njSched.take 21)).map (fun s => (s.rpc, s.workers.map (fun w => (w.wid, w.pc)), (step s .r).isSome)) =
    some (.join 0, [(0, .exited)], true) := by decide
/-- non-vacuity of `created_plain`: a plain pool -/
example : (⟨2, none, none, false, none, false, [⟨1, true⟩], [], [], false, false⟩ : Cfg).factory = false := by decide


end WindVerif.C03
