import WindVerif.Proofs.FMap
/-!
# C05 — FunctorMap and mul_p_map return map(f, data) in input order

Property theorems only (proofs in `Proofs/FMap*.lean`) about the interleaving model `Model/FMap.lean` of `FunctorMap`
(`cfg.mulP = false`: one set of workers, any number of consecutive calls) and `mul_p_map` (`cfg.mulP = true`), for every
number of workers ≥ 1, every list of calls (incl. empty inputs and fewer chunks than workers) and every interleaving
(`Reach cfg s`).  Chunks are indices; the step from chunk indices to `f(x)` values is `PoolData.yielded_ordered`.
-/
namespace WindVerif.C05
open WindVerif.FMap

/-- at every moment of a `FunctorMap` call, under every interleaving of the workers, what the caller has received so far
is `0, 1, …, m-1` in this order: nothing lost, duplicated, reordered or invented -/
theorem fmap_prefix (cfg : Cfg) (hw : Wellformed cfg) (s : St) (h : Reach cfg s) (k : Nat) :
    ∃ m, outOf s k = List.range m := by
  first | exact WindVerif.FMap.fmap_prefix .. | (apply WindVerif.FMap.fmap_prefix <;> assumption)

/-- when the caller's whole program is over (all consecutive calls on one `FunctorMap`, resp. all `mul_p_map` calls), call
number `k+1` has handed over exactly its chunks `0 … n-1` in input order, for every call of the history: the calls are
independent -/
theorem fmap_result (cfg : Cfg) (hw : Wellformed cfg) (s : St) (h : Reach cfg s) (hd : s.ppc = .done)
    (k n : Nat) (hk : cfg.calls[k]? = some n) : outOf s (k + 1) = List.range n := by
  first | exact WindVerif.FMap.fmap_result .. | (apply WindVerif.FMap.fmap_result <;> assumption)

/-- no deadlock: as long as the caller has not finished, some thread can move -/
theorem fmap_no_deadlock (cfg : Cfg) (hw : Wellformed cfg) (s : St) (h : Reach cfg s) (hnd : s.ppc ≠ .done) :
    ∃ t, (step s t).isSome := by
  first | exact WindVerif.FMap.fmap_no_deadlock .. | (apply WindVerif.FMap.fmap_no_deadlock <;> assumption)

/-- termination: every schedule is finite — there is a bound on the length of all executions of a configuration (so every
maximal execution ends, and by `fmap_no_deadlock` it ends with the caller finished) -/
theorem fmap_terminates (cfg : Cfg) (hw : Wellformed cfg) :
    ∃ bound, ∀ sched s, run (init cfg) sched = some s → sched.length ≤ bound := by
  first | exact WindVerif.FMap.fmap_terminates .. | (apply WindVerif.FMap.fmap_terminates <;> assumption)

/-- when everything is over no worker process is left running (every `None` sentinel was consumed by exactly one worker) -/
theorem fmap_workers_exited (cfg : Cfg) (hw : Wellformed cfg) (s : St) (h : Reach cfg s) (hd : s.ppc = .done) :
    (∀ w ∈ s.workers, w.pc = .exited) ∧ s.workQ = [] ∧ s.resQ = [] := by
  first | exact WindVerif.FMap.fmap_workers_exited .. | (apply WindVerif.FMap.fmap_workers_exited <;> assumption)

/-- non-vacuity: two workers, results arriving out of order, still handed over in order -/
example : ((run (init ⟨2, 2, false, [2], false⟩) [.p, .p, .p, .p, .p, .p, .w 1, .w 0, .w 0, .w 1, .p, .p]).map (·.out)) =
    some [(1, 0), (1, 1)] := by decide
example : Wellformed ⟨2, 2, false, [2], false⟩ := by unfold Wellformed; decide

/-- non-vacuity of the `exact` caller (closes the generator at the last item of a call): after the last result of call 1 the
very next step of `P` is already the first `put` of call 2 -/
example : ((run (init ⟨2, 2, false, [2, 1], true⟩) [.p, .p, .p, .w 0, .w 0, .p, .p, .p, .w 0, .w 0, .p]).map
    (fun s => (s.out, s.callNo))) = some ([(1, 0), (1, 1)], 2) := by decide

end WindVerif.C05
