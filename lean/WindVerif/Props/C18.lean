import WindVerif.Proofs.ForkFile
import WindVerif.Proofs.ForkFileFd
/-!
# C18 — One opened line/map file can be read from many forked processes at once

Property theorems only (proofs in `Proofs/ForkFile.lean`).  Histories are arbitrary interleavings of `fork` (by any
process, children and grandchildren), `seek i line` and `read i`; `NotBy i a` says action `a` is not a seek/read of process
`i`.
-/
namespace WindVerif.C18
open WindVerif.ForkFile

/-- single user: two different processes that both legitimately use their handle never share a description; process ids
are unique -/
theorem single_user (s : St) (h : Reach s) (i j : Nat) (p q : Proc) (hi : s.procs[i]? = some p) (hj : s.procs[j]? = some q)
    (hne : i ≠ j) : p.pid ≠ q.pid ∧ (p.openedPid = some p.pid → q.openedPid = some q.pid → p.desc ≠ q.desc) := by
  first | exact WindVerif.ForkFile.single_user .. | (apply WindVerif.ForkFile.single_user <;> assumption)

/-- every process always has a handle (the file was opened before the first fork) -/
theorem has_handle (s : St) (h : Reach s) (i : Nat) (p : Proc) (hi : s.procs[i]? = some p) :
    ∃ d, p.desc = some d ∧ d < s.offsets.length ∧ p.openedPid.isSome := by
  first | exact WindVerif.ForkFile.has_handle .. | (apply WindVerif.ForkFile.has_handle <;> assumption)

/-- Processes never disturb each other's read position: after process `i` has positioned itself at `line`, whatever the
other processes do in between — seeks, reads, forks (also forks by `i` itself and by its children), in any number and any
interleaving — its next read returns exactly that line, the same it would get alone. -/
theorem read_own_line (s : St) (h : Reach s) (i line : Nat) (s1 : St) (hs : step s (.seek i line) = some (s1, none))
    (others : List Act) (ho : ∀ a ∈ others, NotBy i a) (s2 : St) (rs : List (Nat × Nat))
    (hrun : run s1 others = some (s2, rs)) :
    ∃ s3, step s2 (.read i) = some (s3, some line) := by
  first | exact WindVerif.ForkFile.read_own_line .. | (apply WindVerif.ForkFile.read_own_line <;> assumption)

/-- and sequential reads of one process continue line by line (iteration), undisturbed by the others -/
theorem read_next_line (s : St) (h : Reach s) (i : Nat) (s1 : St) (l : Nat) (hs : step s (.read i) = some (s1, some l))
    (others : List Act) (ho : ∀ a ∈ others, NotBy i a) (s2 : St) (rs : List (Nat × Nat))
    (hrun : run s1 others = some (s2, rs)) :
    ∃ s3, step s2 (.read i) = some (s3, some (l + 1)) := by
  first | exact WindVerif.ForkFile.read_next_line .. | (apply WindVerif.ForkFile.read_next_line <;> assumption)

/-- every action of an existing process is possible (no operation fails because of what others did) -/
theorem total (s : St) (h : Reach s) (a : Act)
    (hex : match a with | .fork i => i < s.procs.length | .seek i _ => i < s.procs.length | .read i => i < s.procs.length) :
    (step s a).isSome := by
  first | exact WindVerif.ForkFile.total .. | (apply WindVerif.ForkFile.total <;> assumption)

/-- non-vacuity: the child's seek lands between the parent's seek and read; both read their own line -/
example : (run init [.fork 0, .seek 0 3, .seek 1 7, .read 0, .read 1]).map (·.2) = some [(0, 3), (1, 7)] := by decide

end WindVerif.C18

/-!
## A forked child without a spare file descriptor (`Model/ForkFileFd.lean`)

`reopen_if_needed` closes the inherited handle first and opens its own afterwards; the other order needs a second
descriptor slot for a moment and, when the child has none, fails after the pid was already recorded.
-/
namespace WindVerif.C18
open WindVerif.ForkFileFd

/-- the code (close, then open) succeeds in a child with ANY number of free slots, also none: own handle, pid recorded,
the same number of free slots as before -/
theorem close_first_never_fails (p : P) (d fresh : Nat) (hh : p.handle = .inherited d) :
    (reopenCloseFirst p fresh).2 = true ∧ (reopenCloseFirst p fresh).1.handle = .own fresh ∧
      (reopenCloseFirst p fresh).1.claimed = true ∧ (reopenCloseFirst p fresh).1.free = p.free := by
  first | exact WindVerif.ForkFileFd.close_first_never_fails .. | (apply WindVerif.ForkFileFd.close_first_never_fails <;> assumption)

/-- the other order (record pid, open, close) fails in a child with a full descriptor table and leaves the inherited
handle with the pid already recorded -/
theorem open_first_fails_when_full (p : P) (d fresh : Nat) (hh : p.handle = .inherited d) (hf : p.free = 0) :
    (reopenOpenFirst p fresh).2 = false ∧ (reopenOpenFirst p fresh).1.handle = .inherited d ∧
      (reopenOpenFirst p fresh).1.claimed = true := by
  first | exact WindVerif.ForkFileFd.open_first_fails_when_full .. | (apply WindVerif.ForkFileFd.open_first_fails_when_full <;> assumption)

/-- such a state is stuck: the guard never fires again (whatever the reopen procedure is), the state does not change and
every later use by the child goes to the description the parent uses -/
theorem claimed_inherited_is_stuck (reopen : P → Nat → P × Bool) (parent child : P) (d : Nat)
    (hp : parent.handle = .own d) (hc : child.claimed = true) (hh : child.handle = .inherited d) (fs : List Nat) :
    (accesses reopen child fs).1 = child ∧ ∀ u ∈ (accesses reopen child fs).2, u = parent.handle.desc := by
  first | exact WindVerif.ForkFileFd.claimed_inherited_is_stuck .. | (apply WindVerif.ForkFileFd.claimed_inherited_is_stuck <;> assumption)

/-- with a free slot both orders end in the same state with the same outcome (ordinary use cannot tell them apart) -/
theorem open_first_ok_when_room (p : P) (fresh : Nat) (hf : p.free ≥ 1) :
    reopenOpenFirst p fresh = reopenCloseFirst p fresh := by
  first | exact WindVerif.ForkFileFd.open_first_ok_when_room .. | (apply WindVerif.ForkFileFd.open_first_ok_when_room <;> assumption)

/-- non-vacuity of the hypotheses: a forked child of a parent with `own 0` has `inherited 0`; with no free slot the failed
open-first reopen gives exactly the stuck state -/
example : (forkChild ⟨5, .own 0, true⟩ 0).handle = .inherited 0 ∧ (forkChild ⟨5, .own 0, true⟩ 0).free = 0 ∧
    (reopenOpenFirst (forkChild ⟨5, .own 0, true⟩ 0) 1).1 = ⟨0, .inherited 0, true⟩ := by decide
example : (⟨2, .inherited 0, false⟩ : P).free ≥ 1 ∧
    reopenOpenFirst ⟨2, .inherited 0, false⟩ 1 = (⟨2, .own 1, true⟩, true) := by decide

/-- witness: parent `own 0`, child forked with a full table.  After the failed open-first reopen the child's three next uses
all go to description 0, the parent's; -/
example :
    let parent : P := ⟨5, .own 0, true⟩
    let child := forkChild parent 0
    (reopenOpenFirst child 1).2 = false ∧
      (accesses reopenOpenFirst child [1, 2, 3]).2 = [parent.handle.desc, parent.handle.desc, parent.handle.desc] := by decide

/-- with the code's order they go to the child's own description 1, not to the parent's -/
example :
    let parent : P := ⟨5, .own 0, true⟩
    let child := forkChild parent 0
    (reopenCloseFirst child 1).2 = true ∧
      (accesses reopenCloseFirst child [1, 2, 3]).2 = [some 1, some 1, some 1] ∧ parent.handle.desc = some 0 ∧
      (accesses reopenCloseFirst child [1, 2, 3]).1 = ⟨0, .own 1, true⟩ := by decide

end WindVerif.C18
