import WindVerif.Proofs.ForkFile
/-!
# C18 — One opened line/map file can be read from many forked processes at once

Property theorems only (proofs in `Proofs/ForkFile.lean`).  Histories are arbitrary interleavings of `fork` (by any
process, children and grandchildren), `seek i line` and `read i`; `NotBy i a` says action `a` is not a seek/read of process
`i`.
-/
namespace WindVerif.C18
open WindVerif.ForkFile

/-- single user: two different processes that both legitimately use their handle never share a description; process ids
are unique -/
theorem single_user (s : St) (h : Reach s) (i j : Nat) (p q : Proc) (hi : s.procs[i]? = some p) (hj : s.procs[j]? = some q)
    (hne : i ≠ j) : p.pid ≠ q.pid ∧ (p.openedPid = some p.pid → q.openedPid = some q.pid → p.desc ≠ q.desc) := by
  first | exact WindVerif.ForkFile.single_user .. | (apply WindVerif.ForkFile.single_user <;> assumption)

/-- every process always has a handle (the file was opened before the first fork) -/
theorem has_handle (s : St) (h : Reach s) (i : Nat) (p : Proc) (hi : s.procs[i]? = some p) :
    ∃ d, p.desc = some d ∧ d < s.offsets.length ∧ p.openedPid.isSome := by
  first | exact WindVerif.ForkFile.has_handle .. | (apply WindVerif.ForkFile.has_handle <;> assumption)

/-- Processes never disturb each other's read position: after process `i` has positioned itself at `line`, whatever the
other processes do in between — seeks, reads, forks (also forks by `i` itself and by its children), in any number and any
interleaving — its next read returns exactly that line, the same it would get alone. -/
theorem read_own_line (s : St) (h : Reach s) (i line : Nat) (s1 : St) (hs : step s (.seek i line) = some (s1, none))
    (others : List Act) (ho : ∀ a ∈ others, NotBy i a) (s2 : St) (rs : List (Nat × Nat))
    (hrun : run s1 others = some (s2, rs)) :
    ∃ s3, step s2 (.read i) = some (s3, some line) := by
  first | exact WindVerif.ForkFile.read_own_line .. | (apply WindVerif.ForkFile.read_own_line <;> assumption)

/-- and sequential reads of one process continue line by line (iteration), undisturbed by the others -/
theorem read_next_line (s : St) (h : Reach s) (i : Nat) (s1 : St) (l : Nat) (hs : step s (.read i) = some (s1, some l))
    (others : List Act) (ho : ∀ a ∈ others, NotBy i a) (s2 : St) (rs : List (Nat × Nat))
    (hrun : run s1 others = some (s2, rs)) :
    ∃ s3, step s2 (.read i) = some (s3, some (l + 1)) := by
  first | exact WindVerif.ForkFile.read_next_line .. | (apply WindVerif.ForkFile.read_next_line <;> assumption)

/-- every action of an existing process is possible (no operation fails because of what others did) -/
theorem total (s : St) (h : Reach s) (a : Act)
    (hex : match a with | .fork i => i < s.procs.length | .seek i _ => i < s.procs.length | .read i => i < s.procs.length) :
    (step s a).isSome := by
  first | exact WindVerif.ForkFile.total .. | (apply WindVerif.ForkFile.total <;> assumption)

/-- non-vacuity: the child's seek lands between the parent's seek and read; both read their own line -/
example : (run init [.fork 0, .seek 0 3, .seek 1 7, .read 0, .read 1]).map (·.2) = some [(0, 3), (1, 7)] := by decide

end WindVerif.C18
