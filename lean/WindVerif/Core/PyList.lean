/-
Python list / sequence index conventions used by several models: negative indices, `list.insert` clamping,
`slice.indices` (what `range(len)[slice]` enumerates).
-/
namespace WindVerif.Py

/-- `lst[i]` for an `int` index: negative counts from the end; `none` = `IndexError` -/
def index (len : Nat) (i : Int) : Option Nat :=
  if 0 ≤ i then (if i < len then some i.toNat else none)
  else (if -i ≤ len then some (len - (-i).toNat) else none)

/-- position where `list.insert(i, x)` puts the element (clamped to `0 .. len`) -/
def insertPos (len : Nat) (i : Int) : Nat :=
  if 0 ≤ i then min i.toNat len
  else if -i ≤ len then len - (-i).toNat else 0

def insertAt {α} (l : List α) (pos : Nat) (x : α) : List α := l.take pos ++ x :: l.drop pos

/-- a Python slice `start:stop:step` (each may be omitted) -/
structure Slice where
  start : Option Int
  stop  : Option Int
  step  : Option Int

/-- clamp a given bound as `PySlice_AdjustIndices` does -/
def clampBound (len : Nat) (lower upper : Int) (v : Int) : Int :=
  let v := if v < 0 then v + len else v
  if v < lower then lower else if v > upper then upper else v

/-- enumerate `count` indices `start, start+step, …` -/
def enumFrom (start step : Int) : Nat → List Int
  | 0 => []
  | n + 1 => start :: enumFrom (start + step) step n

/-- the indices `range(len)[slice]` enumerates; `none` = `ValueError` (step 0) -/
def sliceIndices (len : Nat) (s : Slice) : Option (List Nat) :=
  let step := s.step.getD 1
  if step = 0 then none else
  if step > 0 then
    let start := match s.start with | some v => clampBound len 0 len v | none => 0
    let stop := match s.stop with | some v => clampBound len 0 len v | none => (len : Int)
    let count := if start < stop then ((stop - start + step - 1) / step).toNat else 0
    some ((enumFrom start step count).map Int.toNat)
  else
    let start := match s.start with | some v => clampBound len (-1) ((len : Int) - 1) v | none => (len : Int) - 1
    let stop := match s.stop with | some v => clampBound len (-1) ((len : Int) - 1) v | none => -1
    let count := if stop < start then ((start - stop + (-step) - 1) / (-step)).toNat else 0
    some ((enumFrom start step count).map Int.toNat)

end WindVerif.Py
