import WindVerif.Core.PyList
/-
`list.index(value, start, stop)` of Python (CPython `list_index_impl`): the reference the inherited
`collections.abc.Sequence.index` of the models is compared with.

    if (start < 0) { start += Py_SIZE(self); if (start < 0) start = 0; }
    if (stop < 0)  { stop  += Py_SIZE(self); if (stop  < 0) stop  = 0; }
    for (i = start; i < stop && i < Py_SIZE(self); i++) if (self[i] == value) return i;
    raise ValueError

An omitted `start` is `0`, an omitted `stop` is `sys.maxsize` (here: `none`).
-/
namespace WindVerif.Py

/-- a `start` / `stop` argument as the loop of `list.index` sees it: a negative one counts from the end and is then
clamped to `0` -/
def clampIdx (len : Nat) (i : Int) : Nat := if i < 0 then (i + (len : Int)).toNat else i.toNat

/-- the loop `for (i = a; i < a + n; i++) if (l[i] == v) return i;` (`none`: it ran to its end) -/
def scanIdx {α} [DecidableEq α] (l : List α) (v : α) : Nat → Nat → Option Nat
  | _, 0 => none
  | a, n + 1 => if l[a]? = some v then some a else scanIdx l v (a + 1) n

/-- first position scanned -/
def idxLo (len : Nat) (start : Option Int) : Nat :=
  match start with
  | none => 0
  | some s => clampIdx len s

/-- end of the scan (exclusive) -/
def idxHi (len : Nat) (stop : Option Int) : Nat :=
  match stop with
  | none => len
  | some s => min (clampIdx len s) len

/-- `l.index(v, start, stop)`; `none` = `ValueError` -/
def pyListIndex {α} [DecidableEq α] (l : List α) (v : α) (start stop : Option Int) : Option Nat :=
  scanIdx l v (idxLo l.length start) (idxHi l.length stop - idxLo l.length start)

theorem scanIdx_eq_some_iff {α} [DecidableEq α] (l : List α) (v : α) (n : Nat) : ∀ (a k : Nat),
    scanIdx l v a n = some k ↔ a ≤ k ∧ k < a + n ∧ l[k]? = some v ∧ ∀ j, a ≤ j → j < k → l[j]? ≠ some v := by
  induction n with
  | zero => intro a k; simp only [scanIdx]; constructor
            · intro h; cases h
            · intro ⟨h1, h2, _⟩; omega
  | succ n ih =>
    intro a k
    unfold scanIdx
    by_cases hv : l[a]? = some v
    · simp only [hv, if_true, Option.some.injEq]
      constructor
      · intro h; subst h
        exact ⟨Nat.le_refl _, by omega, hv, fun j h1 h2 => by omega⟩
      · intro ⟨h1, _, _, h4⟩
        by_cases hk : a = k
        · exact hk
        · exact absurd hv (h4 a (Nat.le_refl _) (by omega))
    · simp only [hv, if_false]
      rw [ih (a + 1) k]
      constructor
      · intro ⟨h1, h2, h3, h4⟩
        refine ⟨by omega, by omega, h3, ?_⟩
        intro j hj1 hj2
        by_cases hja : j = a
        · subst hja; exact hv
        · exact h4 j (by omega) hj2
      · intro ⟨h1, h2, h3, h4⟩
        have hne : a ≠ k := by
          intro h; subst h; exact hv h3
        exact ⟨by omega, by omega, h3, fun j hj1 hj2 => h4 j (by omega) hj2⟩

theorem scanIdx_eq_none_iff {α} [DecidableEq α] (l : List α) (v : α) (n : Nat) : ∀ (a : Nat),
    scanIdx l v a n = none ↔ ∀ j, a ≤ j → j < a + n → l[j]? ≠ some v := by
  induction n with
  | zero => intro a; simp only [scanIdx, true_iff]; intro j h1 h2; omega
  | succ n ih =>
    intro a
    unfold scanIdx
    by_cases hv : l[a]? = some v
    · simp only [hv, if_true]
      constructor
      · intro h; cases h
      · intro h; exact absurd hv (h a (Nat.le_refl _) (by omega))
    · simp only [hv, if_false]
      rw [ih (a + 1)]
      constructor
      · intro h j hj1 hj2
        by_cases hja : j = a
        · subst hja; exact hv
        · exact h j (by omega) (by omega)
      · intro h j hj1 hj2
        exact h j (by omega) (by omega)

/-- `l.index(v, start, stop) == k`: `k` is the first position in `[start', min(stop', len))` that holds `v` -/
theorem pyListIndex_eq_some_iff {α} [DecidableEq α] (l : List α) (v : α) (start stop : Option Int) (k : Nat) :
    pyListIndex l v start stop = some k ↔
      idxLo l.length start ≤ k ∧ k < idxHi l.length stop ∧ l[k]? = some v ∧
      ∀ j, idxLo l.length start ≤ j → j < k → l[j]? ≠ some v := by
  unfold pyListIndex
  rw [scanIdx_eq_some_iff]
  constructor
  · intro ⟨h1, h2, h3, h4⟩; exact ⟨h1, by omega, h3, h4⟩
  · intro ⟨h1, h2, h3, h4⟩; exact ⟨h1, by omega, h3, h4⟩

/-- `l.index(v, start, stop)` raises `ValueError`: no position in `[start', min(stop', len))` holds `v` -/
theorem pyListIndex_eq_none_iff {α} [DecidableEq α] (l : List α) (v : α) (start stop : Option Int) :
    pyListIndex l v start stop = none ↔
      ∀ j, idxLo l.length start ≤ j → j < idxHi l.length stop → l[j]? ≠ some v := by
  unfold pyListIndex
  rw [scanIdx_eq_none_iff]
  constructor
  · intro h j h1 h2; exact h j h1 (by omega)
  · intro h j h1 h2; exact h j h1 (by omega)

theorem idxHi_le (len : Nat) (stop : Option Int) : idxHi len stop ≤ len := by
  unfold idxHi; split
  · exact Nat.le_refl _
  · exact Nat.min_le_right _ _

theorem idxOf_le_of_getElem? {α} [DecidableEq α] (l : List α) (v : α) : ∀ (j : Nat), l[j]? = some v → l.idxOf v ≤ j := by
  induction l with
  | nil => intro j h; simp at h
  | cons a t ih =>
    intro j h
    rw [List.idxOf_cons]
    by_cases hav : a = v
    · simp [hav]
    · have hb : (a == v) = false := by simpa using hav
      cases j with
      | zero => simp at h; exact absurd h hav
      | succ j =>
        simp only [List.getElem?_cons_succ] at h
        have := ih j h
        rw [hb]; simp only [cond_false]; omega

/-- without bounds: `ValueError` exactly when the value is absent, otherwise the first position (`List.idxOf`) -/
theorem pyListIndex_default {α} [DecidableEq α] (l : List α) (v : α) :
    pyListIndex l v none none = if v ∈ l then some (l.idxOf v) else none := by
  split
  · rename_i hm
    rw [pyListIndex_eq_some_iff]
    have hlt : l.idxOf v < l.length := List.idxOf_lt_length_of_mem hm
    refine ⟨Nat.zero_le _, hlt, ?_, ?_⟩
    · rw [List.getElem?_eq_getElem hlt, List.getElem_idxOf]
    · intro j _ hj hjv
      have := idxOf_le_of_getElem? l v j hjv
      omega
  · rename_i hm
    rw [pyListIndex_eq_none_iff]
    intro j _ _ hjv
    exact hm (List.mem_of_getElem? hjv)

end WindVerif.Py
