import WindVerif.Model.Buffers
/-
`PrintBuffer` of `windpyutils/buffers.py` with an output stream that can fail (a full pipe, a closed descriptor).

The stream is an oracle `ok : Nat → Bool`: `ok n` tells whether the `n`-th *attempted* write of a value succeeds (attempts are
counted from 0 over the whole life of the object; the write of the terminator is not modelled separately).  The state is the
old `PBuf` (`buffer`, `wf`, `out`) plus the number of attempts made so far.  A failed write raises (`OSError` in the tests): the
operation is aborted at that statement and `_buffer` / `_waiting_for` stay as they are at that moment.  The statement order of
the Python code is kept exactly:

    print:  if serial_number == self._waiting_for:
                self._print(value)                       # (1)
                self._waiting_for += 1
                while self._waiting_for in self._buffer:
                    self._print(self._buffer[self._waiting_for])      # (2)  FIRST the write
                    del self._buffer[self._waiting_for]               #      THEN the deletion
                    self._waiting_for += 1                            #      and the counting
                return True
            else:
                self._buffer[serial_number] = value
                return False

    flush:  serial_number = self._waiting_for - 1
            for serial_number in sorted(self._buffer.keys()):
                self._print(self._buffer[serial_number])              # (3)
                del self._buffer[serial_number]
            self._waiting_for = serial_number + 1                     # not reached after an exception
-/
namespace WindVerif.Buffers

structure PBufF extends PBuf where
  /-- number of value writes attempted so far -/
  att : Nat

def PBufF.empty : PBufF := ⟨PBuf.empty, 0⟩

/-- `self._print(value)`: the attempt is counted; when the stream accepts it the value is appended to the output.  The result
tells whether the write succeeded (`false` = the exception is raised). -/
def PBufF.write (ok : Nat → Bool) (s : PBufF) (x : Nat) : PBufF × Bool :=
  if ok s.att then ({ s with out := s.out ++ [x], att := s.att + 1 }, true)
  else ({ s with att := s.att + 1 }, false)

/-- the `while self._waiting_for in self._buffer` loop of `print` (fuel: one more than the number of stored values suffices,
`chaseF_fuel`) -/
def PBufF.chaseF (ok : Nat → Bool) : Nat → PBufF → PBufF × Except Unit Unit
  | 0, s => (s, .ok ())
  | fuel + 1, s =>
    match sGet s.buffer s.wf with
    | none => (s, .ok ())
    | some x =>
      match s.write ok x with                      -- self._print(self._buffer[self._waiting_for])
      | (s1, false) => (s1, .error ())             -- raised: nothing deleted, nothing counted
      | (s1, true) =>
        PBufF.chaseF ok fuel { s1 with buffer := sDel s1.buffer s1.wf, wf := s1.wf + 1 }

/-- `print(serial_number, value)`: the new state and either the returned flag or the raised exception -/
def PBufF.printF (ok : Nat → Bool) (s : PBufF) (sn x : Nat) : PBufF × Except Unit Bool :=
  if sn = s.wf then
    match s.write ok x with                        -- self._print(value)
    | (s1, false) => (s1, .error ())               -- raised: `_waiting_for` is not advanced, the value is not stored
    | (s1, true) =>
      match PBufF.chaseF ok (s1.buffer.length + 1) { s1 with wf := s1.wf + 1 } with
      | (s2, .ok ()) => (s2, .ok true)
      | (s2, .error ()) => (s2, .error ())
  else
    ({ s with buffer := sSet s.buffer sn x }, .ok false)

/-- the `for serial_number in sorted(...)` loop of `flush` over the (already sorted) entries; `last` is the Python variable
`serial_number`.  Result: state, the value of `serial_number`, and whether the loop ran to its end. -/
def PBufF.flushLoop (ok : Nat → Bool) : List (Nat × Nat) → PBufF → Int → PBufF × Int × Bool
  | [], s, last => (s, last, true)
  | (k, v) :: r, s, _ =>
    match s.write ok v with                        -- self._print(self._buffer[serial_number])
    | (s1, false) => (s1, (k : Int), false)        -- raised: the entry stays in `_buffer`
    | (s1, true) => PBufF.flushLoop ok r { s1 with buffer := sDel s1.buffer k } (k : Int)

/-- `flush()`; after an exception `_waiting_for` has NOT been set -/
def PBufF.flushF (ok : Nat → Bool) (s : PBufF) : PBufF × Except Unit Unit :=
  let sorted := s.buffer.mergeSort (fun p q => p.1 ≤ q.1)
  match PBufF.flushLoop ok sorted s ((s.wf : Int) - 1) with
  | (s1, _, false) => (s1, .error ())
  | (s1, last, true) => ({ s1 with wf := (last + 1).toNat }, .ok ())

def PBufF.clear (s : PBufF) : PBufF := { s with buffer := [], wf := 0 }
def PBufF.len (s : PBufF) : Nat := s.buffer.length

/-! ### The ALTERNATIVE statement order (what a "refactoring" with `pop` might produce): a value is taken out of the dict and
counted BEFORE it is written.  Used only for the counterexample `delete_before_write_loses`. -/

def PBufF.chaseF' (ok : Nat → Bool) : Nat → PBufF → PBufF × Except Unit Unit
  | 0, s => (s, .ok ())
  | fuel + 1, s =>
    match sGet s.buffer s.wf with
    | none => (s, .ok ())
    | some x =>
      -- value = self._buffer.pop(self._waiting_for); self._waiting_for += 1; self._print(value)
      match ({ s with buffer := sDel s.buffer s.wf, wf := s.wf + 1 } : PBufF).write ok x with
      | (s1, false) => (s1, .error ())
      | (s1, true) => PBufF.chaseF' ok fuel s1

def PBufF.printF' (ok : Nat → Bool) (s : PBufF) (sn x : Nat) : PBufF × Except Unit Bool :=
  if sn = s.wf then
    match ({ s with wf := s.wf + 1 } : PBufF).write ok x with     -- self._waiting_for += 1; self._print(value)
    | (s1, false) => (s1, .error ())
    | (s1, true) =>
      match PBufF.chaseF' ok (s1.buffer.length + 1) s1 with
      | (s2, .ok ()) => (s2, .ok true)
      | (s2, .error ()) => (s2, .error ())
  else
    ({ s with buffer := sSet s.buffer sn x }, .ok false)

/-! ### Histories -/

inductive EvF
  | print (sn : Nat)
  | flush
  deriving DecidableEq, Repr

/-- the serial numbers of the `print` calls of a history, in call order -/
def printed : List EvF → List Nat
  | [] => []
  | .print sn :: r => sn :: printed r
  | .flush :: r => printed r

def noFlush (evs : List EvF) : Prop := ∀ e ∈ evs, e ≠ EvF.flush

/-- The state together with two ghost lists.  A `print(sn, v)` call is *refused* when `sn` is the awaited serial and the stream
rejects the very first write `(1)`: the call raises and has changed nothing but the attempt counter (`printF_refused`), so the
value is still with the caller, who sees the exception (and may call again).  Every other `print` call has *taken* its value:
it has been written or stored (even when the call raises later, at `(2)`). -/
structure GSt where
  st      : PBufF
  taken   : List Nat
  refused : List Nat

def GSt.init : GSt := ⟨PBufF.empty, [], []⟩

def refuses (ok : Nat → Bool) (s : PBufF) (sn : Nat) : Bool := sn == s.wf && !ok s.att

def stepG (ok : Nat → Bool) (f : Nat → Nat) (g : GSt) : EvF → GSt
  | .print sn =>
    if refuses ok g.st sn then ⟨(g.st.printF ok sn (f sn)).1, g.taken, g.refused ++ [sn]⟩
    else ⟨(g.st.printF ok sn (f sn)).1, g.taken ++ [sn], g.refused⟩
  | .flush => ⟨(g.st.flushF ok).1, g.taken, g.refused⟩

/-- run a history; the value of serial `i` is `f i` -/
def runG (ok : Nat → Bool) (f : Nat → Nat) (g : GSt) (evs : List EvF) : GSt := evs.foldl (stepG ok f) g

/-- "serial numbers are unique" in its weakest useful form: no `print` call for a serial whose value has already been taken
(calling again after a refusal is allowed).  `(printed evs).Nodup` implies it (`fresh_of_nodup`). -/
def Fresh (ok : Nat → Bool) (f : Nat → Nat) : GSt → List EvF → Prop
  | _, [] => True
  | g, .print sn :: r => sn ∉ g.taken ∧ Fresh ok f (stepG ok f g (.print sn)) r
  | g, .flush :: r => Fresh ok f (stepG ok f g .flush) r

end WindVerif.Buffers
