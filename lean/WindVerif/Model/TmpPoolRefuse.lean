import WindVerif.Model.TmpPool
/-!
`TmpPool.remove` / `TmpPool.flush` when the operating system refuses to unlink a file or the call is interrupted (C20).

```python
    def remove(self, p: str):
        try:
            os.remove(p)
        except FileNotFoundError:
            pass            # already removed
        self._created_files.remove(p)     # ValueError if p is not listed

    def flush(self):
        for p in self._created_files:
            try:
                os.remove(p)
            except FileNotFoundError:
                pass
        del self._created_files[:]
```

`os.remove` may raise something else than `FileNotFoundError` (`PermissionError` in a read-only directory) or be interrupted
(`KeyboardInterrupt`).  The exception then leaves `remove` BEFORE the list is touched, and leaves `flush` inside the loop,
before the list is cleared.  The file system of `Model/TmpPool.lean` is extended by a set of *protected* paths
(`prot`): unlinking an existing protected path is refused for now.  `Pool` itself is unchanged and is carried beside `prot`.

`removeUnlistFirst` is a seeded variant of `remove` with the two statements swapped (first `list.remove(p)`, then `os.remove`).

Every operation returns the state after the call together with what the call did (`Res`): an operation that raises leaves
what it had already done.
-/
namespace WindVerif.TmpPoolRefuse
open WindVerif.TmpPool

structure PoolR where
  pool : Pool
  prot : List Path            -- unlinking these paths is refused for now

/-- how a call ended: normally, with the refused / interrupted `os.remove`, with `ValueError` (path not listed), or the process
does not exist -/
inductive Res | ok | refused | valueError | badProcess
  deriving DecidableEq, Repr

def PoolR.new : PoolR := { pool := Pool.new, prot := [] }

/-- `os.remove(p)` would be refused now: the file exists and is protected -/
def PoolR.refuses (s : PoolR) (p : Path) : Bool := s.prot.contains p && s.pool.fs.contains p

/-- `create()`: as `Pool.create` (creating files is not refused) -/
def createR (s : PoolR) (pid : Nat) : PoolR × Res :=
  match s.pool.create pid with
  | .ok (s', _) => ({ s with pool := s' }, .ok)
  | .error .valueError => (s, .valueError)
  | .error .badProcess => (s, .badProcess)

/-- `remove(p)`: a refused `os.remove` raises before the list is touched (nothing changes); otherwise the file is gone
(a missing one is fine) and `list.remove(p)` follows (`ValueError` if not listed: the file is gone anyway) -/
def removeR (s : PoolR) (pid : Nat) (p : Path) : PoolR × Res :=
  match s.pool.listOf pid with
  | none => (s, .badProcess)
  | some l =>
    if s.refuses p then (s, .refused)
    else
      let s1 : Pool := { s.pool with fs := s.pool.fs.filter (· ≠ p) }
      if l.contains p then ({ s with pool := s1.setList pid (l.erase p) }, .ok)
      else ({ s with pool := s1 }, .valueError)

/-- the seeded variant: first `list.remove(p)` (`ValueError` if not listed, nothing else happens), then `os.remove(p)`, which
is refused for an existing protected file — but the path is unlisted already -/
def removeUnlistFirst (s : PoolR) (pid : Nat) (p : Path) : PoolR × Res :=
  match s.pool.listOf pid with
  | none => (s, .badProcess)
  | some l =>
    if l.contains p then
      let s1 : Pool := s.pool.setList pid (l.erase p)
      if s.refuses p then ({ s with pool := s1 }, .refused)
      else ({ s with pool := { s1 with fs := s1.fs.filter (· ≠ p) } }, .ok)
    else (s, .valueError)

/-- the loop of `flush()` over the listed paths, on the disk `fs`: the disk afterwards, and whether the loop ran to its end
(`false`: an `os.remove` was refused, the loop was left there) -/
def flushWalk (prot : List Path) : List Path → List Path → List Path × Bool
  | fs, [] => (fs, true)
  | fs, p :: r =>
    if prot.contains p && fs.contains p then (fs, false)
    else flushWalk prot (fs.filter (· ≠ p)) r

/-- `flush()`: the loop; only when it ran to its end the list is cleared in place -/
def flushR (s : PoolR) (pid : Nat) : PoolR × Res :=
  match s.pool.listOf pid with
  | none => (s, .badProcess)
  | some l =>
    match flushWalk s.prot s.pool.fs l with
    | (fs', true) => ({ s with pool := ({ s.pool with fs := fs' }).setList pid [] }, .ok)
    | (fs', false) => ({ s with pool := { s.pool with fs := fs' } }, .refused)

def forkR (s : PoolR) (pid : Nat) : PoolR × Res :=
  match s.pool.fork pid with
  | .ok (s', _) => ({ s with pool := s' }, .ok)
  | .error .valueError => (s, .valueError)
  | .error .badProcess => (s, .badProcess)

/-- somebody else deletes a file (it respects nothing: the protection is about what this process may do) -/
def unlinkR (s : PoolR) (p : Path) : PoolR := { s with pool := s.pool.unlink p }

def protect (s : PoolR) (p : Path) : PoolR := { s with prot := p :: s.prot }
/-- the directory allows removing `p` again -/
def unprotect (s : PoolR) (p : Path) : PoolR := { s with prot := s.prot.filter (· ≠ p) }
def unprotectAll (s : PoolR) : PoolR := { s with prot := [] }

/-- leaving the context: `__exit__` is `flush()` by the owner -/
def exitR (s : PoolR) : PoolR × Res := flushR s 0

/-- the operations of a history -/
inductive ROp
  | create (pid : Nat) | removeR (pid : Nat) (p : Path) | flushR (pid : Nat) | fork (pid : Nat)
  | unlink (p : Path)
  | protect (p : Path) | unprotect (p : Path) | unprotectAll
  deriving DecidableEq, Repr

def applyR (s : PoolR) : ROp → PoolR
  | .create pid => (createR s pid).1
  | .removeR pid p => (removeR s pid p).1
  | .flushR pid => (flushR s pid).1
  | .fork pid => (forkR s pid).1
  | .unlink p => unlinkR s p
  | .protect p => protect s p
  | .unprotect p => unprotect s p
  | .unprotectAll => unprotectAll s

def runRFrom (s : PoolR) (ops : List ROp) : PoolR := ops.foldl applyR s

/-- a history from the entered pool (`Pool.new`), nothing protected -/
def runR (ops : List ROp) : PoolR := runRFrom PoolR.new ops

end WindVerif.TmpPoolRefuse
