/-
Models of `windpyutils/buffers.py` (`Buffer`, `PrintBuffer`) and `windpyutils/structures/circular_buffer.py`.
Items are natural numbers (the code never inspects them).  Python dicts are association lists without repeated keys.
-/
namespace WindVerif.Buffers

inductive Err | attributeError | indexError
  deriving DecidableEq, Repr

abbrev Store := List (Nat × Nat)

def sGet (s : Store) (i : Nat) : Option Nat := s.lookup i
def sDel (s : Store) (i : Nat) : Store := s.filter (fun p => p.1 ≠ i)
def sSet (s : Store) (i x : Nat) : Store := (i, x) :: sDel s i

/-! ## Buffer -/

structure Buf where
  storage : Store
  wf      : Nat

def Buf.empty : Buf := ⟨[], 0⟩

/-- `__call__(i, x)`: `AttributeError` for an already generated position, else `storage[i] = x` -/
def Buf.put (b : Buf) (i x : Nat) : Except Err Buf :=
  if i < b.wf then .error .attributeError else .ok { b with storage := sSet b.storage i x }

/-- `__iter__` consumed completely: `while waiting_for in storage: yield; del; waiting_for += 1` -/
def Buf.drainLoop : Nat → Buf → List Nat → Buf × List Nat
  | 0, b, out => (b, out)
  | fuel + 1, b, out =>
    match sGet b.storage b.wf with
    | some x => Buf.drainLoop fuel ⟨sDel b.storage b.wf, b.wf + 1⟩ (out ++ [x])
    | none => (b, out)

def Buf.drain (b : Buf) : Buf × List Nat := Buf.drainLoop (b.storage.length + 1) b []

def Buf.flush (_ : Buf) : Buf := Buf.empty
def Buf.len (b : Buf) : Nat := b.storage.length

/-! ## PrintBuffer (the output file is the list of printed values) -/

structure PBuf where
  buffer : Store
  wf     : Nat
  out    : List Nat

def PBuf.empty : PBuf := ⟨[], 0, []⟩

def PBuf.chase : Nat → PBuf → PBuf
  | 0, b => b
  | fuel + 1, b =>
    match sGet b.buffer b.wf with
    | some x => PBuf.chase fuel ⟨sDel b.buffer b.wf, b.wf + 1, b.out ++ [x]⟩
    | none => b

/-- `print(serial_number, value)`; returns whether something was printed -/
def PBuf.print (b : PBuf) (sn x : Nat) : PBuf × Bool :=
  if sn = b.wf then
    (PBuf.chase (b.buffer.length + 1) ⟨b.buffer, b.wf + 1, b.out ++ [x]⟩, true)
  else
    ({ b with buffer := sSet b.buffer sn x }, false)

/-- `flush()`: everything stored is printed in ascending serial order; `waiting_for` = biggest serial + 1 (unchanged
when nothing is stored) -/
def PBuf.flush (b : PBuf) : PBuf :=
  let sorted := b.buffer.mergeSort (fun p q => p.1 ≤ q.1)
  match sorted.getLast? with
  | none => b
  | some last => ⟨[], last.1 + 1, b.out ++ sorted.map (·.2)⟩

def PBuf.clear (b : PBuf) : PBuf := ⟨[], 0, b.out⟩
def PBuf.len (b : PBuf) : Nat := b.buffer.length

/-! ## CircularBuffer -/

structure Ring where
  buffer : List Nat      -- length = max_size, fixed
  size   : Nat
  offset : Nat

def Ring.new (c : Nat) : Ring := ⟨List.replicate c 0, 0, 0⟩

def Ring.maxSize (r : Ring) : Nat := r.buffer.length

def Ring.put (r : Ring) (e : Nat) : Ring :=
  { buffer := r.buffer.set r.offset e,
    offset := (r.offset + 1) % r.maxSize,
    size := if r.size < r.maxSize then r.size + 1 else r.size }

def Ring.clear (r : Ring) : Ring := { r with size := 0, offset := 0 }

/-- `__getitem__(offset)` for an `int` index (negative indices are rejected like too large ones) -/
def Ring.get (r : Ring) (i : Int) : Except Err Nat :=
  if i ≥ r.size ∨ i < 0 then .error .indexError else
  let idx := (((r.offset : Int) - (r.size : Int) + i) % (r.maxSize : Int)).toNat   -- Python's non-negative `%`
  match r.buffer[idx]? with
  | some x => .ok x
  | none => .error .indexError

/-- `list(ring)`: the `Sequence` mixin iterates `self[0], self[1], …` until `IndexError` -/
def Ring.toList (r : Ring) : List Nat :=
  (List.range r.size).filterMap (fun (i : Nat) => match r.get (i : Int) with | .ok x => some x | .error _ => none)

end WindVerif.Buffers
