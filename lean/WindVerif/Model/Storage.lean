/-
Small-step interleaving model of `windpyutils/parallel/storage.py:TextFileStorage` (C14, after the repairs D13/D14/D20).

Any number of processes, each with its own fork-style copy of the storage object (private: process identifier, write
handle, read handles) and a script of operations (`store`, `read`, `len`, `is_contiguous`, iterate, `flush`, `close`).  Shared:
the manager lists `_file_paths` and `_index`, the counters `_stored_cnt` and `_waiting_for`, the re-entrant cross-process
lock, and the files.  One step = one visible operation: a manager-list call, a counter read or write, a lock
acquire/release, `open`, `tell`, `write`, `flush`, `seek`, `readline`, `os.remove`.  A `write` is visible to readers at once
(the adversarial reading of "flushed writes may reach the file in pieces": `print` writes the text and the terminator as two
separate `write`s).

Texts are represented by natural numbers (text number `t` stands for some single-line string); a file is the list of its
`write`s: `some t` = the text `t`, `none` = a line terminator.  An offset is an index into that list.
-/
namespace WindVerif.Storage

/-- an operation of a process script -/
inductive Op
  | store (gid : Nat) (text : Nat)
  | read (gid : Nat)
  | len
  | contig
  | iter
  | flush
  | close                       -- `close()` / leaving the `with storage:` block (`__exit__`): the session ends, the process goes on
  deriving DecidableEq, Repr

/-- what an operation returned -/
inductive Res
  | ok
  | text (line : List (Option Nat))     -- what `readline()` produced: the writes from the offset up to and incl. the first terminator
  | nat (n : Nat)
  | bool (b : Bool)
  | texts (ls : List (List (Option Nat)))
  | indexError | valueError
  deriving DecidableEq, Repr

/-- program counters: which visible operation comes next -/
inductive Pc
  | idle                        -- fetch the next script op (no visible operation by itself)
  -- open()
  | oAcq | oPathsLen | oPathsAppend | oRel | oOpenW | oPathsGet | oOpenA
  -- __setitem__
  | sAcq | sIdxLen1 | sIdxLen2 | sIdxExtend | sIdxGet | sTell | sWriteText | sWriteNl | sFlush | sIdxSet
  | sCntRead | sCntWrite | sWfRead1 | sWfRead2 | sWfWrite1 | sLoopWf | sLoopCnt | sLoopWf2 | sLoopIdx | sLoopWfR | sLoopWfW
  | sRelErr | sRel
  -- __getitem__
  | gAcq | gIdxLen | gIdxGet | gRelErr | gRel | gPathsGet | gOpenR | gSeek | gReadline
  -- __len__, is_contiguous
  | lCnt | cWf | cCnt
  -- __iter__
  | iAcq | iIdxLen | iRel
  -- flush()
  | fAcq | fPathsGet | fRemove | fPathsClear | fIdxClear | fCntZero | fWfZero | fRel
  -- close() / __exit__
  | xClose
  deriving DecidableEq, Repr

structure Proc where
  script  : List Op
  pc      : Pc
  ident   : Option Nat          -- `_process_identifier`
  wOpen   : Bool                -- `_file` is open
  rOpen   : List Nat            -- writer ids whose file this process has opened for reading
  results : List Res
  -- locals of the operation in progress
  gid     : Nat
  text    : Nat
  tmp     : Nat                 -- a value just read (lengths, counters)
  off     : Nat
  target  : Nat                 -- writer id of the entry being read
  inIter  : Bool                -- the current read belongs to an iteration
  iterPos : Nat
  iterLen : Nat
  iterAcc : List (List (Option Nat))
  depth   : Nat                 -- how many times this process holds the re-entrant lock
  deriving Repr

structure St where
  procs   : List Proc
  paths   : List (Option Nat)          -- `_file_paths`: path = writer id (`none` never occurs; kept for fidelity)
  index   : List (Option (Nat × Nat))  -- `_index`: (writer id, offset)
  cnt     : Nat                        -- `_stored_cnt`
  wf      : Nat                        -- `_waiting_for`
  lock    : Option Nat                 -- holder (process number)
  files   : List (Nat × List (Option Nat))   -- existing files: writer id ↦ writes
  deriving Repr

def mkProc (script : List Op) : Proc :=
  { script := script, pc := .idle, ident := none, wOpen := false, rOpen := [], results := [], gid := 0, text := 0, tmp := 0,
    off := 0, target := 0, inIter := false, iterPos := 0, iterLen := 0, iterAcc := [], depth := 0 }

/-- `number_of_data` pre-sizes the index -/
def init (presize : Nat) (scripts : List (List Op)) : St :=
  { procs := scripts.map mkProc, paths := [], index := List.replicate presize none, cnt := 0, wf := 0, lock := none, files := [] }

def fileOf (s : St) (w : Nat) : Option (List (Option Nat)) := s.files.lookup w
def setFile (s : St) (w : Nat) (c : List (Option Nat)) : St :=
  { s with files := (w, c) :: s.files.filter (fun p => p.1 ≠ w) }

/-- `readline()` at an offset: everything up to and including the first terminator (or to the end of the file) -/
def readlineAt (c : List (Option Nat)) (off : Nat) : List (Option Nat) :=
  let rest := c.drop off
  let rec go : List (Option Nat) → List (Option Nat)
    | [] => []
    | none :: _ => [none]
    | some t :: r => some t :: go r
  go rest

/-- begin the next script operation: sets the pc of its first visible operation (thread-local) -/
def fetch (p : Proc) : Proc :=
  match p.script with
  | [] => p
  | op :: rest =>
    let p := { p with script := rest }
    match op with
    | .store g t =>
      let p := { p with gid := g, text := t }
      -- `self.open()` first
      if p.wOpen then { p with pc := .sAcq }
      else match p.ident with
        | none => { p with pc := .oAcq }
        | some _ => { p with pc := .oPathsGet }
    | .read g => { p with gid := g, inIter := false, pc := .gAcq }
    | .len => { p with pc := .lCnt }
    | .contig => { p with pc := .cWf }
    | .iter => { p with pc := .iAcq, iterAcc := [] }
    | .flush => { p with pc := .fAcq, wOpen := false, rOpen := [] }   -- `self.close()` first (thread-local)
    | .close => { p with pc := .xClose }

/-- an operation finished with result `r` -/
def finish (p : Proc) (r : Res) : Proc := fetch { p with results := p.results ++ [r], pc := .idle }

/-- a read inside an iteration finished: next identifier or the end of the iteration -/
def iterAdvance (p : Proc) : Proc :=
  let p := { p with iterPos := p.iterPos + 1 }
  if p.iterPos < p.iterLen then { p with gid := p.iterPos, inIter := true, pc := .gAcq } else { p with pc := .iRel }

def getProc (s : St) (i : Nat) : Option Proc := s.procs[i]?
def setProc (s : St) (i : Nat) (p : Proc) : St := { s with procs := s.procs.set i p }

/-- acquire the re-entrant lock -/
def acquire (s : St) (i : Nat) (p : Proc) (next : Pc) : Option St :=
  match s.lock with
  | none => some (setProc { s with lock := some i } i { p with depth := 1, pc := next })
  | some h => if h = i then some (setProc s i { p with depth := p.depth + 1, pc := next }) else none

def release (s : St) (_i : Nat) (p : Proc) : St × Proc :=
  if p.depth ≤ 1 then ({ s with lock := none }, { p with depth := 0 }) else (s, { p with depth := p.depth - 1 })

def step (s : St) (i : Nat) : Option St :=
  match getProc s i with
  | none => none
  | some p =>
    let set (s : St) (p : Proc) : Option St := some (setProc s i p)
    match p.pc with
    | .idle => none
    -- open() ---------------------------------------------------------------------------------------------------------
    | .oAcq => acquire s i p .oPathsLen
    | .oPathsLen => set s { p with tmp := s.paths.length, pc := .oPathsAppend }
    | .oPathsAppend => set { s with paths := s.paths ++ [some p.tmp] } { p with ident := some p.tmp, pc := .oRel }
    | .oRel => let (s, p) := release s i p; set s { p with pc := .oOpenW }
    | .oOpenW => set (setFile s (p.ident.getD 0) []) { p with wOpen := true, pc := .sAcq }
    | .oPathsGet => set s { p with pc := .oOpenA }
    | .oOpenA => set s { p with wOpen := true, pc := .sAcq }
    -- __setitem__ ------------------------------------------------------------------------------------------------------
    | .sAcq => acquire s i p .sIdxLen1
    | .sIdxLen1 => if s.index.length ≤ p.gid then set s { p with pc := .sIdxLen2 } else set s { p with pc := .sIdxGet }
    | .sIdxLen2 => set s { p with tmp := p.gid - s.index.length + 1, pc := .sIdxExtend }
    | .sIdxExtend => set { s with index := s.index ++ List.replicate p.tmp none } { p with pc := .sIdxGet }
    | .sIdxGet =>
      match s.index[p.gid]? with
      | some (some _) => set s { p with pc := .sRelErr }
      | _ => set s { p with pc := .sTell }
    | .sTell => set s { p with off := ((fileOf s (p.ident.getD 0)).getD []).length, pc := .sWriteText }
    | .sWriteText =>
      let w := p.ident.getD 0
      set (setFile s w (((fileOf s w).getD []) ++ [some p.text])) { p with pc := .sWriteNl }
    | .sWriteNl =>
      let w := p.ident.getD 0
      set (setFile s w (((fileOf s w).getD []) ++ [none])) { p with pc := .sFlush }
    | .sFlush => set s { p with pc := .sIdxSet }
    | .sIdxSet => set { s with index := s.index.set p.gid (some (p.ident.getD 0, p.off)) } { p with pc := .sCntRead }
    | .sCntRead => set s { p with tmp := s.cnt, pc := .sCntWrite }
    | .sCntWrite => set { s with cnt := p.tmp + 1 } { p with pc := .sWfRead1 }
    | .sWfRead1 => if p.gid = s.wf then set s { p with pc := .sWfRead2 } else set s { p with pc := .sRel }
    | .sWfRead2 => set s { p with tmp := s.wf, pc := .sWfWrite1 }
    | .sWfWrite1 => set { s with wf := p.tmp + 1 } { p with pc := .sLoopWf }
    -- `while self._waiting_for.value < len(self) and self._index[self._waiting_for.value] is not None`
    | .sLoopWf => set s { p with tmp := s.wf, pc := .sLoopCnt }
    | .sLoopCnt => if p.tmp < s.cnt then set s { p with pc := .sLoopWf2 } else set s { p with pc := .sRel }
    | .sLoopWf2 => set s { p with tmp := s.wf, pc := .sLoopIdx }
    | .sLoopIdx =>
      match s.index[p.tmp]? with
      | some (some _) => set s { p with pc := .sLoopWfR }
      | _ => set s { p with pc := .sRel }
    | .sLoopWfR => set s { p with tmp := s.wf, pc := .sLoopWfW }
    | .sLoopWfW => set { s with wf := p.tmp + 1 } { p with pc := .sLoopWf }
    | .sRelErr => let (s, p) := release s i p; set s (finish p .valueError)
    | .sRel => let (s, p) := release s i p; set s (finish p .ok)
    -- __getitem__ ------------------------------------------------------------------------------------------------------
    | .gAcq => acquire s i p .gIdxLen
    | .gIdxLen => if s.index.length ≤ p.gid then set s { p with pc := .gRelErr } else set s { p with pc := .gIdxGet }
    | .gIdxGet =>
      match s.index[p.gid]? with
      | some (some (w, off)) => set s { p with target := w, off := off, pc := .gRel }
      | _ => set s { p with pc := .gRelErr }
    | .gRelErr =>
      let (s, p) := release s i p
      if p.inIter then set s (iterAdvance p) else set s (finish p .indexError)
    | .gRel =>
      let (s, p) := release s i p
      if p.rOpen.contains p.target then set s { p with pc := .gSeek } else set s { p with pc := .gPathsGet }
    | .gPathsGet => set s { p with pc := .gOpenR }
    | .gOpenR => set s { p with rOpen := p.target :: p.rOpen, pc := .gSeek }
    | .gSeek => set s { p with pc := .gReadline }
    | .gReadline =>
      let line := readlineAt ((fileOf s p.target).getD []) p.off
      if p.inIter then set s (iterAdvance { p with iterAcc := p.iterAcc ++ [line] }) else set s (finish p (.text line))
    -- __len__, is_contiguous ---------------------------------------------------------------------------------------------
    | .lCnt => set s (finish p (.nat s.cnt))
    | .cWf => set s { p with tmp := s.wf, pc := .cCnt }
    | .cCnt => set s (finish p (.bool (p.tmp == s.cnt)))
    -- __iter__ -----------------------------------------------------------------------------------------------------------
    | .iAcq => acquire s i p .iIdxLen
    | .iIdxLen =>
      let n := s.index.length
      if n = 0 then set s { p with iterLen := 0, iterPos := 0, pc := .iRel }
      else set s { p with iterLen := n, iterPos := 0, gid := 0, inIter := true, pc := .gAcq }
    | .iRel => let (s, p) := release s i p; set s (finish { p with inIter := false } (.texts p.iterAcc))
    -- flush() --------------------------------------------------------------------------------------------------------------
    | .fAcq => acquire s i { p with tmp := 0 } .fPathsGet
    | .fPathsGet =>
      -- iteration over the list proxy: `__getitem__(k)` until `IndexError`
      if p.tmp < s.paths.length then set s { p with pc := .fRemove } else set s { p with pc := .fPathsClear }
    | .fRemove =>
      let w := (s.paths[p.tmp]?).getD none
      set { s with files := s.files.filter (fun q => some q.1 ≠ w) } { p with tmp := p.tmp + 1, pc := .fPathsGet }
    | .fPathsClear => set { s with paths := [] } { p with pc := .fIdxClear }
    | .fIdxClear => set { s with index := [] } { p with pc := .fCntZero }
    | .fCntZero => set { s with cnt := 0 } { p with pc := .fWfZero }
    | .fWfZero => set { s with wf := 0 } { p with pc := .fRel }
    -- after the lock is released: `self._process_identifier = None` (the handles were closed at the start of `flush()`)
    | .fRel => let (s, p) := release s i p; set s (finish { p with ident := none, wOpen := false, rOpen := [] } .ok)
    -- close() / __exit__ ---------------------------------------------------------------------------------------------------
    -- `self._file.close(); self._file = None`, every read handle closed, `_opened_files_for_reading = []`.  Nothing shared is
    -- touched and `_process_identifier` is kept: the next `open()` takes the append branch (`oPathsGet`, `oOpenA`); a handle
    -- opened with "a" is positioned at the end of the file, so `tell()` (`sTell`) is again the current length of the file.
    | .xClose => set s (finish { p with wOpen := false, rOpen := [] } .ok)

/-- start: every process fetches its first operation -/
def start (s : St) : St := { s with procs := s.procs.map fetch }

def run (s : St) : List Nat → Option St
  | [] => some s
  | i :: r => match step s i with
    | none => none
    | some s' => run s' r

def enabled (s : St) : List Nat := (List.range s.procs.length).filter (fun i => (step s i).isSome)

end WindVerif.Storage
