/-
Model of `windpyutils/structures/lists.py:DoublyLinkedList` (after the repairs D1/D2).

Nodes are natural-number identities allocated from a counter; the payload of a node is *not* part of this
model (no list operation reads it: identity, never payload equality, decides every branch — that is tied to the
code by the correspondence check, which uses hostile payloads).  Every mutator is transcribed field write by
field write, in the order of the Python statements.
-/
namespace WindVerif.Dll

abbrev Node := Nat

structure Dll where
  prev  : Node → Option Node
  next  : Node → Option Node
  head  : Option Node
  tail  : Option Node
  size  : Int
  fresh : Node

def empty : Dll := { prev := fun _ => none, next := fun _ => none, head := none, tail := none, size := 0, fresh := 0 }

@[inline] def upd (f : Node → Option Node) (k : Node) (v : Option Node) : Node → Option Node :=
  fun x => if x = k then v else f x

def setNext (d : Dll) (k : Node) (v : Option Node) : Dll := { d with next := upd d.next k v }
def setPrev (d : Dll) (k : Node) (v : Option Node) : Dll := { d with prev := upd d.prev k v }

/-- `append`: `new_node = Node(data, self.tail, None)`; link; `tail = new`; `size += 1`. Returns the node. -/
def append (d : Dll) : Dll × Node :=
  let n := d.fresh
  let d := { d with fresh := n + 1 }
  let d := setNext (setPrev d n d.tail) n none
  let d := match d.tail with
    | some t => setNext d t (some n)
    | none   => { d with head := some n }
  ({ d with tail := some n, size := d.size + 1 }, n)

/-- `prepend`. -/
def prepend (d : Dll) : Dll × Node :=
  let n := d.fresh
  let d := { d with fresh := n + 1 }
  let d := setNext (setPrev d n none) n d.head
  let d := match d.head with
    | some h => setPrev d h (some n)
    | none   => { d with tail := some n }
  ({ d with head := some n, size := d.size + 1 }, n)

/-- `remove(node)` (the removed node keeps its own stale links, as in Python). -/
def remove (d : Dll) (n : Node) : Dll :=
  let d := match d.prev n with
    | some p => setNext d p (d.next n)
    | none   => { d with head := d.next n }
  let d := match d.next n with
    | some q => setPrev d q (d.prev n)
    | none   => { d with tail := d.prev n }
  { d with size := d.size - 1 }

inductive Err | indexError | runtimeError
  deriving DecidableEq, Repr

def popBack (d : Dll) : Except Err (Dll × Node) :=
  match d.tail with
  | none   => .error .indexError
  | some t => .ok (remove d t, t)

def popFront (d : Dll) : Except Err (Dll × Node) :=
  match d.head with
  | none   => .error .indexError
  | some h => .ok (remove d h, h)

def moveToFront (d : Dll) (n : Node) : Except Err Dll :=
  match d.head with
  | none => .error .runtimeError
  | some _ =>
    match d.prev n with
    | none => .ok d
    | some _ =>
      let d := remove d n
      let d := { d with size := d.size + 1 }
      match d.head with
      | none => .ok d  -- unreachable for a member node (Python would raise AttributeError)
      | some h =>
        let d := setPrev d h (some n)
        let d := setPrev d n none
        let d := setNext d n (some h)
        .ok { d with head := some n }

def moveToBack (d : Dll) (n : Node) : Except Err Dll :=
  match d.head with
  | none => .error .runtimeError
  | some _ =>
    match d.next n with
    | none => .ok d
    | some _ =>
      let d := remove d n
      let d := { d with size := d.size + 1 }
      match d.tail with
      | none => .ok d
      | some t =>
        let d := setNext d t (some n)
        let d := setNext d n none
        let d := setPrev d n (some t)
        .ok { d with tail := some n }

/-- `rotate(front_to_back)`, statement by statement. -/
def rotate (d : Dll) (frontToBack : Bool) : Dll :=
  match d.head, d.tail with
  | some h, some t =>
    if h = t then d else
    if frontToBack then
      let d := setNext d t (some h)            -- self.tail.next_node = self.head
      let d := setPrev d h (some t)            -- self.head.prev_node = self.tail
      match d.next h with                      -- self.head = self.head.next_node
      | none => d
      | some h' =>
        let d := { d with head := some h' }
        let d := setPrev d h' none             -- self.head.prev_node = None
        match d.next t with                    -- self.tail = self.tail.next_node
        | none => d
        | some t' =>
          let d := { d with tail := some t' }
          setNext d t' none                    -- self.tail.next_node = None
    else
      let d := setPrev d h (some t)            -- self.head.prev_node = self.tail
      let d := setNext d t (some h)            -- self.tail.next_node = self.head
      match d.prev t with                      -- self.tail = self.tail.prev_node
      | none => d
      | some t' =>
        let d := { d with tail := some t' }
        let d := setNext d t' none             -- self.tail.next_node = None
        match d.prev h with                    -- self.head = self.head.prev_node
        | none => d
        | some h' =>
          let d := { d with head := some h' }
          setPrev d h' none                    -- self.head.prev_node = None
  | _, _ => d

/-- `move_after(node, after)`. -/
def moveAfter (d : Dll) (n a : Node) : Dll :=
  if n = a then d else
  let d := remove d n
  let d := { d with size := d.size + 1 }
  let d := match d.next a with
    | none   => { d with tail := some n }
    | some q => setPrev d q (some n)
  let d := setNext d n (d.next a)
  let d := setPrev d n (some a)
  setNext d a (some n)

/-- forward traversal (`iter_nodes`) with fuel. -/
def walkF (d : Dll) : Nat → Option Node → List Node
  | 0, _ => []
  | _, none => []
  | fuel + 1, some x => x :: walkF d fuel (d.next x)

def walkB (d : Dll) : Nat → Option Node → List Node
  | 0, _ => []
  | _, none => []
  | fuel + 1, some x => x :: walkB d fuel (d.prev x)

end WindVerif.Dll
