/-
Budgeted abstraction of `reopen_if_needed` (C18) in a forked child that may have no file descriptor to spare.

One process: `free` descriptor slots, the `handle` of the file object (`inherited d`: the handle copied by `fork`, referring
to the parent's open file description `d`; `own d`: opened by this process; `none`: closed) and `claimed`
(`_opened_in_process_with_id == os.getpid()`).  `close()` gives a slot back, `open()` needs one (EMFILE otherwise) and
records the pid.  `reopenCloseFirst` is the code (`self.close(); self.open()`), `reopenOpenFirst` the seeded "atomic swap"
(record the pid, open the new handle, close the inherited one).  A reopen returns the new state and whether it succeeded;
on failure the state is what the raised exception leaves behind.
-/
namespace WindVerif.ForkFileFd

inductive Handle
  | inherited (d : Nat)
  | own (d : Nat)
  | none
  deriving DecidableEq, Repr

structure P where
  free    : Nat
  handle  : Handle
  claimed : Bool
  deriving DecidableEq, Repr

/-- the open file description a handle refers to -/
def Handle.desc : Handle → Option Nat
  | .inherited d => some d
  | .own d => some d
  | .none => Option.none

/-- `close()`: the slot is free again -/
def close (p : P) : P := { p with free := p.free + 1, handle := .none }

/-- `open()`: needs a free slot; a fresh description, the pid is recorded -/
def open' (p : P) (fresh : Nat) : Option P :=
  if p.free ≥ 1 then some { p with free := p.free - 1, handle := .own fresh, claimed := true } else Option.none

/-- the code: `self.close(); self.open()` -/
def reopenCloseFirst (p : P) (fresh : Nat) : P × Bool :=
  match p.handle with
  | .inherited _ =>
    let p1 := close p
    match open' p1 fresh with
    | some p2 => (p2, true)
    | Option.none => (p1, false)
  | _ => (p, true)

/-- the seeded order: record the pid, open the new handle (may fail: EMFILE), then close the inherited one -/
def reopenOpenFirst (p : P) (fresh : Nat) : P × Bool :=
  match p.handle with
  | .inherited _ =>
    let p1 := { p with claimed := true }
    if p1.free ≥ 1 then
      let p2 := { p1 with free := p1.free - 1, handle := Handle.own fresh }   -- new handle opened
      ({ p2 with free := p2.free + 1 }, true)                                  -- inherited handle closed
    else (p1, false)
  | _ => (p, true)

/-- one use of the file by a process that carries on after a failed reopen: the guard of `reopen_if_needed` (reopen only
when the recorded pid is not ours), then the handle is used; result: new state and the description that was used -/
def access (reopen : P → Nat → P × Bool) (p : P) (fresh : Nat) : P × Option Nat :=
  if p.claimed = false then
    let p' := (reopen p fresh).1
    (p', p'.handle.desc)
  else (p, p.handle.desc)

/-- a sequence of uses (one candidate fresh description id per use); the descriptions used, in order -/
def accesses (reopen : P → Nat → P × Bool) (p : P) : List Nat → P × List (Option Nat)
  | [] => (p, [])
  | f :: fs =>
    let (p1, u) := access reopen p f
    let (p2, us) := accesses reopen p1 fs
    (p2, u :: us)

/-- `fork`: the child gets a copy of the object (handle now inherited, pid not ours) and its own descriptor budget -/
def forkChild (parent : P) (free : Nat) : P :=
  { free := free,
    handle := match parent.handle with | .own d => .inherited d | h => h,
    claimed := false }

end WindVerif.ForkFileFd
