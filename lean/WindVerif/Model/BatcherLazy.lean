/-
`BatcherIter.__iter__` (`windpyutils/generic.py`) as a *lazy consumer* of its source: a state machine that is advanced one
`next()` call at a time, so that one can say how much of the source has been consumed when a batch is handed over, and what
happens when the source raises.  (`Generic.batcherIter` only gives the list of all batches of a finite list.)

    batch = []
    for x in self.data:            # one pull of the source per round
        batch.append(x)
        if len(batch) == self.batch_size:
            yield batch            # handed over BEFORE the next pull
            batch = []
    if len(batch) > 0:
        yield batch

A source is a finite list of items plus a flag: after the items are used up the next pull either reports exhaustion
(`StopIteration`, the `for` loop ends) or raises (the exception passes through the generator, which is finished afterwards; the
partial batch is lost).  A tuple of iterables is pulled in lock step through `zip`, i.e. it is one source of tuples; the pair case
is reduced to the single case in `Generic.batcherIterPair_spec`.
-/
namespace WindVerif.BatcherLazy

structure Src where
  items : List Int
  /-- what the pull after the last item does: `true` = raises, `false` = `StopIteration` -/
  fails : Bool
  deriving DecidableEq, Repr

/-- state of the suspended generator: number of items pulled from the source so far, the current partial batch, and whether the
generator has returned / was left by an exception (every later `next()` is `StopIteration`, the source is not touched again) -/
structure St where
  pulled   : Nat
  acc      : List Int
  finished : Bool
  deriving DecidableEq, Repr

def St.init : St := ⟨0, [], false⟩

/-- what one `next()` call on the generator gives -/
inductive Outcome
  | batch (l : List Int)
  | stop
  | raised
  deriving DecidableEq, Repr

/-- the `for` loop from the point where the generator is resumed up to the next `yield` / the end; the first argument is what
the source still holds.  (`batch = []` after the `yield` is done at hand-over: the list object handed out is not touched again.) -/
def nextGo (b : Nat) (fails : Bool) : List Int → Nat → List Int → St × Outcome
  | [], pulled, acc =>
    if fails then (⟨pulled, [], true⟩, .raised)
    else if acc.length > 0 then (⟨pulled, [], true⟩, .batch acc)
    else (⟨pulled, [], true⟩, .stop)
  | x :: r, pulled, acc =>
    let acc' := acc ++ [x]
    if acc'.length = b then (⟨pulled + 1, [], false⟩, .batch acc') else nextGo b fails r (pulled + 1) acc'

/-- one `next()` call -/
def next (b : Nat) (src : Src) (st : St) : St × Outcome :=
  if st.finished then (st, .stop) else nextGo b src.fails (src.items.drop st.pulled) st.pulled st.acc

/-- the seeded read-ahead variant: a full batch is held back until one more item has been pulled

    for x in self.data:
        if len(batch) == self.batch_size:
            yield batch
            batch = []
        batch.append(x)
    if len(batch) > 0:
        yield batch

(the item `x` pulled before the `yield` starts the new batch when the generator is resumed: at hand-over the state holds `[x]`) -/
def nextAheadGo (b : Nat) (fails : Bool) : List Int → Nat → List Int → St × Outcome
  | [], pulled, acc =>
    if fails then (⟨pulled, [], true⟩, .raised)
    else if acc.length > 0 then (⟨pulled, [], true⟩, .batch acc)
    else (⟨pulled, [], true⟩, .stop)
  | x :: r, pulled, acc =>
    if acc.length = b then (⟨pulled + 1, [x], false⟩, .batch acc) else nextAheadGo b fails r (pulled + 1) (acc ++ [x])

def nextAhead (b : Nat) (src : Src) (st : St) : St × Outcome :=
  if st.finished then (st, .stop) else nextAheadGo b src.fails (src.items.drop st.pulled) st.pulled st.acc

/-- outcomes of `k` successive `next()` calls from a state, and the state afterwards -/
def takeFrom (step : St → St × Outcome) : Nat → St → List Outcome × St
  | 0, st => ([], st)
  | k + 1, st =>
    let r := step st
    let t := takeFrom step k r.1
    (r.2 :: t.1, t.2)

/-- the first `k` calls of `next` on a fresh generator -/
def take (b : Nat) (src : Src) (k : Nat) : List Outcome × St := takeFrom (next b src) k St.init

def takeAhead (b : Nat) (src : Src) (k : Nat) : List Outcome × St := takeFrom (nextAhead b src) k St.init

/-- the list of all batches of the read-ahead variant over a finite list (what `list(...)` sees) -/
def aheadGo (b : Nat) : List Int → List Int → List (List Int)
  | acc, [] => if acc.length > 0 then [acc] else []
  | acc, x :: r => if acc.length = b then acc :: aheadGo b [x] r else aheadGo b (acc ++ [x]) r

end WindVerif.BatcherLazy
