/-
Model of `windpyutils/files.py:TmpPool` and `FilePool` (C20, after the repair D18).

The file system is the list of existing paths (paths are numbers: the k-th file ever created is `k`).  The list of created
files lives in a heap of lists and every process holds a *reference* into that heap: with `multi_proc=True` it is a manager
list whose proxy is inherited by forked children, so "clear in place" and "rebind to a new list" are different things in the
model, as they are in the code.
-/
namespace WindVerif.TmpPool

abbrev Path := Nat

inductive Err | valueError | badProcess
  deriving DecidableEq, Repr

structure Pool where
  fs    : List Path              -- files that exist on disk
  heap  : List (List Path)       -- list objects
  refs  : List Nat               -- per process (0 = the owner): which list object its `_created_files` is
  fresh : Path                   -- next file name

/-- `__init__` + `__enter__`: one list object, referenced by the owner -/
def Pool.new : Pool := { fs := [], heap := [[]], refs := [0], fresh := 0 }

def Pool.listOf (s : Pool) (pid : Nat) : Option (List Path) :=
  match s.refs[pid]? with
  | none => none
  | some r => s.heap[r]?

def Pool.setList (s : Pool) (pid : Nat) (l : List Path) : Pool :=
  match s.refs[pid]? with
  | none => s
  | some r => { s with heap := s.heap.set r l }

/-- `create()`: a new file appears and its path is appended to the list the process references -/
def Pool.create (s : Pool) (pid : Nat) : Except Err (Pool × Path) :=
  match s.listOf pid with
  | none => .error .badProcess
  | some l =>
    let p := s.fresh
    .ok ({ (s.setList pid (l ++ [p])) with fs := s.fs ++ [p], fresh := p + 1 }, p)

/-- `remove(p)`: `os.remove` (a missing file is fine), then `list.remove(p)` (`ValueError` if not listed) -/
def Pool.remove (s : Pool) (pid : Nat) (p : Path) : Except Err Pool :=
  match s.listOf pid with
  | none => .error .badProcess
  | some l =>
    let s := { s with fs := s.fs.filter (· ≠ p) }
    if l.contains p then .ok (s.setList pid (l.erase p)) else .error .valueError

/-- `flush()`: every listed file is removed (missing ones are fine); the list is cleared *in place* -/
def Pool.flush (s : Pool) (pid : Nat) : Except Err Pool :=
  match s.listOf pid with
  | none => .error .badProcess
  | some l => .ok (({ s with fs := s.fs.filter (fun p => !l.contains p) }).setList pid [])

/-- a child is forked from `pid`: it inherits the reference -/
def Pool.fork (s : Pool) (pid : Nat) : Except Err (Pool × Nat) :=
  match s.refs[pid]? with
  | none => .error .badProcess
  | some r => .ok ({ s with refs := s.refs ++ [r] }, s.refs.length)

/-- somebody deletes a file behind the pool's back -/
def Pool.unlink (s : Pool) (p : Path) : Pool := { s with fs := s.fs.filter (· ≠ p) }

/-- leaving the context, normally or through an exception: `__exit__` always flushes (owner) -/
def Pool.exit (s : Pool) : Except Err Pool := s.flush 0

/-! ## FilePool -/

structure FPool where
  files   : List Nat            -- the given paths
  handles : Option (List Bool)  -- `file_handles`: one handle per path, `true` = open; `none` before `open()` / after `close()`
  closedLog : List Bool         -- handles that were ever opened and their final state (true = still open)

def FPool.new (files : List Nat) : FPool := ⟨files, none, []⟩
def FPool.open (s : FPool) : FPool := { s with handles := some (s.files.map (fun _ => true)) }
/-- `close()`: every handle is closed, then `file_handles = None` -/
def FPool.close (s : FPool) : FPool :=
  match s.handles with
  | none => s
  | some hs => { s with handles := none, closedLog := hs.map (fun _ => false) }

end WindVerif.TmpPool
