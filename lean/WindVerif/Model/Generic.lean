/-
Models of the helpers of `windpyutils/generic.py` named by property C19 and C17:
`int_2_roman`, `roman_2_int`, `arg_sort`, `sub_seq`, `search_sub_seq`, `compare_pos_in_iterables`, `Batcher`, `BatcherIter`,
`sorted_combinations`, `min_combinations_in_interval_iter_sorted`.
Sequence elements are integers (the code only uses `==`, and `<` on sort keys).
-/
namespace WindVerif.Generic

inductive Err | valueError | indexError | keyError
  deriving DecidableEq, Repr

/-! ## roman numerals -/

def romanTable : List (Nat × List Char) :=
  [(1000, ['M']), (900, ['C', 'M']), (500, ['D']), (400, ['C', 'D']), (100, ['C']), (90, ['X', 'C']), (50, ['L']),
   (40, ['X', 'L']), (10, ['X']), (9, ['I', 'X']), (5, ['V']), (4, ['I', 'V']), (1, ['I'])]

def repeatChars (r : List Char) : Nat → List Char
  | 0 => []
  | n + 1 => r ++ repeatChars r n

/-- the generator inside `int_2_roman`: `times, remainder = divmod(remainder, v); yield r * times; if remainder == 0: break` -/
def int2romanGo : List (Nat × List Char) → Nat → List Char
  | [], _ => []
  | (v, r) :: tbl, rem =>
    let times := rem / v
    let rem' := rem % v
    repeatChars r times ++ (if rem' = 0 then [] else int2romanGo tbl rem')

def int2roman (n : Nat) : List Char := int2romanGo romanTable n

def romanVal : Char → Option Nat
  | 'I' => some 1 | 'V' => some 5 | 'X' => some 10 | 'L' => some 50 | 'C' => some 100 | 'D' => some 500 | 'M' => some 1000
  | _ => none

/-- `sum(-x if i < len(n)-1 and x < c[i+1] else x for i, x in enumerate(c))`, as an integer -/
def romanSum : List Nat → Int
  | [] => 0
  | [x] => x
  | x :: y :: r => (if x < y then -(x : Int) else (x : Int)) + romanSum (y :: r)

def roman2int (s : List Char) : Except Err Int :=
  match s.mapM romanVal with
  | none => .error .keyError
  | some c => .ok (romanSum c)

/-! ## arg_sort: `sorted(range(len(elements)), key=lambda x: elements[x], reverse=reverse)` (stable in both directions) -/

def keyAt (xs : List Int) (i : Nat) : Int := xs.getD i 0

def argSort (xs : List Int) (rev : Bool) : List Nat :=
  (List.range xs.length).mergeSort
    (fun i j => if rev then decide (keyAt xs j ≤ keyAt xs i) else decide (keyAt xs i ≤ keyAt xs j))

/-! ## sub_seq / search_sub_seq: window comparison at every offset -/

def window (s2 : List Int) (offset len : Nat) : List Int := (s2.drop offset).take len

def subSeq (s1 s2 : List Int) : Bool :=
  decide (s1.length ≤ s2.length) &&
    (List.range (s2.length - s1.length + 1)).any (fun o => s1 == window s2 o s1.length)

def searchSubSeq (s1 s2 : List Int) : Except Err (List (Nat × Nat)) :=
  if s1.length = 0 ∨ s2.length = 0 then .error .valueError
  else if s1.length ≤ s2.length then
    .ok (((List.range (s2.length - s1.length + 1)).filter (fun o => s1 == window s2 o s1.length)).map
          (fun o => (o, o + s1.length)))
  else .ok []

/-! ## compare_pos_in_iterables: `b = list(b); for x in a: b.remove(x)`; `ValueError` → False; finally `len(b) == 0` -/

def comparePos : List Int → List Int → Bool
  | [], b => b.isEmpty
  | x :: a, b => if b.contains x then comparePos a (b.erase x) else false

/-! ## Batcher / BatcherIter -/

/-- `Batcher.__len__`: integer ceiling of `samples / batch_size` -/
def batcherLen (n b : Nat) : Nat := (n + b - 1) / b

/-- `Batcher(data, b)[i]` for `0 ≤ i`: `IndexError` at and beyond `len`, else `data[i*b : i*b + b]` -/
def batcherGet (data : List Int) (b i : Nat) : Except Err (List Int) :=
  if i ≥ batcherLen data.length b then .error .indexError else .ok ((data.drop (i * b)).take b)

/-- `Batcher(range(n), b)[i]` is again a range: `(start, stop)` -/
def batcherGetRange (n b i : Nat) : Except Err (Nat × Nat) :=
  if i ≥ batcherLen n b then .error .indexError else .ok (min (i * b) n, min (i * b + b) n)

/-- constructor checks: tuple members of different length and non-positive batch sizes raise `ValueError` -/
def batcherNew (lens : List Nat) (b : Int) : Except Err Unit :=
  if (lens.zip lens.tail).any (fun p => p.1 ≠ p.2) then .error .valueError
  else if b ≤ 0 then .error .valueError else .ok ()

/-- `BatcherIter.__iter__`: accumulate and yield -/
def batcherIterGo (b : Nat) : List Int → List Int → List (List Int)
  | acc, [] => if acc.length > 0 then [acc] else []
  | acc, x :: r =>
    let acc' := acc ++ [x]
    if acc'.length = b then acc' :: batcherIterGo b [] r else batcherIterGo b acc' r

def batcherIter (data : List Int) (b : Nat) : List (List Int) := batcherIterGo b [] data

/-- `BatcherIter.__iter__` on a tuple of two iterables: `zip` stops with the shortest one, both accumulators grow in
lock-step, a batch is yielded when the first reaches `b` -/
def batcherIterPairGo (b : Nat) : List Int → List Int → List (Int × Int) → List (List Int × List Int)
  | a1, a2, [] => if a1.length > 0 then [(a1, a2)] else []
  | a1, a2, (x, y) :: r =>
    let a1' := a1 ++ [x]
    let a2' := a2 ++ [y]
    if a1'.length = b then (a1', a2') :: batcherIterPairGo b [] [] r else batcherIterPairGo b a1' a2' r

def batcherIterPair (xs ys : List Int) (b : Nat) : List (List Int × List Int) :=
  batcherIterPairGo b [] [] (xs.zip ys)

/-! ## sorted_combinations and the min-combination search (C17) -/

/-- queue entry `(key, len(comb), comb, index)`; `comb` holds element *indices*; the queue orders the tuples by the element
*values* (`val i` is the value of the element at index `i`: `val = id` for the anchored call on `range(n)`, any list with
repeats for a direct call) -/
structure Entry where
  key  : Nat
  comb : List Nat
  idx  : Nat
  deriving DecidableEq, Repr

def lexLt : List Nat → List Nat → Bool
  | [], [] => false
  | [], _ :: _ => true
  | _ :: _, [] => false
  | a :: as, b :: bs => a < b || (a == b && lexLt as bs)

/-- Python tuple order on `(key, len, comb, index)`, the combination compared through its element values -/
def Entry.lt (val : Nat → Nat) (a b : Entry) : Bool :=
  a.key < b.key || (a.key == b.key &&
    (a.comb.length < b.comb.length || (a.comb.length == b.comb.length &&
      (lexLt (a.comb.map val) (b.comb.map val) || (a.comb.map val == b.comb.map val && a.idx < b.idx)))))

/-- `heapq.heappop`: removes and returns the smallest entry -/
def popMin (val : Nat → Nat) : List Entry → Option (Entry × List Entry)
  | [] => none
  | e :: r =>
    match popMin val r with
    | none => some (e, [])
    | some (m, r') => if e.lt val m then some (e, r) else some (m, e :: r')

def scoreSum (scores : List Nat) (comb : List Nat) : Nat := (comb.map (fun i => scores.getD i 0)).sum

/-- the loop of `sorted_combinations(elements, key=score sum, yield_key=True)` with fuel; `n = len(elements)` -/
def combosLoop (val : Nat → Nat) (scores : List Nat) (n : Nat) : Nat → List Entry → List (List Nat × Nat)
  | 0, _ => []
  | fuel + 1, q =>
    match popMin val q with
    | none => []
    | some (e, q') =>
      let ext := (List.range' (e.idx + 1) (n - (e.idx + 1))).map
        (fun i => { key := scoreSum scores (e.comb ++ [i]), comb := e.comb ++ [i], idx := i : Entry })
      (e.comb, e.key) :: combosLoop val scores n fuel (q' ++ ext)

/-- `sorted_combinations` over elements with values `val 0 … val (n-1)` and the key "sum of the scores of the members" -/
def sortedCombinationsV (val : Nat → Nat) (scores : List Nat) : List (List Nat × Nat) :=
  let n := scores.length
  combosLoop val scores n (2 ^ n) ((List.range n).map (fun i => { key := scoreSum scores [i], comb := [i], idx := i : Entry }))

/-- the anchored call: elements are `range(n)` -/
def sortedCombinations (scores : List Nat) : List (List Nat × Nat) := sortedCombinationsV (fun i => i) scores

/-- a direct call `sorted_combinations(elems, key=sum)`: the elements are their own scores (repeats allowed); the yielded
tuples hold element values -/
def sortedCombinationsE (elems : List Nat) : List (List Nat × Nat) :=
  (sortedCombinationsV (fun i => elems.getD i 0) elems).map (fun p => (p.1.map (fun i => elems.getD i 0), p.2))

/-- the scan of `min_combinations_in_interval_iter_sorted` over the sorted stream -/
def minCombScan (iStart iEnd : Int) : List (List Nat × Nat) → List (List Nat × Nat) → List (List Nat × Nat)
  | res, [] => res
  | res, (c, s) :: r =>
    if decide (iEnd ≤ (s : Int)) || (match res.getLast? with | some l => decide (l.2 < s) | none => false) then res
    else if iStart ≤ (s : Int) ∧ (s : Int) < iEnd then minCombScan iStart iEnd (res ++ [(c, s)]) r
    else minCombScan iStart iEnd res r

def minCombinations (scores : List Nat) (iStart iEnd : Int) : List (List Nat × Nat) :=
  minCombScan iStart iEnd [] (sortedCombinations scores)

end WindVerif.Generic
