/-
Model of the record classes of `windpyutils/files.py` (C13): `CSVRecord` / `TSVRecord` (the `csv` writer with the excel
dialect and QUOTE_MINIMAL, the `csv` reader state machine for one record, and the class-level `StringIO` the writer
shares) and the glue of `JsonRecord`.  Field values are strings here: the conversions `str(v)` / `repr(float)` on the way
out and `int(s)` / `float(s)` / `str(s)` on the way in are library behaviour, compared on every correspondence run.
-/
namespace WindVerif.Records

abbrev Str := List Char

inductive Err | csvError
  deriving DecidableEq, Repr

/-! ## csv writer (excel dialect: quotechar `"`, doublequote, lineterminator `\r\n`, QUOTE_MINIMAL) -/

def needsQuote (d : Char) (f : Str) : Bool :=
  f.any (fun c => c == d || c == '"' || c == '\r' || c == '\n')

def doubleQuotes : Str → Str
  | [] => []
  | c :: r => if c = '"' then '"' :: '"' :: doubleQuotes r else c :: doubleQuotes r

/-- one field; a lone empty field is written as `""` -/
def writeField (d : Char) (only : Bool) (f : Str) : Str :=
  if needsQuote d f || (only && f.isEmpty) then '"' :: doubleQuotes f ++ ['"'] else f

def joinFields (d : Char) : List Str → Str
  | [] => []
  | [f] => f
  | f :: r => f ++ d :: joinFields d r

/-- `writer.writerow(fields)`: the text appended to the file object -/
def writeRow (d : Char) (fields : List Str) : Str :=
  joinFields d (fields.map (writeField d (fields.length == 1))) ++ ['\r', '\n']

/-! ## csv reader for one string (one "line" handed to `csv.reader([s])`) -/

inductive PState | startRecord | startField | inField | inQuoted | quoteInQuoted | eatCRNL
  deriving DecidableEq, Repr

structure Parser where
  state  : PState
  field  : Str           -- reversed
  fields : List Str      -- reversed

def Parser.save (p : Parser) (st : PState) : Parser := { state := st, field := [], fields := p.field.reverse :: p.fields }
def Parser.add (p : Parser) (c : Char) (st : PState) : Parser := { p with state := st, field := c :: p.field }

def isNL (c : Char) : Bool := c == '\n' || c == '\r'

def stepStartField (d : Char) (p : Parser) (c : Char) : Except Err Parser :=
  if isNL c then .ok (p.save .eatCRNL)
  else if c = '"' then .ok { p with state := .inQuoted }
  else if c = d then .ok (p.save .startField)
  else .ok (p.add c .inField)

def step (d : Char) (p : Parser) (c : Char) : Except Err Parser :=
  match p.state with
  | .startRecord => if isNL c then .ok { p with state := .eatCRNL } else stepStartField d p c
  | .startField => stepStartField d p c
  | .inField =>
    if isNL c then .ok (p.save .eatCRNL)
    else if c = d then .ok (p.save .startField)
    else .ok (p.add c .inField)
  | .inQuoted => if c = '"' then .ok { p with state := .quoteInQuoted } else .ok (p.add c .inQuoted)
  | .quoteInQuoted =>
    if c = '"' then .ok (p.add c .inQuoted)
    else if c = d then .ok (p.save .startField)
    else if isNL c then .ok (p.save .eatCRNL)
    else .ok (p.add c .inField)
  | .eatCRNL => if isNL c then .ok p else .error .csvError

def run (d : Char) : Parser → Str → Except Err Parser
  | p, [] => .ok p
  | p, c :: r => match step d p c with
    | .error e => .error e
    | .ok p' => run d p' r

/-- end of the line string -/
def finish (p : Parser) : List Str :=
  match p.state with
  | .startRecord => []
  | .eatCRNL => p.fields.reverse
  | _ => (p.field.reverse :: p.fields).reverse

/-- `next(iter(csv.reader([s], delimiter=d)))` -/
def parseRow (d : Char) (s : Str) : Except Err (List Str) :=
  match run d ⟨.startRecord, [], []⟩ s with
  | .error e => .error e
  | .ok p => .ok (finish p)

/-! ## the shared `StringIO` (`CSVRecord._res_io`) -/

structure SIO where
  buf : Str
  pos : Nat

/-- `write(s)` at the current position: pads with NUL when the position is beyond the end, overwrites otherwise -/
def SIO.write (io : SIO) (s : Str) : SIO :=
  let padded := if io.pos > io.buf.length then io.buf ++ List.replicate (io.pos - io.buf.length) '\x00' else io.buf
  { buf := padded.take io.pos ++ s ++ padded.drop (io.pos + s.length), pos := io.pos + s.length }

def SIO.truncate0 (io : SIO) : SIO := { io with buf := [] }
def SIO.seek0 (io : SIO) : SIO := { io with pos := 0 }

/-- `_dict_to_string`: `writerow`; `res = getvalue()`; `truncate(0)`; `seek(0)` -/
def dictToString (d : Char) (io : SIO) (fields : List Str) : SIO × Str :=
  let io := io.write (writeRow d fields)
  (io.truncate0.seek0, io.buf)

/-- many consecutive saves through the one shared buffer (records of classes with different delimiters) -/
def saveMany (io : SIO) : List (Char × List Str) → SIO × List Str
  | [] => (io, [])
  | (d, fs) :: r =>
    let (io', s) := dictToString d io fs
    let (io'', ss) := saveMany io' r
    (io'', s :: ss)

end WindVerif.Records
