import WindVerif.Model.Generic
/-!
How far the loop of `min_combinations_in_interval_iter_sorted` walks into the stream of `sorted_combinations` (property C17).

`minCombScan` (`Model/Generic.lean`) gives what the loop returns.  Here the same recursion counts the stream elements the
loop looks at (`for … in sorted_combinations(…)` pulls one element per iteration; the element on which the loop breaks has
been pulled, so it counts).  `minCombScanSteps` is the loop with both outputs, `scanSteps` the count alone.

`scanStepsNoEarly` is a variant of the loop in which the test `i_end <= comb_score` is made only once a sum `≥ i_start` has
been seen (sums below `i_start` are skipped without looking at `i_end`, as `itertools.dropwhile(lambda c: c[1] < i_start, …)`
does): same results on sorted streams, but no early exit for an interval that ends below the least sum.
-/
namespace WindVerif.Generic

/-- the loop of `min_combinations_in_interval_iter_sorted` with both outputs: `(res, number of elements pulled)` -/
def minCombScanSteps (iStart iEnd : Int) :
    List (List Nat × Nat) → List (List Nat × Nat) → List (List Nat × Nat) × Nat
  | res, [] => (res, 0)
  | res, (c, s) :: r =>
    if decide (iEnd ≤ (s : Int)) || (match res.getLast? with | some l => decide (l.2 < s) | none => false) then (res, 1)
    else if iStart ≤ (s : Int) ∧ (s : Int) < iEnd then
      let p := minCombScanSteps iStart iEnd (res ++ [(c, s)]) r
      (p.1, p.2 + 1)
    else
      let p := minCombScanSteps iStart iEnd res r
      (p.1, p.2 + 1)

/-- the number of stream elements the loop looks at (the one on which it breaks included) -/
def scanSteps (iStart iEnd : Int) : List (List Nat × Nat) → List (List Nat × Nat) → Nat
  | _, [] => 0
  | res, (c, s) :: r =>
    if decide (iEnd ≤ (s : Int)) || (match res.getLast? with | some l => decide (l.2 < s) | none => false) then 1
    else if iStart ≤ (s : Int) ∧ (s : Int) < iEnd then scanSteps iStart iEnd (res ++ [(c, s)]) r + 1
    else scanSteps iStart iEnd res r + 1

/-- elements of `sorted_combinations(range(n), score sum)` that `min_combinations_in_interval_iter_sorted` pulls -/
def minCombinationsSteps (scores : List Nat) (iStart iEnd : Int) : Nat :=
  scanSteps iStart iEnd [] (sortedCombinations scores)

/-- the variant without the early exit: `i_end <= comb_score` is looked at only for sums `≥ i_start`;
`(res, number of elements pulled)` -/
def minCombScanNoEarly (iStart iEnd : Int) :
    List (List Nat × Nat) → List (List Nat × Nat) → List (List Nat × Nat) × Nat
  | res, [] => (res, 0)
  | res, (c, s) :: r =>
    if (decide (iStart ≤ (s : Int)) && decide (iEnd ≤ (s : Int))) ||
        (match res.getLast? with | some l => decide (l.2 < s) | none => false) then (res, 1)
    else if iStart ≤ (s : Int) ∧ (s : Int) < iEnd then
      let p := minCombScanNoEarly iStart iEnd (res ++ [(c, s)]) r
      (p.1, p.2 + 1)
    else
      let p := minCombScanNoEarly iStart iEnd res r
      (p.1, p.2 + 1)

def scanStepsNoEarly (iStart iEnd : Int) (res stream : List (List Nat × Nat)) : Nat :=
  (minCombScanNoEarly iStart iEnd res stream).2

end WindVerif.Generic
