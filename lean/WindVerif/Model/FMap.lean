/-
Small-step interleaving model of `windpyutils/parallel/pools.py:FunctorMap` and `windpyutils/parallel/maps.py:mul_p_map`
(C05): the caller's thread `P` (producer and consumer in one loop) and the worker processes.  One step = one visible
operation (queue put / get / get(False), start, join).  Chunks are represented by their index.

`multiprocessing.Queue` is modelled as an atomic FIFO (its asynchronous feeder can only make a non-blocking `get` miss an
item that is already on its way, which the code treats like "nothing there yet").
-/
namespace WindVerif.FMap

inductive Tid
  | p
  | w (wid : Nat)
  deriving DecidableEq, Repr

structure Cfg where
  nWorkers : Nat
  workCap  : Nat              -- capacity of the work queue (`Queue(workers)` / `Queue(cpu_count())`), > 0
  mulP     : Bool             -- true: `mul_p_map` (fresh workers per call, stop orders before the final drain, final sort)
  calls    : List Nat         -- chunks per call (`mul_p_map`: items per call)
  exact    : Bool := false    -- `FunctorMap` only: the caller takes exactly as many results as there are items and closes the
                              -- generator at its last `yield` (zip / islice style) instead of running it into `StopIteration`
  deriving Repr

inductive PPc
  | start (i : Nat)           -- `procs[i].start()`
  | put                       -- `work_queue.put((i, chunk))`
  | nowait                    -- `results_queue.get(False)`
  | stopPut (i : Nat)         -- `work_queue.put(None)`, i-th
  | finalGet                  -- `results_queue.get()`
  | join (i : Nat)
  | done
  deriving DecidableEq, Repr

inductive WPc
  | notStarted | get | put | exited
  deriving DecidableEq, Repr

structure Worker where
  wid  : Nat
  pc   : WPc
  held : Option Nat
  deriving Repr

structure St where
  cfg      : Cfg
  workQ    : List (Option Nat)
  resQ     : List Nat
  ppc      : PPc
  callsLeft : List Nat
  callNo   : Nat
  total    : Nat                 -- chunks of the current call
  next     : Nat                 -- index of the chunk in P's hands / next to send
  dataCnt  : Nat
  finished : Nat                 -- FunctorMap: `finished_cnt`; mul_p_map: `len(res)`
  buffer   : List Nat
  wf       : Nat
  got      : List Nat            -- mul_p_map: indices collected in `res`, arrival order
  out      : List (Nat × Nat)    -- (call number, chunk index) handed to the caller, in order
  workers  : List Worker
  base     : Nat                 -- wid of the first worker of the current generation
  deriving Repr

def mkWorkers (base n : Nat) : List Worker := (List.range n).map (fun i => ⟨base + i, .notStarted, none⟩)

def getWorker (s : St) (wid : Nat) : Option Worker := s.workers.find? (·.wid = wid)
def setWorker (s : St) (w : Worker) : St := { s with workers := s.workers.map (fun x => if x.wid = w.wid then w else x) }
def exitedW (s : St) (wid : Nat) : Bool := match getWorker s wid with | some w => w.pc == .exited | none => false

/-- the reorder buffer: feed chunk `i`, drain what is in order -/
def drainBuffer : Nat → List Nat → Nat → List Nat → (List Nat × Nat × List Nat)
  | 0, buf, wf, acc => (buf, wf, acc)
  | fuel + 1, buf, wf, acc =>
    if buf.contains wf then drainBuffer fuel (buf.erase wf) (wf + 1) (acc ++ [wf]) else (buf, wf, acc)

/-- P received the result of chunk `i` (thread-local processing) -/
def receive (s : St) (i : Nat) : St :=
  if s.cfg.mulP then { s with got := s.got ++ [i], finished := s.finished + 1 }
  else
    let (buf, wf, em) := drainBuffer (s.buffer.length + 2) (i :: s.buffer) s.wf []
    { s with buffer := buf, wf := wf, finished := s.finished + em.length, out := s.out ++ em.map (fun j => (s.callNo, j)) }

/-- the final sort of `mul_p_map`: `[r for i, r in sorted(res, key=index)]` -/
def sortedGot (s : St) : List Nat := s.got.mergeSort (· ≤ ·)

/-- start of the next call (empty calls of a `FunctorMap` have no visible operation and are skipped here) -/
def startCallGo (s : St) : List Nat → St
  | [] =>
    -- no call left: FunctorMap leaves its context, mul_p_map is simply over
    if s.cfg.mulP ∨ s.cfg.nWorkers = 0 then { s with ppc := .done, callsLeft := [] }
    else { s with ppc := .stopPut 0, callsLeft := [] }
  | n :: rest =>
    let s := { s with callsLeft := rest, callNo := s.callNo + 1, total := n, next := 0, dataCnt := 0, finished := 0,
                      buffer := [], wf := 0, got := [] }
    if s.cfg.mulP then
      -- fresh workers for every call
      { s with base := s.workers.length, workers := s.workers ++ mkWorkers s.workers.length s.cfg.nWorkers, ppc := .start 0 }
    else if n = 0 then startCallGo s rest else { s with ppc := .put }

def startCall (s : St) : St := startCallGo s s.callsLeft

/-- the blocking final drain, or what comes after it -/
def finalOrNext (s : St) : St :=
  if s.finished < s.dataCnt then { s with ppc := .finalGet }
  else if s.cfg.mulP then
    let s := { s with out := s.out ++ (sortedGot s).map (fun j => (s.callNo, j)) }
    if s.cfg.nWorkers = 0 then startCall s else { s with ppc := .join 0 }
  else startCall s

/-- what follows when there is no (more) chunk to send in this call: `mul_p_map` posts its stop orders first, `FunctorMap`
goes to the final drain (`while finished_cnt < data_cnt`) -/
def afterFeeding (s : St) : St :=
  if s.cfg.mulP then
    (if s.cfg.nWorkers = 0 then finalOrNext s else { s with ppc := .stopPut 0 })
  else finalOrNext s

def init (cfg : Cfg) : St :=
  let s : St := { cfg := cfg, workQ := [], resQ := [], ppc := .done, callsLeft := cfg.calls, callNo := 0, total := 0, next := 0,
                  dataCnt := 0, finished := 0, buffer := [], wf := 0, got := [], out := [],
                  workers := if cfg.mulP then [] else mkWorkers 0 cfg.nWorkers, base := 0 }
  if cfg.mulP then startCall s
  else if cfg.nWorkers = 0 then startCall s else { s with ppc := .start 0 }

def stepP (s : St) : Option St :=
  match s.ppc with
  | .start i =>
    match getWorker s (s.base + i) with
    | none => none
    | some w =>
      let s := setWorker s { w with pc := .get }
      if i + 1 < s.cfg.nWorkers then some { s with ppc := .start (i + 1) }
      else if s.cfg.mulP then (if s.total = 0 then some (afterFeeding s) else some { s with ppc := .put })
      else some (startCall s)
  | .put =>
    if s.workQ.length ≥ s.cfg.workCap then none
    else some { s with workQ := s.workQ ++ [some s.next], dataCnt := s.dataCnt + 1, ppc := .nowait }
  | .nowait =>
    match s.resQ with
    | i :: r =>
      let s' := receive { s with resQ := r } i
      -- stays in the `while True` loop — unless the caller has just been handed the last item of the call and closes the
      -- generator there (`exact`): the next visible operation is then the first one of the next call
      if s.cfg.exact ∧ ¬ s.cfg.mulP ∧ s'.finished = s'.total then some (startCall s') else some s'
    | [] =>
      -- `queue.Empty`: next chunk (thread-local pull), or done feeding
      if s.next + 1 < s.total then some { s with next := s.next + 1, ppc := .put }
      else some (afterFeeding { s with next := s.next + 1 })
  | .stopPut i =>
    if s.workQ.length ≥ s.cfg.workCap then none
    else
      let s := { s with workQ := s.workQ ++ [none] }
      if i + 1 < s.cfg.nWorkers then some { s with ppc := .stopPut (i + 1) }
      else if s.cfg.mulP then some (finalOrNext s) else some { s with ppc := .join 0 }
  | .finalGet =>
    match s.resQ with
    | [] => none
    | i :: r => some (finalOrNext (receive { s with resQ := r } i))
  | .join i =>
    if exitedW s (s.base + i) then
      (if i + 1 < s.cfg.nWorkers then some { s with ppc := .join (i + 1) }
       else if s.cfg.mulP then some (startCall s) else some { s with ppc := .done })
    else none
  | .done => none

def stepW (s : St) (wid : Nat) : Option St :=
  match getWorker s wid with
  | none => none
  | some w =>
    match w.pc with
    | .notStarted | .exited => none
    | .get =>
      match s.workQ with
      | [] => none
      | none :: r => some (setWorker { s with workQ := r } { w with pc := .exited })
      | some i :: r => some (setWorker { s with workQ := r } { w with pc := .put, held := some i })
    | .put =>
      match w.held with
      | none => none
      | some i => some (setWorker { s with resQ := s.resQ ++ [i] } { w with pc := .get, held := none })

def step (s : St) : Tid → Option St
  | .p => stepP s
  | .w wid => stepW s wid

def run (s : St) : List Tid → Option St
  | [] => some s
  | t :: ts => match step s t with
    | none => none
    | some s' => run s' ts

def allTids (s : St) : List Tid := .p :: s.workers.map (fun w => Tid.w w.wid)
def enabledTids (s : St) : List Tid := (allTids s).filter (fun t => (step s t).isSome)

end WindVerif.FMap
