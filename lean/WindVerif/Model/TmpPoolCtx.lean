import WindVerif.Model.TmpPool
/-!
`TmpPool.__enter__` / `__exit__` as operations of the pool's history (C20, repair D21).

`Model/TmpPool.lean` starts every history at `Pool.new` = constructor + `__enter__`.  Here the constructor's state is the
start (it is the same state: one empty list object, the owner references it) and entering / leaving the context are steps:

```python
    def __enter__(self):
        if self._multi_proc:
            self._manager = multiprocessing.Manager().__enter__()
            self._created_files = self._manager.list(self._created_files)   # a NEW list object, copy of the old content
        return self

    def __exit__(self, exc_type, exc_val, exc_tb):
        self.flush()
        if self._manager is not None:
            self._manager.__exit__(None, None, None)
            self._created_files = []                                        # a NEW empty list object
```

`enterFresh` is the code before the repair (`self._created_files = self._manager.list()`: a new EMPTY list).
The pool's `multi_proc` flag is the parameter `mp`.
-/
namespace WindVerif.TmpPoolCtx
open WindVerif.TmpPool

/-- the owner's `_created_files` is rebound to a new list object with content `l` (nobody else references it) -/
def rebindOwner (s : Pool) (l : List Path) : Pool :=
  { s with heap := s.heap ++ [l], refs := s.refs.set 0 s.heap.length }

/-- `__enter__` (repaired): with `multi_proc` the owner's list becomes a new manager list holding a copy of the old content;
processes forked earlier keep the old list object -/
def enter (mp : Bool) (s : Pool) : Pool :=
  if mp then
    match s.listOf 0 with
    | none => s
    | some l => rebindOwner s l
  else s

/-- `__enter__` before the repair: the new manager list is empty -/
def enterFresh (mp : Bool) (s : Pool) : Pool :=
  if mp then
    match s.listOf 0 with
    | none => s
    | some _ => rebindOwner s []
  else s

/-- `__exit__`: `flush()` by the owner; with `multi_proc` the manager is shut down and the owner's list is rebound to a new
empty list (children keep the old object) -/
def exitCtx (mp : Bool) (s : Pool) : Except Err Pool :=
  match s.flush 0 with
  | .error e => .error e
  | .ok s' => if mp then .ok (rebindOwner s' []) else .ok s'

/-- the operations of a history that may enter and leave the context -/
inductive COp
  | create (pid : Nat) | remove (pid : Nat) (p : Path) | flush (pid : Nat) | fork (pid : Nat)
  | unlink (p : Path)
  | enter | exit
  deriving DecidableEq, Repr

/-- as `TmpPool.applyOp` (an operation that raises leaves what it had already done), plus `enter` / `exit` -/
def applyC (mp : Bool) (s : Pool) : COp → Pool
  | .create pid => match s.create pid with | .ok (s', _) => s' | .error _ => s
  | .remove pid p => match s.remove pid p with | .ok s' => s' | .error .valueError => s.unlink p | .error _ => s
  | .flush pid => match s.flush pid with | .ok s' => s' | .error _ => s
  | .fork pid => match s.fork pid with | .ok (s', _) => s' | .error _ => s
  | .unlink p => s.unlink p
  | .enter => enter mp s
  | .exit => match exitCtx mp s with | .ok s' => s' | .error _ => s

def runC (mp : Bool) (s : Pool) (ops : List COp) : Pool := ops.foldl (applyC mp) s

/-- neither `enter` nor `exit` occurs -/
def noCtx : List COp → Bool
  | [] => true
  | .enter :: _ => false
  | .exit :: _ => false
  | _ :: r => noCtx r

/-- no `enter` / `exit` after a `fork`: the context is entered and left only while the owner is the only process -/
def enterAlone : List COp → Bool
  | [] => true
  | .fork _ :: r => noCtx r
  | _ :: r => enterAlone r

def EnterAlone (ops : List COp) : Prop := enterAlone ops = true

instance (ops : List COp) : Decidable (EnterAlone ops) := inferInstanceAs (Decidable (_ = true))

/-- no file is deleted behind the pool's back -/
def noUnlink : List COp → Bool
  | [] => true
  | .unlink _ :: _ => false
  | _ :: r => noUnlink r

def NoUnlinkC (ops : List COp) : Prop := noUnlink ops = true

instance (ops : List COp) : Decidable (NoUnlinkC ops) := inferInstanceAs (Decidable (_ = true))

end WindVerif.TmpPoolCtx
