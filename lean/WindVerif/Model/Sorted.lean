/-
Model of `windpyutils/structures/sorted.py` (`SortedSet`, `SortedMap`, after the repairs D6/D7) and of the library
pieces it calls: `bisect.bisect_left` (the actual lo/hi loop), `sorted` (a stable merge sort), `dict(pairs)`.

Numeric keys (ints and floats mixed, no NaN) compare exactly in Python, so they embed in a linear order; the model uses
`Int` (the harness sends every key as its rank among the distinct values of the case).  A *foreign* probe is a value whose
comparison with a number raises `TypeError` (`str`, `None`, …).
-/
namespace WindVerif.Sorted

inductive Err | keyError | typeError | indexError
  deriving DecidableEq, Repr

/-- a probe value: a number or something that cannot be ordered against numbers -/
inductive Probe
  | num (i : Int)
  | foreign
  deriving DecidableEq, Repr

/-- `bisect.bisect_left(a, x)` for numbers: `while lo < hi: mid = (lo+hi)//2; if a[mid] < x: lo = mid+1 else: hi = mid` -/
def bisectLoop (a : List Int) (x : Int) : Nat → Nat → Nat → Nat
  | 0, lo, _ => lo
  | fuel + 1, lo, hi =>
    if lo < hi then
      let mid := (lo + hi) / 2
      match a[mid]? with
      | some y => if y < x then bisectLoop a x fuel (mid + 1) hi else bisectLoop a x fuel lo mid
      | none => lo   -- unreachable: mid < hi ≤ len
    else lo

def bisectLeftNum (a : List Int) (x : Int) : Nat := bisectLoop a x (a.length + 1) 0 a.length

/-- with a foreign probe the first comparison raises `TypeError`; on an empty list there is no comparison -/
def bisectLeft (a : List Int) : Probe → Except Err Nat
  | .num x => .ok (bisectLeftNum a x)
  | .foreign => if a.isEmpty then .ok 0 else .error .typeError

/-- `insertions_index` of `SortedSet`: `TypeError` propagates; `values[i]` out of range is caught; then `==` -/
def insertionsIndex (a : List Int) (x : Probe) : Except Err (Nat × Bool) :=
  match bisectLeft a x with
  | .error e => .error e
  | .ok i =>
    match a[i]?, x with
    | some y, .num v => .ok (i, y == v)
    | some _, .foreign => .ok (i, false)     -- a number never equals a foreign value
    | none, _ => .ok (i, false)

/-- `list.insert(i, v)` for `0 ≤ i` (clamped at the end like Python) -/
def insertAt (a : List Int) (i : Nat) (v : Int) : List Int := a.take i ++ v :: a.drop i

/-! ## SortedSet -/

/-- adjacent de-duplication of the sorted initial values -/
def dedupAdj : List Int → List Int
  | [] => []
  | [x] => [x]
  | x :: y :: r => if x = y then dedupAdj (y :: r) else x :: dedupAdj (y :: r)

def setInit (vals : List Int) : List Int := dedupAdj (vals.mergeSort (fun a b => a ≤ b))

def setAdd (s : List Int) (v : Int) : List Int :=
  match insertionsIndex s (.num v) with
  | .ok (i, false) => insertAt s i v
  | _ => s

def setDiscard (s : List Int) (v : Int) : List Int :=
  match insertionsIndex s (.num v) with
  | .ok (i, true) => s.eraseIdx i
  | _ => s

/-- `__contains__`: `try: return self.insertions_index(x)[1] except TypeError: return False` -/
def setContains (s : List Int) (x : Probe) : Bool :=
  match insertionsIndex s x with
  | .ok (_, b) => b
  | .error _ => false

/-- `MutableSet.remove`: `if value not in self: raise KeyError(value); self.discard(value)` -/
def setRemove (s : List Int) (v : Int) : Except Err (List Int) :=
  if setContains s (.num v) then .ok (setDiscard s v) else .error .keyError

/-- `MutableSet.pop`: first element of the iteration (the smallest), `KeyError` when empty -/
def setPop (s : List Int) : Except Err (List Int × Int) :=
  match s with
  | [] => .error .keyError
  | v :: _ => .ok (setDiscard s v, v)

/-- `MutableSet.clear`: `while True: self.pop()` until `KeyError` -/
def setClear : Nat → List Int → List Int
  | 0, s => s
  | fuel + 1, s => match setPop s with
    | .ok (s', _) => setClear fuel s'
    | .error _ => s

/-! ## SortedMap -/

structure SMap where
  keys : List Int
  vals : List Nat

/-- `dict(pairs)`: insertion order of first occurrence, later values win -/
def dictOf : List (Int × Nat) → List (Int × Nat) → List (Int × Nat)
  | acc, [] => acc
  | acc, (k, v) :: r =>
    if (acc.lookup k).isSome then dictOf (acc.map (fun p => if p.1 = k then (k, v) else p)) r
    else dictOf (acc ++ [(k, v)]) r

/-- constructor: `dict(init_values)`, then stable `arg_sort` of the keys -/
def mapInit (pairs : List (Int × Nat)) : SMap :=
  let d := dictOf [] pairs
  let sorted := d.mergeSort (fun a b => a.1 ≤ b.1)
  { keys := sorted.map (·.1), vals := sorted.map (·.2) }

/-- `insertions_index` of `SortedMap`: a `TypeError` from bisect becomes `KeyError` -/
def mapIndex (m : SMap) (x : Probe) : Except Err (Nat × Bool) :=
  match insertionsIndex m.keys x with
  | .error _ => .error .keyError
  | .ok r => .ok r

def mapGet (m : SMap) (x : Probe) : Except Err Nat :=
  match mapIndex m x with
  | .error e => .error e
  | .ok (i, true) => match m.vals[i]? with
    | some v => .ok v
    | none => .error .indexError
  | .ok (_, false) => .error .keyError

/-- `__setitem__` for a valid (numeric, non-NaN) key -/
def mapSet (m : SMap) (k : Int) (v : Nat) : SMap :=
  match insertionsIndex m.keys (.num k) with
  | .ok (i, true) => { m with vals := m.vals.set i v }
  | .ok (i, false) => { keys := insertAt m.keys i k, vals := m.vals.take i ++ v :: m.vals.drop i }
  | .error _ => m

def mapDel (m : SMap) (x : Probe) : Except Err SMap :=
  match mapIndex m x with
  | .error e => .error e
  | .ok (i, true) => .ok { keys := m.keys.eraseIdx i, vals := m.vals.eraseIdx i }
  | .ok (_, false) => .error .keyError

/-- `Mapping.__contains__`: `try: self[key] except KeyError: return False else: return True` -/
def mapContains (m : SMap) (x : Probe) : Bool :=
  match mapGet m x with
  | .ok _ => true
  | .error _ => false

/-- `MutableMapping.pop(key)` (no default) -/
def mapPop (m : SMap) (x : Probe) : Except Err (SMap × Nat) :=
  match mapGet m x with
  | .error e => .error e
  | .ok v => match mapDel m x with
    | .error e => .error e
    | .ok m' => .ok (m', v)

/-- `MutableMapping.popitem()`: the first (smallest) key -/
def mapPopitem (m : SMap) : Except Err (SMap × Int × Nat) :=
  match m.keys with
  | [] => .error .keyError
  | k :: _ => match mapPop m (.num k) with
    | .error e => .error e
    | .ok (m', v) => .ok (m', k, v)

def mapSetdefault (m : SMap) (k : Int) (v : Nat) : SMap × Nat :=
  match mapGet m (.num k) with
  | .ok w => (m, w)
  | .error _ => (mapSet m k v, v)

def mapUpdate (m : SMap) : List (Int × Nat) → SMap
  | [] => m
  | (k, v) :: r => mapUpdate (mapSet m k v) r

def mapItems (m : SMap) : List (Int × Nat) := m.keys.zip m.vals

end WindVerif.Sorted
