import WindVerif.Model.Buffers
/-
The `collections.abc.Sequence` mixin methods `CircularBuffer` INHERITS (CPython 3.12 `Lib/_collections_abc.py`), written as the
abc module writes them on top of `Ring.get` (= `CircularBuffer.__getitem__`, which rejects negative indices like too large
ones with `IndexError`) and `Ring.size` (= `__len__`).  Beside them `pyListIndex`, the specification of the builtin
`list.index(value, start, stop)`.
-/
namespace WindVerif.Buffers

/-- errors of the sequence mixins: an `IndexError` of `__getitem__` that is not caught, and `ValueError` of `index` -/
inductive SeqErr | indexError | valueError
  deriving DecidableEq, Repr

/-- `Sequence.__iter__` consumed completely:
`i = 0; try: while True: v = self[i]; yield v; i += 1 except IndexError: return` -/
def ringIterLoop (r : Ring) : Nat → Int → List Nat
  | 0, _ => []
  | fuel + 1, i =>
    match r.get i with
    | .ok v => v :: ringIterLoop r fuel (i + 1)
    | .error _ => []

/-- the loop ends at the first `IndexError`, i.e. at `i = len(self)` at the latest: `size + 1` steps suffice
(`ringIter_fuel` in the proofs: more fuel changes nothing) -/
def ringIter (r : Ring) : List Nat := ringIterLoop r (r.size + 1) 0

/-- `Sequence.__contains__`: `for v in self: if v is value or v == value: return True` / `return False` -/
def ringContains (r : Ring) (v : Nat) : Bool := (ringIter r).any (fun x => x == v)

/-- `Sequence.__reversed__` consumed completely: `for i in reversed(range(len(self))): yield self[i]`
(an `IndexError` of `self[i]` is not caught here) -/
def ringReversed (r : Ring) : Except SeqErr (List Nat) :=
  (List.range r.size).reverse.mapM (fun (i : Nat) => match r.get (i : Int) with
    | .ok x => .ok x
    | .error _ => .error .indexError)

/-- `Sequence.count`: `sum(1 for v in self if v is value or v == value)` -/
def ringCount (r : Ring) (v : Nat) : Nat :=
  (ringIter r).foldl (fun acc x => if x == v then acc + 1 else acc) 0

/-- the loop condition of `Sequence.index`: `stop is None or i < stop` -/
def stopAllows (stop : Option Int) (i : Int) : Bool :=
  match stop with
  | none => true
  | some e => decide (i < e)

/-- the loop of `Sequence.index`:
`while stop is None or i < stop: try: v = self[i] except IndexError: break; if v is value or v == value: return i; i += 1`
and then `raise ValueError` -/
def ringIndexLoop (r : Ring) (v : Nat) (stop : Option Int) : Nat → Int → Except SeqErr Nat
  | 0, _ => .error .valueError
  | fuel + 1, i =>
    if stopAllows stop i then
      match r.get i with
      | .error _ => .error .valueError
      | .ok x => if x == v then .ok i.toNat else ringIndexLoop r v stop fuel (i + 1)
    else .error .valueError

/-- the start of `Sequence.index(value, start=0, stop=None)` (`none`: the argument is not given, i.e. `0`):
`if start is not None and start < 0: start = max(len(self) + start, 0)` -/
def seqStart (n : Nat) (start : Option Int) : Int :=
  match start with
  | none => 0
  | some a => if a < 0 then max ((n : Int) + a) 0 else a

/-- the stop of `Sequence.index`: `if stop is not None and stop < 0: stop += len(self)` -/
def seqStop (n : Nat) (stop : Option Int) : Option Int :=
  match stop with
  | none => none
  | some e => some (if e < 0 then e + (n : Int) else e)

/-- `Sequence.index(value, start=0, stop=None)`: normalise `start` and `stop` with `len(self)`, `i = start`, the loop.
The start is never negative, so the loop meets an `IndexError` at `i = len(self)` at the latest: `size + 1` steps
suffice. -/
def ringIndex (r : Ring) (v : Nat) (start stop : Option Int) : Except SeqErr Nat :=
  ringIndexLoop r v (seqStop r.size stop) (r.size + 1) (seqStart r.size start)

/-! ## the specification: `list.index` of the builtin list -/

/-- how `list.index` (like a slice) normalises an index: a negative one gets `+ len` and is then clamped at 0 -/
def pyClampIdx (n : Nat) (i : Int) : Nat := if i < 0 then ((n : Int) + i).toNat else i.toNat

def pyStart (n : Nat) (start : Option Int) : Nat :=
  match start with
  | none => 0
  | some a => pyClampIdx n a

def pyStop (n : Nat) (stop : Option Int) : Nat :=
  match stop with
  | none => n
  | some b => pyClampIdx n b

/-- `l.index(v, start, stop)`: the first position of `v` in `l[start:stop]`, counted in `l`; `none` = `ValueError` -/
def pyListIndex (l : List Nat) (v : Nat) (start stop : Option Int) : Option Nat :=
  let s := pyStart l.length start
  let e := pyStop l.length stop
  match ((l.take e).drop s).findIdx? (fun x => x == v) with
  | some j => some (s + j)
  | none => none

end WindVerif.Buffers
