import WindVerif.Model.LineFile
/-
The methods the line files of `windpyutils/files.py` INHERIT from `collections.abc.Sequence` / `MutableSequence`
(CPython 3.12 `Lib/_collections_abc.py`), modelled as the abc module writes them, on top of the primitives of
`Model/LineFile.lean`.

Which ones the file classes override: `__iter__` (files.py: a generator — `if self.closed: raise RuntimeError`, then
`for n in range(len(self)): yield self._get_item(n)` / `self._read_line(n)`; both are `LF.getPos`, the length is taken once,
at the first step), `__getitem__`, `__len__`.  NOT overridden: `__contains__`, `__reversed__`, `index`, `count`
(Sequence), `clear`, `remove`, `pop`, `reverse`, `extend`, `append`, `__iadd__` (MutableSequence).

    def __contains__(self, value):
        for v in self:                                  # the overridden __iter__
            if v is value or v == value: return True
        return False
    def __reversed__(self):
        for i in reversed(range(len(self))): yield self[i]
    def index(self, value, start=0, stop=None):
        if start is not None and start < 0: start = max(len(self) + start, 0)
        if stop is not None and stop < 0: stop += len(self)
        i = start
        while stop is None or i < stop:
            try: v = self[i]
            except IndexError: break
            if v is value or v == value: return i
            i += 1
        raise ValueError
    def count(self, value): return sum(1 for v in self if v is value or v == value)
    def clear(self):
        try:
            while True: self.pop()
        except IndexError: pass

As everywhere in `Model/LineFile.lean` a failed call returns only the exception (the handle's cursor, the one thing a read
moves, does not influence any later result).
-/
namespace WindVerif.LineFile

/-- the `i` the loop of `Sequence.index` starts with (`start` omitted: `0`) -/
def seqStart (len : Nat) (start : Option Int) : Nat :=
  match start with
  | none => 0
  | some s => if s < 0 then (max ((len : Int) + s) 0).toNat else s.toNat

/-- `stop` after `if stop is not None and stop < 0: stop += len(self)` (it may stay negative) -/
def seqStop (len : Nat) (stop : Option Int) : Option Int :=
  stop.map (fun s => if s < 0 then s + (len : Int) else s)

/-- the loop condition `stop is None or i < stop` -/
def seqBelow (stop : Option Int) (i : Nat) : Bool :=
  match stop with
  | none => true
  | some s => decide ((i : Int) < s)

/-- the `while` loop of `Sequence.index`; `IndexError` of `self[i]` ends it (→ `ValueError`), any other exception of
`self[i]` (the `RuntimeError` of a closed file) propagates.  Every round but the last one reads a valid position, so
`len + 1` rounds of fuel suffice (`lfIndexGo_fuel`). -/
def lfIndexGo (f : LF) (v : Str) (stop : Option Int) : Nat → Nat → Except Err (LF × Nat)
  | 0, _ => .error .valueError
  | fuel + 1, i =>
    if seqBelow stop i then
      match f.getInt (i : Int) with
      | .error .indexError => .error .valueError
      | .error e => .error e
      | .ok (f', s) => if s = v then .ok (f', i) else lfIndexGo f' v stop fuel (i + 1)
    else .error .valueError

/-- `f.index(v, start, stop)` (`none` = the argument is omitted; for `stop` also an explicit `None`) -/
def lfIndex (f : LF) (v : Str) (start stop : Option Int) : Except Err (LF × Nat) :=
  lfIndexGo f v (seqStop f.lines.length stop) (f.lines.length + 1) (seqStart f.lines.length start)

/-- the body of a `for x in self` loop that looks for `v`, from the generator's position `p`, `k` items to go -/
def lfContainsGo (f : LF) (v : Str) : Nat → Nat → Except Err (LF × Bool)
  | _, 0 => .ok (f, false)
  | p, k + 1 =>
    match f.getPos p with
    | .error e => .error e
    | .ok (f', s) => if s = v then .ok (f', true) else lfContainsGo f' v (p + 1) k

/-- `v in f`: `Sequence.__contains__` over the overridden `__iter__` (which refuses a closed file at its first step and
takes `len(self)` once) -/
def lfContains (f : LF) (v : Str) : Except Err (LF × Bool) :=
  if f.closed then .error .runtimeError else lfContainsGo f v 0 f.lines.length

/-- `sum(1 for x in self if x == v)`, the running sum in `acc` -/
def lfCountGo (f : LF) (v : Str) : Nat → Nat → Nat → Except Err (LF × Nat)
  | _, 0, acc => .ok (f, acc)
  | p, k + 1, acc =>
    match f.getPos p with
    | .error e => .error e
    | .ok (f', s) => lfCountGo f' v (p + 1) k (if s = v then acc + 1 else acc)

/-- `f.count(v)` -/
def lfCount (f : LF) (v : Str) : Except Err (LF × Nat) :=
  if f.closed then .error .runtimeError else lfCountGo f v 0 f.lines.length 0

/-- `for i in reversed(range(n)): yield self[i]`, `k` items to go: positions `k-1, …, 0` -/
def lfReversedGo (f : LF) : Nat → Except Err (LF × List Str)
  | 0 => .ok (f, [])
  | k + 1 =>
    match f.getInt (k : Int) with
    | .error e => .error e
    | .ok (f', s) =>
      match lfReversedGo f' k with
      | .error e => .error e
      | .ok (f'', ss) => .ok (f'', s :: ss)

/-- `list(reversed(f))`: `Sequence.__reversed__`; `len(self)` works on a closed file, `self[i]` does not — a closed file
without lines yields nothing and raises nothing -/
def lfReversed (f : LF) : Except Err (LF × List Str) := lfReversedGo f f.lines.length

/-- the loop of `MutableSequence.clear`: `self.pop()` until it raises; `IndexError` is swallowed, anything else
propagates.  Every successful `pop` shortens `_lines`, so `len + 1` rounds suffice (`clearGo_fuel`). -/
def LF.clearGo (f : LF) : Nat → Except Err LF
  | 0 => .ok f
  | fuel + 1 =>
    match f.pop (-1) with
    | .error .indexError => .ok f
    | .error e => .error e
    | .ok (f', _) => LF.clearGo f' fuel

/-- `f.clear()` -/
def LF.clear (f : LF) : Except Err LF := f.clearGo (f.lines.length + 1)

end WindVerif.LineFile
