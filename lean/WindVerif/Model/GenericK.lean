import WindVerif.Model.Generic
/-!
`sorted_combinations` for an ARBITRARY key (property C17).

`combosLoopK` is `combosLoop` of `Model/Generic.lean` with the key of a queue entry computed by a key function given as a
parameter, applied to the *index* combination (for a direct call on values compose the key with `List.map val` outside).
Below it: a few executable key families on index combinations over a score list (used by the driver), each with the lemma
that it never decreases when an element is appended (`KeyMono`).
-/
namespace WindVerif.Generic

/-- the loop of `sorted_combinations(elements, key, yield_key=True)` with fuel; `n = len(elements)`:
`heappop`, yield, push `(key(comb + (e,)), len, comb + (e,), i)` for every later element -/
def combosLoopK (val : Nat → Nat) (key : List Nat → Nat) (n : Nat) : Nat → List Entry → List (List Nat × Nat)
  | 0, _ => []
  | fuel + 1, q =>
    match popMin val q with
    | none => []
    | some (e, q') =>
      let ext := (List.range' (e.idx + 1) (n - (e.idx + 1))).map
        (fun i => { key := key (e.comb ++ [i]), comb := e.comb ++ [i], idx := i : Entry })
      (e.comb, e.key) :: combosLoopK val key n fuel (q' ++ ext)

/-- `sorted_combinations` over `n` elements with values `val 0 … val (n-1)` and the key `key` (on index combinations) -/
def sortedCombinationsK (val : Nat → Nat) (key : List Nat → Nat) (n : Nat) : List (List Nat × Nat) :=
  combosLoopK val key n (2 ^ n) ((List.range n).map (fun i => { key := key [i], comb := [i], idx := i : Entry }))

/-- the assumption of `sorted_combinations` on its key: `key(c + (e,)) >= key(c)` -/
def KeyMono (key : List Nat → Nat) : Prop := ∀ c i, key c ≤ key (c ++ [i])

/-! ## key families (on index combinations over a score list) -/

/-- the scores of the members of an index combination -/
def memberScores (scores : List Nat) (comb : List Nat) : List Nat := comb.map (fun i => scores.getD i 0)

/-- `max(l)`, 0 for the empty list -/
def listMax (l : List Nat) : Nat := l.foldl max 0

/-- `min(l)`, 0 for the empty list -/
def listMin : List Nat → Nat
  | [] => 0
  | x :: r => r.foldl min x

/-- the distinct members of a list in the order of their first occurrence -/
def distinctOf (l : List Nat) : List Nat := l.foldl (fun acc x => if x ∈ acc then acc else acc ++ [x]) []

/-- `key = lambda c: sum(score[i] for i in c)` (the key of the old model) -/
def keySum (scores : List Nat) : List Nat → Nat := scoreSum scores

/-- `key = lambda c: max(score[i] for i in c)` -/
def keyMax (scores : List Nat) (comb : List Nat) : Nat := listMax (memberScores scores comb)

/-- `key = lambda c: max(...) - min(...)`: 0 for singletons -/
def keySpread (scores : List Nat) (comb : List Nat) : Nat :=
  listMax (memberScores scores comb) - listMin (memberScores scores comb)

/-- `key = len` -/
def keyLen (comb : List Nat) : Nat := comb.length

/-- `key = lambda c: k` -/
def keyConst (k : Nat) (_ : List Nat) : Nat := k

/-- `key = lambda c: len(set(score[i] for i in c))` -/
def keyDistinct (scores : List Nat) (comb : List Nat) : Nat := (distinctOf (memberScores scores comb)).length

/-! ## every family is monotone under appending -/

theorem memberScores_append (scores : List Nat) (c : List Nat) (i : Nat) :
    memberScores scores (c ++ [i]) = memberScores scores c ++ [scores.getD i 0] := by
  simp [memberScores]

theorem listMax_append (l : List Nat) (a : Nat) : listMax (l ++ [a]) = max (listMax l) a := by
  simp [listMax, List.foldl_append]

theorem listMin_append {l : List Nat} (h : l ≠ []) (a : Nat) : listMin (l ++ [a]) = min (listMin l) a := by
  cases l with
  | nil => exact absurd rfl h
  | cons x r => simp [listMin, List.foldl_append]

theorem distinctOf_append (l : List Nat) (a : Nat) :
    distinctOf (l ++ [a]) = if a ∈ distinctOf l then distinctOf l else distinctOf l ++ [a] := by
  unfold distinctOf
  rw [List.foldl_append]
  rfl

theorem keySum_mono (scores : List Nat) : KeyMono (keySum scores) := by
  intro c i
  simp [keySum, scoreSum]

theorem keyMax_mono (scores : List Nat) : KeyMono (keyMax scores) := by
  intro c i
  simp only [keyMax, memberScores_append, listMax_append]
  omega

theorem keySpread_mono (scores : List Nat) : KeyMono (keySpread scores) := by
  intro c i
  cases c with
  | nil => simp [keySpread, memberScores, listMax, listMin]
  | cons x r =>
    have hne : memberScores scores (x :: r) ≠ [] := by simp [memberScores]
    simp only [keySpread, memberScores_append, listMax_append, listMin_append hne]
    omega

theorem keyLen_mono : KeyMono keyLen := by
  intro c i
  simp [keyLen]

theorem keyConst_mono (k : Nat) : KeyMono (keyConst k) := by
  intro c i
  exact Nat.le_refl _

theorem keyDistinct_mono (scores : List Nat) : KeyMono (keyDistinct scores) := by
  intro c i
  simp only [keyDistinct, memberScores_append, distinctOf_append]
  split <;> simp

end WindVerif.Generic
