/-
Small-step interleaving model of `windpyutils/parallel/own_proc_pools.py` (`FunctorPool`, `FactoryFunctorPool`, after the
repairs D15–D17): the consumer (the caller's thread: `__enter__`, `until_all_ready`, a sequence of `imap` /
`imap_unordered` calls — optionally each with an `until_all_ready()` in its middle, `Cfg.readyMid` —, `__exit__`), the feeding thread `SendWorkThread`, the `ReplaceWorkerThread` and the worker
processes.  One model step = one *visible operation* (queue put/get/qsize, event set/clear/is_set/wait, lock
acquire/release, read/write of `_sending_work` / `_data_cnt`, start/join) together with the thread-local code that follows
it up to the next visible operation — exactly the scheduling points of the controlled scheduler that runs the real code.

`end()` of a worker: `BaseFunctorWorker.run` runs `self.end()` in the `finally:` of its `try:`, i.e. AFTER the operation that ends
its loop on every way out — the stop order has been taken from the work queue, the wid has been posted to the replace queue
(`replace_queue.put(self.wid)`), the quota of a plain pool is used up, `begin()` or the functor has raised.  Between the two the
process is still running (`exitcode` is None, a join without timeout blocks).  The model has this intermediate state in EVERY
configuration: each of these steps leaves the worker at `WPc.ending` (`workerEnding`, which remembers `crashed`), and the
`.ending` step — always enabled; the controlled scheduler announces it as `end W<wid>` — logs `end_` and exits (`workerExit`).

`Cfg.joinTimeout`: the pool was built with a finite `join_timeout`.  `p.join(timeout=self.join_timeout)` in
`ReplaceWorkerThread.run` and in `FunctorPool.__exit__` then returns after the timeout whether the worker has exited or not
(`RPc.join`, `CPc.exitJoin` are enabled in both cases), so that the successor can be started, and `__exit__` can return, while
the retired worker is still inside `end()`.  With `joinTimeout = false` (`join_timeout=None`) the two joins are enabled only
when the worker has exited: they block while it is at `.ending`.

Chunks are represented by their index; applying the functor, pulling the next chunk from the input iterator, the reorder
`Buffer` and yielding to the caller are thread-local.  Worker faults (`begin()` raises, the functor raises at an item)
are explicit alternatives of the worker program selected by the configuration.
-/
namespace WindVerif.Pool

/-- thread identities -/
inductive Tid
  | c                -- consumer / caller
  | f                -- feeding thread of the current call
  | r                -- replace thread of the current call
  | w (wid : Nat)    -- worker process
  deriving DecidableEq, Repr

/-- one `imap` / `imap_unordered` call: number of chunks its input makes, ordered or not -/
structure Call where
  chunks  : Nat
  ordered : Bool
  deriving DecidableEq, Repr

/-- configuration of a pool and of the caller's program -/
structure Cfg where
  nWorkers  : Nat
  workCap   : Option Nat        -- `work_queue_maxsize` after conversion (none = unbounded)
  resCap    : Option Nat        -- `results_queue_maxsize` (none = unbounded, buffer limit = inf)
  factory   : Bool              -- FactoryFunctorPool (replacement of retired workers)
  quota     : Option Nat        -- `max_chunks_per_worker` (none = inf)
  waitReady : Bool              -- caller invokes `until_all_ready()` after `__enter__`
  calls     : List Call
  beginFault : List Nat         -- wids whose `begin()` raises
  itemFault  : List (Nat × Nat) -- (wid, k): the functor of worker `wid` raises at its k-th chunk (0-based)
  readyMid  : Bool := false     -- caller invokes `until_all_ready()` in EVERY call, right after the call's first result
  joinTimeout : Bool := false   -- the pool was built with a finite `join_timeout`: `p.join(timeout=…)` in the replace thread
                                -- and in `__exit__` returns after the timeout whether the worker has exited or not
  deriving Repr

/-- program counters of the consumer -/
inductive CPc
  | enterStart (i : Nat)      -- `p.start()` for `procs[i]`
  | readyWait (i : Nat)       -- `procs[i].begin_finished.wait()`
  | nextCall                  -- decide: next call or `__exit__`
  | rInitSet                  -- factory: `ReplaceWorkerThread.__init__`: `run_event.set()`
  | rStart                    -- factory: start R
  | fInitSet                  -- `SendWorkThread.__init__`: `run_event.set()`
  | wrSending                 -- `_sending_work = True`
  | wrDataCnt                 -- `_data_cnt = 0`
  | fStart                    -- start F
  | rdSending                 -- loop test: read `_sending_work`
  | rdDataCnt                 -- loop test: read `_data_cnt`
  | qsize1                    -- `_get_results`: first `qsize()`
  | lockAcq
  | qsize2                    -- inside the lock: `while qsize() > 0`
  | getNowait
  | lockRel
  | getBlock                  -- blocking `get()`
  | flowClear                 -- `run_event.clear()`
  | flowIsSet                 -- `run_event.is_set()`
  | flowSet                   -- `run_event.set()`
  | fStopSet                  -- `stop_event.set()` of F
  | fJoin
  | rPutNone                  -- factory: `replace_queue.put(None)`
  | rStopSet
  | rJoin
  | exitPut (i : Nat)         -- `work_queue.put(None, timeout)`, i-th of len(procs); leaves the loop when all have exited
  | exitJoin (i : Nat)        -- `procs[i].join()`
  | midReady (i : Nat) (wid : Nat)
                              -- mid-call `until_all_ready()`: `p.begin_finished.wait()` where `p` (worker `wid`) is the
                              -- i-th element the loop `for p in self.procs` has fetched (see `enterMid` below)
  | done
  deriving DecidableEq, Repr

inductive FPc
  | idle                      -- no feeder (not started / finished)
  | put                       -- `work_queue.put((i, chunk))`
  | rdCnt | wrCnt             -- `_data_cnt += 1`
  | stopIsSet                 -- `stop_event.is_set()`
  | runWait                   -- `run_event.wait()`
  | wrSending                 -- `_sending_work = False`
  | token                     -- `results_queue.put(None, block=False)`
  deriving DecidableEq, Repr

inductive RPc
  | idle
  | get                       -- `replace_queue.get()`
  | join (wid : Nat)
  | start (wid : Nat)         -- start the successor (its wid)
  deriving DecidableEq, Repr

inductive WPc
  | notStarted
  | bfClear | bfSet           -- `begin_finished.clear()`, `begin()`, `begin_finished.set()`
  | get                       -- `work_queue.get()`
  | lockAcq | putNowait | lockRel | putBlock
  | retire                    -- `replace_queue.put(wid)`
  | ending                    -- the loop is over (stop order / wid posted / quota / exception); `end()` of the `finally:` is still to run
  | exited
  deriving DecidableEq, Repr

/-- what a worker did, for the lifecycle property -/
inductive WEv | begin | item (i : Nat) | end_
  deriving DecidableEq, Repr

structure Worker where
  wid    : Nat
  pc     : WPc
  quota  : Option Nat
  held   : Option Nat         -- chunk index in its hands
  full   : Bool               -- the non-blocking put raised `Full`
  bf     : Bool               -- `begin_finished`
  done   : Nat                -- chunks processed so far
  log    : List WEv
  crashed : Bool              -- left through an exception
  deriving Repr

structure St where
  cfg     : Cfg
  -- shared objects
  workQ   : List (Option Nat)       -- `some i` = chunk i, `none` = stop order
  resQ    : List (Option Nat)       -- `some i` = result of chunk i, `none` = wake-up token
  replQ   : List (Option Nat)       -- `some wid` = retired worker, `none` = stop token
  lock    : Option Tid
  sending : Bool
  dataCnt : Nat
  fRun : Bool
  fStop : Bool
  rRun : Bool
  rStop : Bool
  -- consumer
  cpc     : CPc
  callsLeft : List Call
  cur     : Option Call
  callNo  : Nat
  finished : Nat                    -- `finished_cnt`
  batch   : List Nat                -- result chunks drained in this `_get_results`
  woken   : Bool
  buffer  : List Nat                -- reorder `Buffer`: held chunk indices
  wf      : Nat                     -- `Buffer.waiting_for`
  out     : List (Nat × Nat)        -- emitted (call number, chunk index), in emission order
  -- feeder
  fpc     : FPc
  fNext   : Nat                     -- index of the chunk in F's hands / to be sent
  fTotal  : Nat
  fAlive  : Bool                    -- started and not finished
  fRead   : Nat                     -- value read from `_data_cnt`
  -- replace thread
  rpc     : RPc
  rAlive  : Bool
  -- workers
  workers : List Worker             -- every worker ever created
  procs   : List Nat                -- `pool.procs`: wids listed
  widCounter : Nat
  deriving Repr

def mkWorker (cfg : Cfg) (wid : Nat) : Worker :=
  { wid := wid, pc := .notStarted, quota := cfg.quota, held := none, full := false, bf := false, done := 0, log := [],
    crashed := false }

def init (cfg : Cfg) : St :=
  { cfg := cfg, workQ := [], resQ := [], replQ := [], lock := none, sending := false, dataCnt := 0,
    fRun := false, fStop := false, rRun := false, rStop := false,
    cpc := if cfg.nWorkers = 0 then (if cfg.waitReady then .readyWait 0 else .nextCall) else .enterStart 0,
    callsLeft := cfg.calls, cur := none, callNo := 0, finished := 0, batch := [],
    woken := false, buffer := [], wf := 0, out := [],
    fpc := .idle, fNext := 0, fTotal := 0, fAlive := false, fRead := 0,
    rpc := .idle, rAlive := false,
    workers := (List.range cfg.nWorkers).map (mkWorker cfg), procs := List.range cfg.nWorkers,
    widCounter := cfg.nWorkers }

def capFull (cap : Option Nat) (q : List (Option Nat)) : Bool :=
  match cap with
  | none => false
  | some c => decide (c > 0 ∧ q.length ≥ c)

def getWorker (s : St) (wid : Nat) : Option Worker := s.workers.find? (·.wid = wid)

def setWorker (s : St) (w : Worker) : St :=
  { s with workers := s.workers.map (fun x => if x.wid = w.wid then w else x) }

def workerExited (s : St) (wid : Nat) : Bool :=
  match getWorker s wid with
  | some w => w.pc == .exited
  | none => false

/-- buffer limit `_results_queue_maxsize` (inf when unbounded) -/
def bufferFull (s : St) : Bool :=
  match s.cfg.resCap with
  | none => false
  | some c => decide (s.buffer.length ≥ c)

/-! ### consumer: thread-local continuation after a `_get_results` returned the chunks `batch` -/

/-- feed the drained chunks to the reorder buffer and drain it (ordered), or emit directly (unordered) -/
def drainBuffer : Nat → List Nat → Nat → List Nat → (List Nat × Nat × List Nat)
  | 0, buf, wf, acc => (buf, wf, acc)
  | fuel + 1, buf, wf, acc =>
    if buf.contains wf then drainBuffer fuel (buf.erase wf) (wf + 1) (acc ++ [wf]) else (buf, wf, acc)

def consumeBatch (s : St) : St :=
  match s.cur with
  | none => s
  | some call =>
    if call.ordered then
      -- `for res_i, res_chunk in zip(...): for ch in buffer(res_i, res_chunk): finished += 1; yield`
      let rec go (b : List Nat) (buf : List Nat) (wf : Nat) (fin : Nat) (out : List (Nat × Nat)) :
          List Nat × Nat × Nat × List (Nat × Nat) :=
        match b with
        | [] => (buf, wf, fin, out)
        | i :: r =>
          let (buf', wf', em) := drainBuffer (buf.length + 2) (i :: buf) wf []
          go r buf' wf' (fin + em.length) (out ++ em.map (fun j => (s.callNo, j)))
      let (buf, wf, fin, out) := go s.batch s.buffer s.wf s.finished s.out
      { s with buffer := buf, wf := wf, finished := fin, out := out, batch := [], woken := false }
    else
      { s with finished := s.finished + s.batch.length, out := s.out ++ s.batch.map (fun j => (s.callNo, j)),
               batch := [], woken := false }

/-- the batch has been processed: the flow-control test (ordered only) or the loop test -/
def afterBatch (s : St) : St :=
  match s.cur with
  | some call =>
    if call.ordered then
      if bufferFull s then { s with cpc := .flowClear } else { s with cpc := .flowIsSet }
    else { s with cpc := .rdSending }
  | none => { s with cpc := .rdSending }

/-- `until_all_ready()` called by the caller in the MIDDLE of a call (`Cfg.readyMid`): the generator is suspended at the
`yield` of the first result of the call, the caller runs `for p in self.procs: p.begin_finished.wait()`, then resumes the
generator.  The replace thread is alive at that time and exchanges workers by `self.procs[i] = new`.

Python semantics of the loop: a list iterator keeps the list and an index; each `next()` reads `procs[index]` from the LIVE
list at that moment (no snapshot is taken) and stops when `index ≥ len(procs)` (the replace thread assigns by index only, the
length never changes).  The element is fetched by the thread-local code that FOLLOWS the previous visible operation; the
visible operation `p.begin_finished.wait()` is then performed on the object `p` that was fetched, whatever the replace thread
has stored in that slot in the meantime.  Hence the program counter carries the wid that was fetched: `midReady i wid` =
"about to wait for worker `wid`, which was `procs[i]` when the loop arrived at slot `i`" (a predecessor that has been
replaced since then has completed `begin()` long ago — it retired —, so that wait returns at once; its successor in the slot
is NOT waited for).  This is exactly what the controlled scheduler observes (`W<wid>.begin_finished.wait` is announced with
the fetched object), and every other real timing of the fetch equals a schedule of this model in which the previous wait is
performed later (a wait that can return can still return later: `begin_finished` is never cleared again).

The rest of the batch (the remaining elements of the first chunk, further chunks) is processed by the generator after the
wait; that code is thread-local and touches only `buffer`, `finished`, `out`, which nobody else reads, so the model processes
the whole batch first (`consumeBatch`) and performs the waits afterwards; the flow-control test is evaluated after the wait,
as in the code. -/
def enterMid (s : St) : St :=
  match s.procs[0]? with
  | some wid => { s with cpc := .midReady 0 wid }
  | none => afterBatch s

/-- after `_get_results` returned: process the batch; if this emitted the first chunk of the call and the caller's program
says so, `until_all_ready()` (mid-call); then the flow-control test (ordered only) or the loop test -/
def afterResults (s : St) : St :=
  let s' := consumeBatch s
  if s.cfg.readyMid = true ∧ s.finished = 0 ∧ 0 < s'.finished then enterMid s' else afterBatch s'

/-- start of the next call or of `__exit__` -/
def toNextCall (s : St) : St :=
  match s.callsLeft with
  | call :: rest =>
    let s := { s with callsLeft := rest, cur := some call, callNo := s.callNo + 1, finished := 0, batch := [],
                      woken := false, buffer := [], wf := 0 }
    if s.cfg.factory then { s with cpc := .rInitSet } else { s with cpc := .fInitSet }
  | [] =>
    let s := { s with cur := none }
    if s.procs.length = 0 then { s with cpc := .done } else { s with cpc := .exitPut 0 }

/-- position in `__exit__`'s join loop: skip workers that have an exit code already -/
def exitJoinFrom (s : St) : Nat → Nat → CPc
  | 0, i => .exitJoin i
  | fuel + 1, i =>
    match s.procs[i]? with
    | none => .done
    | some wid => if workerExited s wid then exitJoinFrom s fuel (i + 1) else .exitJoin i

def afterEnter (s : St) : St :=
  if s.cfg.waitReady ∧ s.procs.length > 0 then { s with cpc := .readyWait 0 } else toNextCall { s with cpc := .nextCall }

/-! ### worker: local code after `work_queue.get()` returned a chunk, and leaving -/

def workerExit (w : Worker) (crashed : Bool) : Worker :=
  { w with pc := .exited, log := w.log ++ [.end_], crashed := crashed, held := none }

/-- the worker's loop is over (stop order taken / wid posted / quota of a plain pool used up / `begin()` or the functor
raised: `crashed`); the `finally: self.end()` is still to run (`WPc.ending`) -/
def workerEnding (w : Worker) (crashed : Bool) : Worker :=
  { w with pc := .ending, crashed := crashed, held := none }

/-- top of the `while self.max_chunks_per_worker > 0` loop -/
def workerLoopTop (factory : Bool) (w : Worker) : Worker :=
  match w.quota with
  | some 0 => if factory then { w with pc := .retire } else workerEnding w false
  | _ => { w with pc := .get }

/-! ### the step function: `none` = the thread is not enabled (blocked, finished or not existing) -/

def stepC (s : St) : Option St :=
  match s.cpc with
  | .enterStart i =>
    match s.procs[i]? with
    | none => none
    | some wid =>
      match getWorker s wid with
      | none => none
      | some w =>
        let s := setWorker s { w with pc := .bfClear }
        if i + 1 < s.procs.length then some { s with cpc := .enterStart (i + 1) } else some (afterEnter s)
  | .readyWait i =>
    match s.procs[i]? with
    | none => none
    | some wid =>
      match getWorker s wid with
      | none => none
      | some w =>
        if w.bf then
          (if i + 1 < s.procs.length then some { s with cpc := .readyWait (i + 1) }
           else some (toNextCall { s with cpc := .nextCall }))
        else none
  | .nextCall => some (toNextCall s)
  | .rInitSet => some { s with rRun := true, rStop := false, cpc := .rStart }
  | .rStart => some { s with rAlive := true, rpc := .get, cpc := .fInitSet }
  | .fInitSet => some { s with fRun := true, fStop := false, cpc := .wrSending }
  | .wrSending => some { s with sending := true, cpc := .wrDataCnt }
  | .wrDataCnt => some { s with dataCnt := 0, cpc := .fStart }
  | .fStart =>
    match s.cur with
    | none => none
    | some call =>
      -- the feeder pulls its first chunk right away (thread-local): none → straight to clearing the flag
      some { s with fAlive := true, fNext := 0, fTotal := call.chunks,
                    fpc := if call.chunks = 0 then .wrSending else .put, cpc := .rdSending }
  | .rdSending => if s.sending then some { s with cpc := .qsize1 } else some { s with cpc := .rdDataCnt }
  | .rdDataCnt => if s.finished < s.dataCnt then some { s with cpc := .qsize1 } else some { s with cpc := .fStopSet }
  | .qsize1 => if s.resQ.length > 0 then some { s with cpc := .lockAcq, batch := [], woken := false }
               else some { s with cpc := .getBlock }
  | .lockAcq => if s.lock.isNone then some { s with lock := some .c, cpc := .qsize2 } else none
  | .qsize2 => if s.resQ.length > 0 then some { s with cpc := .getNowait } else some { s with cpc := .lockRel }
  | .getNowait =>
    match s.resQ with
    | [] => some { s with cpc := .lockRel }               -- `queue.Empty`
    | none :: r => some { s with resQ := r, woken := true, cpc := .qsize2 }
    | some i :: r => some { s with resQ := r, batch := s.batch ++ [i], cpc := .qsize2 }
  | .lockRel =>
    let s := { s with lock := none }
    if s.batch.length > 0 ∨ s.woken then some (afterResults s) else some { s with cpc := .getBlock }
  | .getBlock =>
    match s.resQ with
    | [] => none
    | none :: r => some (afterResults { s with resQ := r, batch := [] })
    | some i :: r => some (afterResults { s with resQ := r, batch := [i] })
  | .flowClear => some { s with fRun := false, cpc := .rdSending }
  | .flowIsSet => if s.fRun then some { s with cpc := .rdSending } else some { s with cpc := .flowSet }
  | .flowSet => some { s with fRun := true, cpc := .rdSending }
  | .fStopSet => some { s with fStop := true, cpc := .fJoin }
  | .fJoin =>
    if s.fAlive then none
    else if s.cfg.factory then some { s with cpc := .rPutNone } else some (toNextCall { s with cpc := .nextCall })
  | .rPutNone => some { s with replQ := s.replQ ++ [none], cpc := .rStopSet }
  | .rStopSet => some { s with rStop := true, cpc := .rJoin }
  | .rJoin => if s.rAlive then none else some (toNextCall { s with cpc := .nextCall })
  | .exitPut i =>
    -- `put(None, timeout=…)` in a loop: a put that times out on a full queue is retried (no change of state: not a step)
    -- unless every listed worker has an exit code — then nobody needs the remaining stop orders, the loop is left and the
    -- join loop finds nothing to join
    if capFull s.cfg.workCap s.workQ then
      (if s.procs.all (workerExited s) then some { s with cpc := .done } else none)
    else
      let s := { s with workQ := s.workQ ++ [none] }
      if i + 1 < s.procs.length then some { s with cpc := .exitPut (i + 1) }
      else some { s with cpc := exitJoinFrom s (s.procs.length + 1) 0 }
  | .exitJoin i =>
    match s.procs[i]? with
    | none => none
    | some wid =>
      -- `p.join(timeout=self.join_timeout)`: with a finite timeout the loop goes on whether the worker has exited or not
      if workerExited s wid || s.cfg.joinTimeout then some { s with cpc := exitJoinFrom s (s.procs.length + 1) (i + 1) }
      else none
  | .midReady i wid =>
    -- `p.begin_finished.wait()` for the fetched `p`; then the iterator's `next()`: `procs[i + 1]` of the live list
    match getWorker s wid with
    | none => none
    | some w =>
      if w.bf then
        (match s.procs[i + 1]? with
         | some wid' => some { s with cpc := .midReady (i + 1) wid' }
         | none => some (afterBatch s))
      else none
  | .done => none

def stepF (s : St) : Option St :=
  if !s.fAlive then none else
  match s.fpc with
  | .idle => none
  | .put =>
    if capFull s.cfg.workCap s.workQ then none
    else some { s with workQ := s.workQ ++ [some s.fNext], fpc := .rdCnt }
  | .rdCnt => some { s with fRead := s.dataCnt, fpc := .wrCnt }
  | .wrCnt => some { s with dataCnt := s.fRead + 1, fpc := .stopIsSet }
  | .stopIsSet => if s.fStop then some { s with fpc := .wrSending } else some { s with fpc := .runWait }
  | .runWait =>
    if s.fRun then
      -- pull the next chunk (thread-local)
      (if s.fNext + 1 < s.fTotal then some { s with fNext := s.fNext + 1, fpc := .put }
       else some { s with fNext := s.fNext + 1, fpc := .wrSending })
    else none
  | .wrSending => some { s with sending := false, fpc := .token }
  | .token =>
    let s := if capFull s.cfg.resCap s.resQ then s else { s with resQ := s.resQ ++ [none] }
    some { s with fpc := .idle, fAlive := false }

def stepR (s : St) : Option St :=
  if !s.rAlive then none else
  match s.rpc with
  | .idle => none
  | .get =>
    match s.replQ with
    | [] => none
    | none :: r => some { s with replQ := r, rpc := .idle, rAlive := false }
    | some wid :: r => some { s with replQ := r, rpc := .join wid }
  | .join wid =>
    -- `p.join(timeout=self.pool.join_timeout)`: blocks until the worker has exited (`join_timeout=None`), or returns after
    -- the timeout whatever the worker does (`Cfg.joinTimeout`); the successor is created and started in both cases
    if workerExited s wid || s.cfg.joinTimeout then
      -- create the successor, `_init_process`, `procs[idx] = p` (thread-local)
      let nw := s.widCounter
      some { s with workers := s.workers ++ [mkWorker s.cfg nw], widCounter := nw + 1,
                    procs := s.procs.map (fun x => if x = wid then nw else x), rpc := .start nw }
    else none
  | .start nw =>
    match getWorker s nw with
    | none => none
    | some w => some { (setWorker s { w with pc := .bfClear }) with rpc := .get }

def stepW (s : St) (wid : Nat) : Option St :=
  match getWorker s wid with
  | none => none
  | some w =>
    match w.pc with
    | .notStarted => none
    | .exited => none
    | .bfClear =>
      let w := { w with bf := false }
      -- `begin()` is entered (logged) and either returns or raises; `finally: end()`
      let w := { w with log := w.log ++ [.begin] }
      if s.cfg.beginFault.contains wid then some (setWorker s (workerEnding w true))
      else some (setWorker s { w with pc := .bfSet })
    | .bfSet => some (setWorker s (workerLoopTop s.cfg.factory { w with bf := true }))
    | .get =>
      match s.workQ with
      | [] => none
      | none :: r => some (setWorker { s with workQ := r } (workerEnding w false))
      | some i :: r =>
        let s := { s with workQ := r }
        -- the functor is entered for the chunk (logged) and either returns or raises; `finally: end()`
        let w := { w with log := w.log ++ [.item i] }
        if s.cfg.itemFault.contains (wid, w.done) then some (setWorker s (workerEnding w true))
        else some (setWorker s { w with held := some i, pc := .lockAcq })
    | .lockAcq => if s.lock.isNone then some (setWorker { s with lock := some (.w wid) } { w with pc := .putNowait }) else none
    | .putNowait =>
      match w.held with
      | none => none
      | some i =>
        if capFull s.cfg.resCap s.resQ then some (setWorker s { w with full := true, pc := .lockRel })
        else some (setWorker { s with resQ := s.resQ ++ [some i] } { w with full := false, held := none, pc := .lockRel })
    | .lockRel =>
      let s := { s with lock := none }
      if w.full then some (setWorker s { w with pc := .putBlock })
      else
        let w := { w with done := w.done + 1, quota := w.quota.map (· - 1) }
        some (setWorker s (workerLoopTop s.cfg.factory w))
    | .putBlock =>
      match w.held with
      | none => none
      | some i =>
        if capFull s.cfg.resCap s.resQ then none
        else
          let w := { w with full := false, held := none, done := w.done + 1, quota := w.quota.map (· - 1) }
          some (setWorker { s with resQ := s.resQ ++ [some i] } (workerLoopTop s.cfg.factory w))
    | .retire =>
      -- `replace_queue.put(self.wid)`; the `finally: self.end()` and the exit of the process are a step of their own
      some (setWorker { s with replQ := s.replQ ++ [some wid] } (workerEnding w false))
    | .ending =>
      -- the `finally: self.end()` of `run` (after the stop order was taken / the wid was posted / the quota of a plain pool
      -- was used up / `begin()` or the functor raised), then the process exits
      some (setWorker s (workerExit w w.crashed))

def step (s : St) : Tid → Option St
  | .c => stepC s
  | .f => stepF s
  | .r => stepR s
  | .w wid => stepW s wid

/-- run a schedule (list of thread ids); `none` if some entry was not enabled -/
def run (s : St) : List Tid → Option St
  | [] => some s
  | t :: ts => match step s t with
    | none => none
    | some s' => run s' ts

def allTids (s : St) : List Tid := [.c, .f, .r] ++ s.workers.map (fun w => Tid.w w.wid)

def enabledTids (s : St) : List Tid := (allTids s).filter (fun t => (step s t).isSome)

/-- everything the caller's program had to do is done and every thread has left -/
def Final (s : St) : Prop := s.cpc = .done

end WindVerif.Pool
