/-!
A small SEQUENTIAL model of `TextFileStorage` (`windpyutils/parallel/storage.py`, property C14): one process, one operation
at a time (the interleaving model is `Model/Storage.lean`).  It is the specification the real-process scenarios with a store
whose write raises are judged by.

Texts are natural numbers.  The state is the shared part of the object as `__setitem__` sees it under the lock:
`_index` (entry `g` = the text the `(process, offset)` pair points at, `none` = `None`), `_stored_cnt`, `_waiting_for`.

`store g t ok`: `ok = false` is a store whose `print(data, file=self._file, flush=True)` raises (e.g. a text the encoding of
the file cannot hold): everything before the write has happened (the index was extended with `None`s), nothing after it.
-/
namespace WindVerif.StorageSeq

inductive Res
  | ok | raised | valueError | indexError
  | text (t : Nat) | num (n : Nat) | bool (b : Bool) | texts (l : List Nat)
  deriving DecidableEq, Repr

structure St where
  index   : List (Option Nat)
  stored  : Nat
  waiting : Nat
  deriving DecidableEq, Repr

/-- `TextFileStorage(path)` -/
def St.empty : St := ⟨[], 0, 0⟩

/-- `TextFileStorage(path, number_of_data=n)`: `self._index.extend([None] * number_of_data)` -/
def St.init (numberOfData : Nat) : St := ⟨List.replicate numberOfData none, 0, 0⟩

/-- the finite map id → text -/
def St.get (s : St) (g : Nat) : Option Nat := s.index.getD g none

/-- `if len(self._index) <= g: self._index.extend([None] * (g - len(self._index) + 1))` -/
def extend (idx : List (Option Nat)) (g : Nat) : List (Option Nat) :=
  if idx.length ≤ g then idx ++ List.replicate (g - idx.length + 1) none else idx

/-- `while self._waiting_for.value < len(self) and self._index[self._waiting_for.value] is not None: … += 1`
(fuel `stored - w` suffices: `advance_fuel`) -/
def advance (idx : List (Option Nat)) (stored : Nat) : Nat → Nat → Nat
  | 0, w => w
  | fuel + 1, w => if w < stored ∧ (idx.getD w none).isSome then advance idx stored fuel (w + 1) else w

/-- `__setitem__` -/
def store (s : St) (g t : Nat) (ok : Bool) : St × Res :=
  let idx1 := extend s.index g
  if (idx1.getD g none).isSome then ({ s with index := idx1 }, .valueError)
  else if ok = false then ({ s with index := idx1 }, .raised)          -- the write raises
  else
    let idx2 := idx1.set g (some t)
    let stored := s.stored + 1
    let waiting :=
      if g = s.waiting then advance idx2 stored (stored - (s.waiting + 1)) (s.waiting + 1) else s.waiting
    (⟨idx2, stored, waiting⟩, .ok)

/-- `__getitem__` -/
def read (s : St) (g : Nat) : Res :=
  if s.index.length ≤ g then .indexError
  else match s.index.getD g none with
    | none => .indexError
    | some t => .text t

/-- `__len__` -/
def len (s : St) : Nat := s.stored

/-- `is_contiguous` -/
def contiguous (s : St) : Bool := s.waiting == s.stored

/-- the text a read returned, `none` when it raised -/
def Res.text? : Res → Option Nat
  | .text t => some t
  | _ => none

/-- `__iter__`: `for i in range(len(self._index)): try: yield self[i] except IndexError: pass` -/
def iter (s : St) : List Nat :=
  (List.range s.index.length).filterMap (fun i => (read s i).text?)

/-- `flush` -/
def flush (_ : St) : St := ⟨[], 0, 0⟩

inductive Op
  | store (g t : Nat) (ok : Bool) | read (g : Nat) | len | contiguous | iter | flush
  deriving DecidableEq, Repr

def step (s : St) : Op → St × Res
  | .store g t ok => store s g t ok
  | .read g => (s, read s g)
  | .len => (s, .num (len s))
  | .contiguous => (s, .bool (contiguous s))
  | .iter => (s, .texts (iter s))
  | .flush => (flush s, .ok)

def run (s : St) : List Op → St
  | [] => s
  | op :: ops => run (step s op).1 ops

/-- the results of the operations of a script, in order -/
def results (s : St) : List Op → List Res
  | [] => []
  | op :: ops => (step s op).2 :: results (step s op).1 ops

end WindVerif.StorageSeq
