import WindVerif.Model.Dll
/-
Models of `windpyutils/structures/caches.py`: `LRUCache` and `LFUCache` (after the repairs D3–D5), on top of the
linked-list model.  A cache is the code's pair of a dict `key → node` and a `DoublyLinkedList` whose node payloads are
`(key, value)` resp. `Item(key, value, meta)`.  Keys and values are natural numbers here (the code only hashes and
compares keys for equality).  The `MutableMapping` mixin methods are written out from their `collections.abc`
definitions, because that is where the property's views (`values`, `items`, `==`, `popitem`, …) get their behaviour.
-/
namespace WindVerif.Cache
open WindVerif.Dll

inductive Err | keyError | runtimeError | attributeError
  deriving DecidableEq, Repr

abbrev Key := Nat
abbrev Val := Nat

/-- Python dict restricted to what the caches use; insertion ordered association list without repeated keys -/
abbrev PyDict := List (Key × Node)

def dictGet (c : PyDict) (k : Key) : Option Node := c.lookup k
def dictDel (c : PyDict) (k : Key) : PyDict := c.filter (fun p => p.1 ≠ k)
def dictSet (c : PyDict) (k : Key) (n : Node) : PyDict :=
  if (c.lookup k).isSome then c.map (fun p => if p.1 = k then (k, n) else p) else c ++ [(k, n)]

@[inline] def updD {β} (f : Node → β) (k : Node) (v : β) : Node → β := fun x => if x = k then v else f x

/-! ## LRU -/

structure Lru where
  cap   : Nat
  cache : PyDict
  dll   : Dll
  data  : Node → Key × Val

def Lru.new (cap : Nat) : Lru := { cap := cap, cache := [], dll := Dll.empty, data := fun _ => (0, 0) }

namespace Lru

/-- `__getitem__`: `node = self.cache[k]; self.list.move_to_front(node); return node.data[1]` -/
def get (s : Lru) (k : Key) : Except Err (Lru × Val) :=
  match dictGet s.cache k with
  | none => .error .keyError
  | some n =>
    match moveToFront s.dll n with
    | .error _ => .error .runtimeError
    | .ok d => .ok ({ s with dll := d }, (s.data n).2)

/-- `__setitem__` -/
def set (s : Lru) (k : Key) (v : Val) : Except Err Lru :=
  match dictGet s.cache k with
  | some n =>
    let s := { s with data := updD s.data n (k, v) }
    match moveToFront s.dll n with
    | .error _ => .error .runtimeError
    | .ok d => .ok { s with dll := d }
  | none =>
    if s.cache.length ≥ s.cap then
      -- reuse the last node
      match s.dll.tail with
      | none => .error .attributeError
      | some n =>
        let old := (s.data n).1
        match dictGet s.cache old with
        | none => .error .keyError
        | some _ =>
          let s := { s with cache := dictDel s.cache old, data := updD s.data n (k, v) }
          match moveToFront s.dll n with
          | .error _ => .error .runtimeError
          | .ok d => .ok { s with dll := d, cache := dictSet s.cache k n }
    else
      let (d, n) := prepend s.dll
      .ok { s with dll := d, data := updD s.data n (k, v), cache := dictSet s.cache k n }

/-- `__delitem__` -/
def del (s : Lru) (k : Key) : Except Err Lru :=
  match dictGet s.cache k with
  | none => .error .keyError
  | some n => .ok { s with cache := dictDel s.cache k, dll := remove s.dll n }

/-- `__iter__`: a snapshot of the keys from the most to the least recently used -/
def keys (s : Lru) : List Key := (walkF s.dll s.dll.size.toNat s.dll.head).map (fun n => (s.data n).1)

def len (s : Lru) : Nat := s.cache.length

end Lru

/-! ## LFU -/

structure Lfu where
  cap   : Nat
  cache : PyDict
  dll   : Dll
  data  : Node → Key × Val × Nat     -- Item(key, value, meta)

def Lfu.new (cap : Nat) : Lfu := { cap := cap, cache := [], dll := Dll.empty, data := fun _ => (0, 0, 0) }

namespace Lfu

/-- the `while swap_with.next_node is not None and swap_with.next_node.data.meta < node.data.meta` walk -/
def swapWalk (s : Lfu) (cnt : Nat) : Nat → Node → Node
  | 0, cur => cur
  | fuel + 1, cur =>
    match s.dll.next cur with
    | none => cur
    | some nx => if (s.data nx).2.2 < cnt then swapWalk s cnt fuel nx else cur

/-- `_inc_freq(node)` -/
def incFreq (s : Lfu) (n : Node) : Lfu :=
  let (k, v, m) := s.data n
  let s := { s with data := updD s.data n (k, v, m + 1) }
  let sw := swapWalk s (m + 1) s.dll.size.toNat n
  if sw = n then s else { s with dll := moveAfter s.dll n sw }

def get (s : Lfu) (k : Key) : Except Err (Lfu × Val) :=
  match dictGet s.cache k with
  | none => .error .keyError
  | some n => let s' := incFreq s n; .ok (s', (s'.data n).2.1)

def set (s : Lfu) (k : Key) (v : Val) : Except Err Lfu :=
  match dictGet s.cache k with
  | some n =>
    let (k', _, m) := s.data n
    let s := { s with data := updD s.data n (k', v, m) }
    .ok (incFreq s n)
  | none =>
    if s.cache.length ≥ s.cap then
      -- reuse the first node
      match s.dll.head with
      | none => .error .attributeError
      | some n =>
        let old := (s.data n).1
        match dictGet s.cache old with
        | none => .error .keyError
        | some _ =>
          .ok { s with cache := dictSet (dictDel s.cache old) k n, data := updD s.data n (k, v, 1) }
    else
      let (d, n) := prepend s.dll
      .ok { s with dll := d, data := updD s.data n (k, v, 1), cache := dictSet s.cache k n }

def del (s : Lfu) (k : Key) : Except Err Lfu :=
  match dictGet s.cache k with
  | none => .error .keyError
  | some n => .ok { s with cache := dictDel s.cache k, dll := remove s.dll n }

def nodes (s : Lfu) : List Node := walkF s.dll s.dll.size.toNat s.dll.head
def keys (s : Lfu) : List Key := (nodes s).map (fun n => (s.data n).1)
def len (s : Lfu) : Nat := s.cache.length

end Lfu

/-! ## `MutableMapping` mixins, generic over the three primitive operations -/

structure Prim (σ : Type) where
  get  : σ → Key → Except Err (σ × Val)
  set  : σ → Key → Val → Except Err σ
  del  : σ → Key → Except Err σ
  keys : σ → List Key
  len  : σ → Nat

def lruPrim : Prim Lru := ⟨Lru.get, Lru.set, Lru.del, Lru.keys, Lru.len⟩
def lfuPrim : Prim Lfu := ⟨Lfu.get, Lfu.set, Lfu.del, Lfu.keys, Lfu.len⟩

variable {σ : Type} (P : Prim σ)

/-- `Mapping.__contains__`: `try: self[key] except KeyError: return False else: return True` -/
def contains (s : σ) (k : Key) : Except Err (σ × Bool) :=
  match P.get s k with
  | .ok (s', _) => .ok (s', true)
  | .error .keyError => .ok (s, false)
  | .error e => .error e

/-- `Mapping.get(key, default)` -/
def getD (s : σ) (k : Key) : Except Err (σ × Option Val) :=
  match P.get s k with
  | .ok (s', v) => .ok (s', some v)
  | .error .keyError => .ok (s, none)
  | .error e => .error e

/-- `ValuesView.__iter__` / `ItemsView.__iter__`: `for key in self._mapping: yield (key, self._mapping[key])`
over the snapshot of keys that `__iter__` returns. -/
def itemsFrom (s : σ) : List Key → Except Err (σ × List (Key × Val))
  | [] => .ok (s, [])
  | k :: ks =>
    match P.get s k with
    | .error e => .error e
    | .ok (s', v) =>
      match itemsFrom s' ks with
      | .error e => .error e
      | .ok (s'', r) => .ok (s'', (k, v) :: r)

def items (s : σ) : Except Err (σ × List (Key × Val)) := itemsFrom P s (P.keys s)

/-- `MutableMapping.pop(key)` (no default): `value = self[key]; del self[key]; return value` -/
def pop (s : σ) (k : Key) : Except Err (σ × Val) :=
  match P.get s k with
  | .error e => .error e
  | .ok (s', v) =>
    match P.del s' k with
    | .error e => .error e
    | .ok s'' => .ok (s'', v)

/-- `MutableMapping.popitem()`: `key = next(iter(self))` (KeyError when empty); `value = self[key]; del self[key]` -/
def popitem (s : σ) : Except Err (σ × Key × Val) :=
  match P.keys s with
  | [] => .error .keyError
  | k :: _ =>
    match pop P s k with
    | .error e => .error e
    | .ok (s', v) => .ok (s', k, v)

/-- `MutableMapping.clear()`: `while True: self.popitem()` until `KeyError`; fuel = number of entries + 1 -/
def clearLoop (s : σ) : Nat → Except Err σ
  | 0 => .ok s
  | fuel + 1 =>
    match P.keys s with
    | [] => .ok s
    | _ :: _ =>
      match popitem P s with
      | .error e => .error e
      | .ok (s', _) => clearLoop s' fuel

def clear (s : σ) : Except Err σ := clearLoop P s (P.len s + 1)

/-- `MutableMapping.update(pairs)`: `for key, value in other: self[key] = value` -/
def update (s : σ) : List (Key × Val) → Except Err σ
  | [] => .ok s
  | (k, v) :: r =>
    match P.set s k v with
    | .error e => .error e
    | .ok s' => update s' r

/-- `MutableMapping.setdefault(key, default)` -/
def setdefault (s : σ) (k : Key) (v : Val) : Except Err (σ × Val) :=
  match P.get s k with
  | .ok (s', w) => .ok (s', w)
  | .error .keyError =>
    match P.set s k v with
    | .error e => .error e
    | .ok s' => .ok (s', v)
  | .error e => .error e

/-- `Mapping.__eq__` against a plain dict: `dict(self.items()) == dict(other.items())` -/
def eqDict (s : σ) (other : List (Key × Val)) : Except Err (σ × Bool) :=
  match items P s with
  | .error e => .error e
  | .ok (s', its) =>
    -- both sides have pairwise distinct keys; dict equality = same size and every pair found
    .ok (s', its.length == other.length && its.all (fun p => other.lookup p.1 == some p.2))

end WindVerif.Cache
