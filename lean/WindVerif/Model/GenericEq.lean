import WindVerif.Model.Generic
/-
`sub_seq` / `search_sub_seq` of `windpyutils/generic.py` over *arbitrary* elements (C19).

The code compares a window of `s2` with `s1` by `s1 == s2[offset:offset + len(s1)]`: `==` of two lists (or two tuples).
CPython compares sequences of the same type element-wise with `PyObject_RichCompareBool(x, y, Py_EQ)`, which is
"`x is y` or `x == y`": identity first, the elements' own `__eq__` second.  The elements' `__eq__` is an arbitrary relation:
it need not be reflexive (a NaN is not equal to itself — yet a list holding the *same* NaN object equals itself), nor
symmetric, nor transitive.

Elements are object identities (`Nat`); `eqv a b` is the outcome of `a == b` for the objects `a`, `b` (left operand first).
Both sequences are assumed to be of the same sequence type (a `list` never equals a `tuple`, whatever they hold).
-/
namespace WindVerif.Generic

/-- `PyObject_RichCompareBool(a, b, Py_EQ)`: identical, or equal -/
def pyEq (eqv : Nat → Nat → Bool) (a b : Nat) : Bool := a == b || eqv a b

/-- `a == b` for two lists (two tuples): the lengths are compared first, then the items pairwise, left operand first -/
def listEq (eqv : Nat → Nat → Bool) (a b : List Nat) : Bool :=
  a.length == b.length && (a.zip b).all (fun p => pyEq eqv p.1 p.2)

/-- the slice `s2[offset : offset + len]` -/
def windowN (s2 : List Nat) (offset len : Nat) : List Nat := (s2.drop offset).take len

/-- `len(s1) <= len(s2) and any(s1 == s2[offset:offset + len(s1)] for offset in range(0, len(s2) - len(s1) + 1))` -/
def subSeqE (eqv : Nat → Nat → Bool) (s1 s2 : List Nat) : Bool :=
  decide (s1.length ≤ s2.length) &&
    (List.range (s2.length - s1.length + 1)).any (fun offset => listEq eqv s1 (windowN s2 offset s1.length))

/-- one turn of the loop of `search_sub_seq`:
`end_offset = offset + len(s1); if s1 == s2[offset:end_offset]: res.append((offset, end_offset))` -/
def searchStepE (eqv : Nat → Nat → Bool) (s1 s2 : List Nat) (res : List (Nat × Nat)) (offset : Nat) : List (Nat × Nat) :=
  let endOffset := offset + s1.length
  if listEq eqv s1 (windowN s2 offset (endOffset - offset)) then res ++ [(offset, endOffset)] else res

/-- `search_sub_seq`: `ValueError` when one of the sequences is empty; the loop over the offsets when `len(s1) <= len(s2)`;
`[]` otherwise -/
def searchSubSeqE (eqv : Nat → Nat → Bool) (s1 s2 : List Nat) : Except Err (List (Nat × Nat)) :=
  if s1.length = 0 ∨ s2.length = 0 then .error .valueError
  else if s1.length ≤ s2.length then
    .ok ((List.range (s2.length - s1.length + 1)).foldl (searchStepE eqv s1 s2) [])
  else .ok []

/-- a (wrong) "optimised" variant used as a counterexample: the first elements are compared with plain `==` before the
window is compared.  `s1[0] == s2[offset]` has no identity shortcut, the list comparison has one. -/
def subSeqPre (eqv : Nat → Nat → Bool) (s1 s2 : List Nat) : Bool :=
  decide (s1.length ≤ s2.length) &&
    (List.range (s2.length - s1.length + 1)).any (fun offset =>
      (match s1.head?, s2[offset]? with
        | some a, some b => eqv a b
        | _, _ => true) && listEq eqv s1 (windowN s2 offset s1.length))

/-- the equality of the driver ops `subseqE` / `searchE`: the objects `< n` are not equal to anything, themselves included
(NaNs); the other objects are equal iff they are the same number -/
def nanEq (n : Nat) (a b : Nat) : Bool := decide (n ≤ a) && a == b

end WindVerif.Generic
