import WindVerif.Core.PyList
/-
Model of the line files of `windpyutils/files.py` (after the repairs D9–D12):
`RandomLineAccessFile` / `MemoryMappedRandomLineAccessFile` (C11) and their mutable subclasses (C12).

A file is a list of characters; byte offsets are computed with `Char.utf8Size`, so that the difference between byte and
character offsets is visible with non-ASCII content.  The text handle is opened with `newline="\n"` (no translation): a
line is everything up to and including the next `'\n'`.  The memory-mapped variant differs only in library calls
(`mmap.readline` + `bytes.decode`), which behave identically at this level; both are compared with this one model.
-/
namespace WindVerif.LineFile

inductive Err | indexError | runtimeError | valueError | typeError
  deriving DecidableEq, Repr

abbrev Str := List Char

def byteLen (s : Str) : Nat := (s.map Char.utf8Size).sum

/-- the characters from byte offset `n` on; `none` when `n` is inside a multi-byte character (the real handle would
decode garbage); beyond the end there is nothing to read -/
def dropBytes : Str → Nat → Option Str
  | s, 0 => some s
  | [], _ + 1 => some []
  | c :: r, n + 1 => if c.utf8Size ≤ n + 1 then dropBytes r (n + 1 - c.utf8Size) else none

/-- `readline()`: up to and including the first `'\n'` -/
def takeLine : Str → Str
  | [] => []
  | c :: r => if c = '\n' then [c] else c :: takeLine r

/-- `str.rstrip("\n")` -/
def rstripNL (s : Str) : Str := (s.reverse.dropWhile (· = '\n')).reverse

/-- `_index_file`: `_lines = [0]; while f.readline(): _lines.append(f.tell()); del _lines[-1]` on the bytes -/
def indexGo : Nat → Str → List Nat
  | _, [] => []
  | off, c :: r =>
    let l := takeLine (c :: r)
    off :: indexGo (off + byteLen l) ((c :: r).drop l.length)
termination_by _ s => s.length
decreasing_by
  simp only [List.length_drop, List.length_cons]
  have : 0 < (takeLine (c :: r)).length := by
    unfold takeLine; split <;> simp
  omega

def indexFile (content : Str) : List Nat := indexGo 0 content

/-- an entry of `_lines`: a byte offset into the file, or (mutable variants) a string held in memory -/
inductive Entry
  | off (o : Nat)
  | str (s : Str)
  deriving DecidableEq, Repr

structure LF where
  content : Str
  lines   : List Entry
  cursor  : Nat          -- position of the shared handle (byte offset)
  dirty   : Bool
  closed  : Bool

/-- construct (not yet opened): built index, or caller-supplied offsets (list or index file) -/
def LF.new (content : Str) (custom : Option (List Nat)) : LF :=
  { content := content, lines := ((custom.getD (indexFile content)).map Entry.off), cursor := 0, dirty := false,
    closed := true }

def LF.open (f : LF) : LF := if f.closed then { f with closed := false, cursor := 0 } else f
def LF.close (f : LF) : LF := { f with closed := true }

/-- `seek(offset)` then `readline().rstrip("\n")`: the handle moves behind the line -/
def LF.readAt (f : LF) (o : Nat) : Except Err (LF × Str) :=
  match dropBytes f.content o with
  | none => .error .valueError
  | some rest =>
    let l := takeLine rest
    .ok ({ f with cursor := o + byteLen l }, rstripNL l)

/-- `_get_item(n)` for a valid position: in-memory strings are returned as they are, offsets are read through -/
def LF.getPos (f : LF) (p : Nat) : Except Err (LF × Str) :=
  match f.lines[p]? with
  | none => .error .indexError
  | some (.str s) => .ok (f, s)
  | some (.off o) => f.readAt o

/-- `f[i]` for an `int` -/
def LF.getInt (f : LF) (i : Int) : Except Err (LF × Str) :=
  if f.closed then .error .runtimeError else
  match Py.index f.lines.length i with
  | none => .error .indexError
  | some p => f.getPos p

/-- `[self._get_item(i) for i in iter_over]` -/
def LF.getMany (f : LF) : List Int → Except Err (LF × List Str)
  | [] => .ok (f, [])
  | i :: r =>
    match Py.index f.lines.length i with
    | none => .error .indexError
    | some p =>
      match f.getPos p with
      | .error e => .error e
      | .ok (f', s) =>
        match LF.getMany f' r with
        | .error e => .error e
        | .ok (f'', ss) => .ok (f'', s :: ss)

/-- `f[a:b:c]` -/
def LF.getSlice (f : LF) (s : Py.Slice) : Except Err (LF × List Str) :=
  if f.closed then .error .runtimeError else
  match Py.sliceIndices f.lines.length s with
  | none => .error .valueError
  | some idx => f.getMany (idx.map (fun (n : Nat) => (n : Int)))

/-- `f[iterable of ints]` -/
def LF.getIter (f : LF) (sel : List Int) : Except Err (LF × List Str) :=
  if f.closed then .error .runtimeError else f.getMany sel

/-- a live iteration: `for n in range(len(self)): yield self._get_item(n)` with the length taken at its first step -/
structure Iter where
  started : Bool
  pos     : Nat
  total   : Nat

def Iter.new : Iter := ⟨false, 0, 0⟩

/-- `next(it)`: `none` in the result = `StopIteration` -/
def LF.iterNext (f : LF) (it : Iter) : Except Err (LF × Iter × Option Str) :=
  let start : Except Err Iter :=
    if it.started then .ok it
    else if f.closed then .error .runtimeError else .ok ⟨true, 0, f.lines.length⟩
  match start with
  | .error e => .error e
  | .ok it =>
    if it.pos < it.total then
      match f.getPos it.pos with
      | .error e => .error e
      | .ok (f', s) => .ok (f', { it with pos := it.pos + 1 }, some s)
    else .ok (f, it, none)

/-! ## the mutable variants (C12) -/

def LF.setItem (f : LF) (i : Int) (s : Str) : Except Err LF :=
  match Py.index f.lines.length i with
  | none => .error .indexError
  | some p => .ok { f with lines := f.lines.set p (.str s), dirty := true }

def LF.delItem (f : LF) (i : Int) : Except Err LF :=
  match Py.index f.lines.length i with
  | none => .error .indexError
  | some p => .ok { f with lines := f.lines.eraseIdx p, dirty := true }

def LF.insert (f : LF) (i : Int) (s : Str) : LF :=
  { f with lines := Py.insertAt f.lines (Py.insertPos f.lines.length i) (.str s), dirty := true }

/-- `MutableSequence.append`: `self.insert(len(self), value)` -/
def LF.append (f : LF) (s : Str) : LF := f.insert f.lines.length s

/-- `MutableSequence.extend` -/
def LF.extend (f : LF) : List Str → LF
  | [] => f
  | s :: r => LF.extend (f.append s) r

/-- `MutableSequence.pop(i)`: `v = self[i]; del self[i]; return v` -/
def LF.pop (f : LF) (i : Int) : Except Err (LF × Str) :=
  match f.getInt i with
  | .error e => .error e
  | .ok (f', v) =>
    match f'.delItem i with
    | .error e => .error e
    | .ok f'' => .ok (f'', v)

/-- `Sequence.index(value)`: first position whose item equals the value (`self[i]` until `IndexError`) -/
def LF.indexOf (f : LF) (v : Str) : Nat → Nat → Except Err (LF × Nat)
  | 0, _ => .error .valueError
  | fuel + 1, p =>
    if p ≥ f.lines.length then .error .valueError else
    match f.getInt p with
    | .error e => .error e
    | .ok (f', s) => if s = v then .ok (f', p) else LF.indexOf f' v fuel (p + 1)

/-- `MutableSequence.remove(value)`: `del self[self.index(value)]` -/
def LF.remove (f : LF) (v : Str) : Except Err LF :=
  if f.closed then .error .runtimeError else
  match f.indexOf v (f.lines.length + 1) 0 with
  | .error e => .error e
  | .ok (f', p) => f'.delItem p

/-- `MutableSequence.reverse`: `for i in range(n//2): self[i], self[n-i-1] = self[n-i-1], self[i]` -/
def LF.reverseGo (f : LF) (n : Nat) : Nat → Nat → Except Err LF
  | 0, _ => .ok f
  | fuel + 1, i =>
    if i ≥ n / 2 then .ok f else
    match f.getInt ((n - i - 1 : Nat) : Int) with
    | .error e => .error e
    | .ok (f1, a) =>
      match f1.getInt (i : Int) with
      | .error e => .error e
      | .ok (f2, b) =>
        match f2.setItem (i : Int) a with
        | .error e => .error e
        | .ok f3 =>
          match f3.setItem ((n - i - 1 : Nat) : Int) b with
          | .error e => .error e
          | .ok f4 => LF.reverseGo f4 n fuel (i + 1)

def LF.reverse (f : LF) : Except Err LF := f.reverseGo f.lines.length (f.lines.length + 1) 0

/-- the whole current view, as iteration yields it -/
def LF.viewGo (f : LF) : Nat → Nat → Except Err (LF × List Str)
  | 0, _ => .ok (f, [])
  | fuel + 1, p =>
    if p ≥ f.lines.length then .ok (f, []) else
    match f.getPos p with
    | .error e => .error e
    | .ok (f', s) =>
      match LF.viewGo f' fuel (p + 1) with
      | .error e => .error e
      | .ok (f'', ss) => .ok (f'', s :: ss)

def LF.view (f : LF) : Except Err (LF × List Str) :=
  if f.closed then .error .runtimeError else f.viewGo (f.lines.length + 1) 0

/-- `save(out, line_ending)`: `print(line.rstrip("\n"), file=f, end=line_ending)` for every line of the view; returns the
characters written to the target (the source file is never written) -/
def LF.save (f : LF) (lineEnding : Str) : Except Err (LF × Str) :=
  match f.view with
  | .error e => .error e
  | .ok (f', ls) => .ok (f', (ls.map (fun l => rstripNL l ++ lineEnding)).flatten)

end WindVerif.LineFile
