/-
Model of `windpyutils/files.py:FilePool` with files that cannot be opened (C20).

    def open(self):    self.file_handles = {f: open(f, self._mode) for f in self._files}; return self
    def close(self):   for f in self.file_handles.values(): f.close()
                       self.file_handles = None
    __enter__ = open,  __exit__ = close

The comprehension opens the files in order.  When the k-th `open` raises, the comprehension is abandoned: the assignment
does not happen, `file_handles` keeps its OLD value (`None` on a fresh pool) and the k handles opened so far are referenced
by nobody — the pool never closes them (existing behaviour: it is stated here, not repaired).  The same holds for a handle
that is overwritten in the dict because its path occurs twice in `_files`, and for the handles of a mapping that is
overwritten because the pool is opened again before it was closed.

Paths are numbers; a handle is the number of the `open` call that produced it (the k-th handle ever opened is `k`), so
every handle is a distinct object.  `missing` is the set of paths whose `open` raises (`FileNotFoundError`).
-/
namespace WindVerif.FilePoolFail

abbrev Path := Nat
abbrev Handle := Nat

inductive Err | fileNotFound | attributeError
  deriving DecidableEq, Repr

/-- an insertion-ordered `dict` from paths to handles -/
abbrev Dict := List (Path × Handle)

/-- `d[k] = v`: a present key keeps its position and gets the new value -/
def dictSet : Dict → Path → Handle → Dict
  | [], k, v => [(k, v)]
  | (k', v') :: r, k, v => if k' = k then (k', v) :: r else (k', v') :: dictSet r k v

/-- `d[k]` -/
def dictGet : Dict → Path → Option Handle
  | [], _ => none
  | (k', v') :: r, k => if k' = k then some v' else dictGet r k

/-- `d.values()` -/
def vals (d : Dict) : List Handle := d.map (·.2)

structure FP where
  files   : List Path          -- `_files`
  missing : List Path          -- the file system: paths whose `open` raises
  mapping : Option Dict        -- `file_handles` (`none` = `None`)
  openH   : List Handle        -- the handles that are open
  leaked  : List (Path × Handle)  -- handles the pool opened, does not reference any more and never closed
  next    : Handle             -- number of `open` calls that succeeded so far
  deriving DecidableEq, Repr

/-- `FilePool(files)` on a file system where the paths `missing` do not exist -/
def FP.new (files missing : List Path) : FP :=
  { files := files, missing := missing, mapping := none, openH := [], leaked := [], next := 0 }

/-- the dict comprehension in progress: the dict built so far and every handle opened so far, in order -/
structure Comp where
  dict   : Dict
  opened : List (Path × Handle)

/-- `{f: open(f, mode) for f in files}`, one file per step; the flag says whether the comprehension ran to its end
(`false`: an `open` raised, the comprehension was abandoned where it was) -/
def comp (missing : List Path) : List Path → Handle → Comp → Comp × Bool
  | [], _, c => (c, true)
  | f :: fs, h, c =>
    if missing.contains f then (c, false)
    else comp missing fs (h + 1) { dict := dictSet c.dict f h, opened := c.opened ++ [(f, h)] }

/-- `open()` / `__enter__()` -/
def fpEnter (s : FP) : FP × Except Err Unit :=
  match comp s.missing s.files s.next { dict := [], opened := [] } with
  | (c, true) =>
    -- the assignment happens; nobody references the handles of the old mapping (if there was one) and the handles that were
    -- overwritten inside the new dict
    let old := s.mapping.getD []
    let dropped := c.opened.filter (fun ph => !(vals c.dict).contains ph.2)
    ({ s with mapping := some c.dict, openH := s.openH ++ vals c.opened, leaked := s.leaked ++ old ++ dropped,
              next := s.next + c.opened.length }, .ok ())
  | (c, false) =>
    -- the assignment does not happen; the handles of this attempt stay open and nobody references them
    ({ s with openH := s.openH ++ vals c.opened, leaked := s.leaked ++ c.opened, next := s.next + c.opened.length },
      .error .fileNotFound)

/-- `f.close()`: closing a closed file is allowed and does nothing -/
def closeH (openH : List Handle) (h : Handle) : List Handle := openH.filter (· ≠ h)

/-- `close()` / `__exit__(…)` (the same on a normal exit and on an exception): on `file_handles = None` the call
`None.values()` raises `AttributeError` and nothing changes -/
def fpExit (s : FP) : FP × Except Err Unit :=
  match s.mapping with
  | none => (s, .error .attributeError)
  | some m => ({ s with mapping := none, openH := (vals m).foldl closeH s.openH }, .ok ())

/-- a path appears on the file system -/
def fpCreate (s : FP) (p : Path) : FP := { s with missing := s.missing.filter (· ≠ p) }

/-- a path disappears from the file system (open handles are not affected) -/
def fpUnlink (s : FP) (p : Path) : FP := { s with missing := p :: s.missing }

/-! ## histories -/

inductive Op | enter | exit | create (p : Path) | unlink (p : Path)
  deriving DecidableEq, Repr

def applyOp (s : FP) : Op → FP
  | .enter => (fpEnter s).1
  | .exit => (fpExit s).1
  | .create p => fpCreate s p
  | .unlink p => fpUnlink s p

def run (s : FP) (ops : List Op) : FP := ops.foldl applyOp s

/-- `n` rounds of `with pool: …` on the same pool object: the outcomes of every `__enter__` and `__exit__`, and the final
state -/
def rounds : Nat → FP → FP × List (Except Err Unit)
  | 0, s => (s, [])
  | n + 1, s =>
    let (s1, r1) := fpEnter s
    let (s2, r2) := fpExit s1
    let (s3, rs) := rounds n s2
    (s3, r1 :: r2 :: rs)

end WindVerif.FilePoolFail
