/-
Executable model of CPython's `json.dumps(v, separators=(',', ':'))` (`ensure_ascii=True`, the default) and of
`json.loads(text)` (C13: the library part of `JsonRecord.save` / `JsonRecord.load`).

Modelled domain.  Values are `JVal`; a Python `float` is kept as the text `repr(float)` produces (its *lexeme*) because the
binary64 <-> shortest-decimal conversion is not modelled; strings are lists of Unicode scalar values (a Lean `Char`), so a
Python `str` that holds a lone surrogate has no counterpart and `decode` answers `none` for a text whose escapes denote
one.  Not modelled (answer `none`): `NaN`, `Infinity`, `-Infinity`, the recursion limit and the `int` digit limit of CPython.
-/
namespace WindVerif.Json

inductive JVal where
  | null
  | bool (b : Bool)
  | int (i : Int)
  | float (lexeme : List Char)
  | str (s : List Char)
  | arr (l : List JVal)
  | obj (l : List (List Char × JVal))
  deriving Repr

/-! ## characters -/

def isDigit (c : Char) : Bool := 48 ≤ c.toNat && c.toNat ≤ 57
/-- JSON whitespace: space, `\t`, `\n`, `\r` -/
def isWs (c : Char) : Bool := c = ' ' || c = '\t' || c = '\n' || c = '\r'

def skipWs : List Char → List Char
  | [] => []
  | c :: r => if isWs c then skipWs r else c :: r

/-! ## integers in decimal -/

def digitChar (d : Nat) : Char := Char.ofNat (48 + d)

/-- decimal digits, most significant first (`fuel > n` is always enough) -/
def showNatF : Nat → Nat → List Char
  | 0, _ => []
  | f + 1, n => if n < 10 then [digitChar n] else showNatF f (n / 10) ++ [digitChar (n % 10)]

def showNat (n : Nat) : List Char := showNatF (n + 1) n

def showInt : Int → List Char
  | .ofNat n => showNat n
  | .negSucc n => '-' :: showNat (n + 1)

def readNat (ds : List Char) : Nat := ds.foldl (fun a c => a * 10 + (c.toNat - 48)) 0

/-- value of `-?D+` -/
def readInt : List Char → Int
  | [] => 0
  | c :: ds => if c = '-' then -(Int.ofNat (readNat ds)) else Int.ofNat (readNat (c :: ds))

/-! ## the number token `-?(0|[1-9]D*)(\.D+)?([eE][+-]?D+)?`

A deterministic automaton for the part after the optional sign; `scan` takes the longest prefix the automaton can read.
(CPython backtracks when `.` / `e` is not followed by a digit and yields the shorter number; what is left then starts with
`.`, `e` or `E`, which no JSON context accepts, so the text is rejected either way — here already by the token.) -/

inductive NState | start | zero | int | dot | frac | e | esign | exp
  deriving DecidableEq, Repr

def NState.accepting : NState → Bool
  | .zero | .int | .frac | .exp => true
  | _ => false

/-- the token has a fraction or an exponent part -/
def NState.isFloat : NState → Bool
  | .frac | .exp => true
  | _ => false

def nstep (s : NState) (c : Char) : Option NState :=
  match s with
  | .start => if c = '0' then some .zero else if isDigit c then some .int else none
  | .zero => if c = '.' then some .dot else if c = 'e' ∨ c = 'E' then some .e else none
  | .int => if isDigit c then some .int else if c = '.' then some .dot else if c = 'e' ∨ c = 'E' then some .e else none
  | .dot => if isDigit c then some .frac else none
  | .frac => if isDigit c then some .frac else if c = 'e' ∨ c = 'E' then some .e else none
  | .e => if isDigit c then some .exp else if c = '+' ∨ c = '-' then some .esign else none
  | .esign => if isDigit c then some .exp else none
  | .exp => if isDigit c then some .exp else none

/-- (characters read, state reached, rest) -/
def scan : NState → List Char → List Char × NState × List Char
  | s, [] => ([], s, [])
  | s, c :: r =>
    match nstep s c with
    | none => ([], s, c :: r)
    | some s' => match scan s' r with
      | (tok, sf, rest) => (c :: tok, sf, rest)

/-- the number token at the start of the text: (lexeme, has fraction or exponent, rest) -/
def scanNumber (cs : List Char) : Option (List Char × Bool × List Char) :=
  match cs with
  | [] => none
  | c :: r =>
    if c = '-' then
      match scan .start r with
      | (tok, sf, rest) => if sf.accepting then some ('-' :: tok, sf.isFloat, rest) else none
    else
      match scan .start (c :: r) with
      | (tok, sf, rest) => if sf.accepting then some (tok, sf.isFloat, rest) else none

/-- the shape of `repr(float)` for a finite float: the whole text is one number token that has a fraction part or an
exponent part -/
def floatLexeme (l : List Char) : Bool :=
  match scanNumber l with
  | some (_, isF, []) => isF
  | _ => false

/-! ## strings -/

def hexDigit (d : Nat) : Char := Char.ofNat (if d < 10 then 48 + d else 87 + d)

/-- `\uXXXX`, lower-case hex -/
def u4 (n : Nat) : List Char :=
  ['\\', 'u', hexDigit (n / 4096 % 16), hexDigit (n / 256 % 16), hexDigit (n / 16 % 16), hexDigit (n % 16)]

/-- CPython's `ESCAPE_ASCII` replacement for one character -/
def encodeChar (c : Char) : List Char :=
  if c = '"' then ['\\', '"']
  else if c = '\\' then ['\\', '\\']
  else if c = '\n' then ['\\', 'n']
  else if c = '\r' then ['\\', 'r']
  else if c = '\t' then ['\\', 't']
  else if c = '\x08' then ['\\', 'b']
  else if c = '\x0c' then ['\\', 'f']
  else if 32 ≤ c.toNat ∧ c.toNat ≤ 126 then [c]
  else if c.toNat < 0x10000 then u4 c.toNat
  else u4 (0xD800 + (c.toNat - 0x10000) / 1024) ++ u4 (0xDC00 + (c.toNat - 0x10000) % 1024)

def encodeStrBody : List Char → List Char
  | [] => []
  | c :: r => encodeChar c ++ encodeStrBody r

def encodeStr (s : List Char) : List Char := '"' :: (encodeStrBody s ++ ['"'])

def hexVal (c : Char) : Option Nat :=
  if 48 ≤ c.toNat ∧ c.toNat ≤ 57 then some (c.toNat - 48)
  else if 97 ≤ c.toNat ∧ c.toNat ≤ 102 then some (c.toNat - 87)
  else if 65 ≤ c.toNat ∧ c.toNat ≤ 70 then some (c.toNat - 55)
  else none

def hex4 (a b c d : Char) : Option Nat :=
  match hexVal a, hexVal b, hexVal c, hexVal d with
  | some a, some b, some c, some d => some (((a * 16 + b) * 16 + c) * 16 + d)
  | _, _, _, _ => none

/-- the escape after a backslash: (character denoted, rest).  A high surrogate must be followed by a low surrogate escape
(they combine); any other surrogate escape denotes a lone surrogate — outside the modelled domain, `none`. -/
def readEscape : List Char → Option (Char × List Char)
  | [] => none
  | e :: r =>
    if e = '"' then some ('"', r)
    else if e = '\\' then some ('\\', r)
    else if e = '/' then some ('/', r)
    else if e = 'b' then some ('\x08', r)
    else if e = 'f' then some ('\x0c', r)
    else if e = 'n' then some ('\n', r)
    else if e = 'r' then some ('\r', r)
    else if e = 't' then some ('\t', r)
    else if e = 'u' then
      match r with
      | a :: b :: c :: d :: r1 =>
        match hex4 a b c d with
        | none => none
        | some n =>
          if 0xD800 ≤ n ∧ n < 0xDC00 then
            match r1 with
            | bs :: u :: a2 :: b2 :: c2 :: d2 :: r2 =>
              if bs = '\\' ∧ u = 'u' then
                match hex4 a2 b2 c2 d2 with
                | none => none
                | some m =>
                  if 0xDC00 ≤ m ∧ m < 0xE000 then some (Char.ofNat (0x10000 + (n - 0xD800) * 1024 + (m - 0xDC00)), r2)
                  else none
              else none
            | _ => none
          else if 0xDC00 ≤ n ∧ n < 0xE000 then none
          else some (Char.ofNat n, r1)
      | _ => none
    else none

def consFst (c : Char) : Option (List Char × List Char) → Option (List Char × List Char)
  | none => none
  | some (s, r) => some (c :: s, r)

/-- the text after the opening quote: (string, rest after the closing quote).  Raw control characters are rejected
(`strict=True`).  One unit of fuel per character of the result. -/
def parseStrBody : Nat → List Char → Option (List Char × List Char)
  | 0, _ => none
  | _ + 1, [] => none
  | f + 1, c :: r =>
    if c = '"' then some ([], r)
    else if c = '\\' then
      match readEscape r with
      | none => none
      | some (ch, r') => consFst ch (parseStrBody f r')
    else if c.toNat < 32 then none
    else consFst c (parseStrBody f r)

/-- a string token at the start of the text: (string, rest after the closing quote) -/
def decodeString : List Char → Option (List Char × List Char)
  | [] => none
  | q :: r => if q = '"' then parseStrBody r.length r else none

/-! ## encoder -/

mutual
def encode : JVal → List Char
  | .null => ['n', 'u', 'l', 'l']
  | .bool true => ['t', 'r', 'u', 'e']
  | .bool false => ['f', 'a', 'l', 's', 'e']
  | .int i => showInt i
  | .float l => l
  | .str s => encodeStr s
  | .arr [] => ['[', ']']
  | .arr (v :: l) => '[' :: (encode v ++ (encodeTail l ++ [']']))
  | .obj [] => ['{', '}']
  | .obj ((k, v) :: l) => '{' :: (encodeStr k ++ ':' :: (encode v ++ (encodeMTail l ++ ['}'])))
/-- the elements after the first, each preceded by `,` -/
def encodeTail : List JVal → List Char
  | [] => []
  | v :: l => ',' :: (encode v ++ encodeTail l)
/-- the members after the first, each preceded by `,` -/
def encodeMTail : List (List Char × JVal) → List Char
  | [] => []
  | (k, v) :: l => ',' :: (encodeStr k ++ ':' :: (encode v ++ encodeMTail l))
end

/-! ## decoder -/

def stripPrefix : List Char → List Char → Option (List Char)
  | [], cs => some cs
  | _ :: _, [] => none
  | p :: ps, c :: cs => if p = c then stripPrefix ps cs else none

def parseLit (cs : List Char) : Option (JVal × List Char) :=
  match stripPrefix ['n', 'u', 'l', 'l'] cs with
  | some r => some (.null, r)
  | none =>
    match stripPrefix ['t', 'r', 'u', 'e'] cs with
    | some r => some (.bool true, r)
    | none =>
      match stripPrefix ['f', 'a', 'l', 's', 'e'] cs with
      | some r => some (.bool false, r)
      | none => none

/-- elements of a non-empty array: the text starts at the first element; ends after `]`.  `pv` parses one value
(no leading whitespace); one unit of fuel per element. -/
def parseElems (pv : List Char → Option (JVal × List Char)) : Nat → List Char → Option (List JVal × List Char)
  | 0, _ => none
  | n + 1, cs =>
    match pv cs with
    | none => none
    | some (v, r) =>
      match skipWs r with
      | [] => none
      | c :: r' =>
        if c = ',' then
          match parseElems pv n (skipWs r') with
          | none => none
          | some (vs, r'') => some (v :: vs, r'')
        else if c = ']' then some ([v], r')
        else none

/-- members of a non-empty object: the text starts at the opening quote of the first key; ends after `}` -/
def parseMembers (pv : List Char → Option (JVal × List Char)) :
    Nat → List Char → Option (List (List Char × JVal) × List Char)
  | 0, _ => none
  | _ + 1, [] => none
  | n + 1, q :: r =>
    if q = '"' then
      match parseStrBody r.length r with
      | none => none
      | some (k, r1) =>
        match skipWs r1 with
        | [] => none
        | c :: r2 =>
          if c = ':' then
            match pv (skipWs r2) with
            | none => none
            | some (v, r3) =>
              match skipWs r3 with
              | [] => none
              | c' :: r4 =>
                if c' = ',' then
                  match parseMembers pv n (skipWs r4) with
                  | none => none
                  | some (ms, r5) => some ((k, v) :: ms, r5)
                else if c' = '}' then some ([(k, v)], r4)
                else none
          else none
    else none

/-- Python `dict` assignment `d[k] = v` on the list of items: an existing key keeps its position -/
def setKey (k : List Char) (v : JVal) : List (List Char × JVal) → List (List Char × JVal)
  | [] => [(k, v)]
  | (k', v') :: r => if k' = k then (k', v) :: r else (k', v') :: setKey k v r

/-- the `dict` built from the pairs in order of occurrence: the last value of a key wins, at the key's first position -/
def dictOf (l : List (List Char × JVal)) : List (List Char × JVal) :=
  l.foldl (fun acc kv => setKey kv.1 kv.2 acc) []

/-- after `[` -/
def parseArr (pv : List Char → Option (JVal × List Char)) (r : List Char) : Option (JVal × List Char) :=
  match skipWs r with
  | [] => none
  | c :: r1 =>
    if c = ']' then some (.arr [], r1)
    else
      match parseElems pv (c :: r1).length (c :: r1) with
      | none => none
      | some (vs, r2) => some (.arr vs, r2)

/-- after `{` -/
def parseObj (pv : List Char → Option (JVal × List Char)) (r : List Char) : Option (JVal × List Char) :=
  match skipWs r with
  | [] => none
  | c :: r1 =>
    if c = '}' then some (.obj [], r1)
    else
      match parseMembers pv (c :: r1).length (c :: r1) with
      | none => none
      | some (ms, r2) => some (.obj (dictOf ms), r2)

/-- one value at the start of the text (no leading whitespace): (value, rest).  One unit of fuel per nesting level. -/
def parseValue : Nat → List Char → Option (JVal × List Char)
  | 0, _ => none
  | f + 1, cs =>
    match scanNumber cs with
    | some (tok, isF, r) => some (if isF then .float tok else .int (readInt tok), r)
    | none =>
      match cs with
      | [] => none
      | c :: r =>
        if c = '"' then
          match parseStrBody r.length r with
          | none => none
          | some (s, r') => some (.str s, r')
        else if c = '[' then parseArr (parseValue f) r
        else if c = '{' then parseObj (parseValue f) r
        else parseLit (c :: r)

/-- `json.loads(text)`; `none` = `JSONDecodeError` (or outside the modelled domain, see the head of the file) -/
def decode (cs : List Char) : Option JVal :=
  match parseValue cs.length (skipWs cs) with
  | none => none
  | some (v, r) =>
    match skipWs r with
    | [] => some v
    | _ :: _ => none

/-! ## well-formed values: the domain of the round trip -/

/-- float lexemes have the shape of `repr(float)`, object keys are pairwise distinct (a Python `dict`) -/
inductive WF : JVal → Prop
  | null : WF .null
  | bool (b : Bool) : WF (.bool b)
  | int (i : Int) : WF (.int i)
  | float (l : List Char) : floatLexeme l = true → WF (.float l)
  | str (s : List Char) : WF (.str s)
  | arr (l : List JVal) : (∀ v, v ∈ l → WF v) → WF (.arr l)
  | obj (l : List (List Char × JVal)) : (l.map (·.1)).Nodup → (∀ kv, kv ∈ l → WF kv.2) → WF (.obj l)

def nodupKeys : List (List Char) → Bool
  | [] => true
  | k :: ks => !ks.contains k && nodupKeys ks

mutual
/-- Bool twin of `WF` -/
def wf : JVal → Bool
  | .float l => floatLexeme l
  | .arr l => wfList l
  | .obj l => nodupKeys (l.map (·.1)) && wfMembers l
  | _ => true
def wfList : List JVal → Bool
  | [] => true
  | v :: l => wf v && wfList l
def wfMembers : List (List Char × JVal) → Bool
  | [] => true
  | (_, v) :: l => wf v && wfMembers l
end

mutual
/-- the float lexemes of a value, in the order in which `encode` emits them -/
def floatsOf : JVal → List (List Char)
  | .float l => [l]
  | .arr l => floatsOfList l
  | .obj l => floatsOfMembers l
  | _ => []
def floatsOfList : List JVal → List (List Char)
  | [] => []
  | v :: l => floatsOf v ++ floatsOfList l
def floatsOfMembers : List (List Char × JVal) → List (List Char)
  | [] => []
  | (_, v) :: l => floatsOf v ++ floatsOfMembers l
end

end WindVerif.Json
