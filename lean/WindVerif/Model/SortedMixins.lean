import WindVerif.Model.Sorted
/-
The part of the public interface that `SortedMap` (a `MutableMapping`) and `SortedSet` (a `MutableSet`) INHERIT from the
`collections.abc` mixins (CPython 3.12 `Lib/_collections_abc.py`), written as the abc module writes them, on top of the
primitive operations of `Model/Sorted.lean` (`mapGet` = `__getitem__`, `mapDel` = `__delitem__`, `mapContains` =
`Mapping.__contains__`, `mapPopitem`, `setContains`, `setAdd`, `setDiscard`, `setInit` = the class constructor).

Exceptions: the mixins catch `KeyError` only.  The only other error a primitive of the map can give is the `IndexError`
of `values_storage[i]` in an ill-formed state (fewer values than keys); the model treats it like `KeyError`, exactly as
the already existing `mapContains` / `mapSetdefault` do (`mapGet_error_wf` in the proofs: in a well-formed state every
error of `mapGet` *is* `KeyError`).
-/
namespace WindVerif.Sorted

/-! ## Mapping / MutableMapping -/

/-- `Mapping.get(key, default)`: `try: return self[key] except KeyError: return default` -/
def mapGetD (m : SMap) (p : Probe) (d : Nat) : Nat :=
  match mapGet m p with
  | .ok v => v
  | .error _ => d

/-- `MutableMapping.pop(key, default)`:
`try: value = self[key] except KeyError: return default; else: del self[key]; return value`.
(`del self[key]` cannot fail after `self[key]` succeeded — `mapDel_ok_of_get_ok` — so the last branch is unreachable.) -/
def mapPopD (m : SMap) (p : Probe) (d : Nat) : SMap × Nat :=
  match mapGet m p with
  | .error _ => (m, d)
  | .ok v => match mapDel m p with
    | .ok m' => (m', v)
    | .error _ => (m, v)

/-- `KeysView.__contains__`: `return key in self._mapping` (i.e. `Mapping.__contains__`) -/
def mapKeysContains (m : SMap) (p : Probe) : Bool := mapContains m p

/-- `ItemsView.__contains__((key, value))`:
`try: v = self._mapping[key] except KeyError: return False else: return v is value or v == value` -/
def mapItemsContains (m : SMap) (p : Probe) (v : Nat) : Bool :=
  match mapGet m p with
  | .error _ => false
  | .ok w => w == v

/-- `ValuesView.__contains__(value)`:
`for key in self._mapping: v = self._mapping[key]; if v is value or v == value: return True` / `return False` -/
def mapValuesContains (m : SMap) (v : Nat) : Bool :=
  m.keys.any (fun k => match mapGet m (.num k) with
    | .ok w => w == v
    | .error _ => false)

/-- `ItemsView.__iter__`: `for key in self._mapping: yield (key, self._mapping[key])` -/
def mapIterItems (m : SMap) : List (Int × Nat) :=
  m.keys.filterMap (fun k => match mapGet m (.num k) with
    | .ok v => some (k, v)
    | .error _ => none)

/-- equality of two dicts given by their items (distinct keys): same length, and every key of the first is a key of the
second with an equal value (what `dict_equal` of CPython does) -/
def dictEq (a b : List (Int × Nat)) : Bool :=
  a.length == b.length && a.all (fun p => b.lookup p.1 == some p.2)

/-- `Mapping.__eq__(other)` for a dict `other` given by its items (distinct keys, so `dict(other.items())` is `other`):
`return dict(self.items()) == dict(other.items())` -/
def mapEq (m : SMap) (other : List (Int × Nat)) : Bool :=
  dictEq (dictOf [] (mapIterItems m)) other

/-- `MutableMapping.clear`: `try: while True: self.popitem() except KeyError: pass` -/
def mapClear : Nat → SMap → SMap
  | 0, m => m
  | fuel + 1, m => match mapPopitem m with
    | .ok (m', _) => mapClear fuel m'
    | .error _ => m

/-! ## Set / MutableSet — the other operand `t` is a builtin `set`, given as the duplicate-free list of its elements in
its iteration order (a builtin set is a `collections.abc.Set`, so the `isinstance(other, Set)` branches are taken) -/

/-- `Set.__le__`: `if len(self) > len(other): return False; for elem in self: if elem not in other: return False;
return True` -/
def setLe (s t : List Int) : Bool :=
  if s.length > t.length then false else s.all (fun e => t.contains e)

/-- `Set.__eq__`: `return len(self) == len(other) and self.__le__(other)` -/
def setEq (s t : List Int) : Bool := s.length == t.length && setLe s t

/-- `Set.isdisjoint`: `for value in other: if value in self: return False` / `return True` -/
def setIsDisjoint (s t : List Int) : Bool := t.all (fun v => !setContains s (.num v))

/-- `Set.__and__`: `self._from_iterable(value for value in other if value in self)` -/
def setAnd (s t : List Int) : List Int := setInit (t.filter (fun v => setContains s (.num v)))

/-- `Set.__or__`: `chain = (e for s in (self, other) for e in s); return self._from_iterable(chain)` -/
def setOr (s t : List Int) : List Int := setInit (s ++ t)

/-- `Set.__sub__` (`other` is a `Set`): `self._from_iterable(value for value in self if value not in other)` -/
def setSub (s t : List Int) : List Int := setInit (s.filter (fun v => !t.contains v))

/-- `other - self` for a builtin set `other`: `set.__sub__` gives `NotImplemented`, so `Set.__rsub__` of the sorted set
runs: `self._from_iterable(value for value in other if value not in self)` -/
def setRSub (s t : List Int) : List Int := setInit (t.filter (fun v => !setContains s (.num v)))

/-- `Set.__xor__` (`other` is a `Set`): `return (self - other) | (other - self)` — both differences are sorted sets, `|`
is `Set.__or__` again -/
def setXor (s t : List Int) : List Int := setOr (setSub s t) (setRSub s t)

/-- `MutableSet.__ior__`: `for value in it: self.add(value)` -/
def setIor (s t : List Int) : List Int := t.foldl setAdd s

/-- `MutableSet.__iand__`: `for value in (self - it): self.discard(value)` -/
def setIand (s t : List Int) : List Int := (setSub s t).foldl setDiscard s

/-- `MutableSet.__isub__` (`it is not self`): `for value in it: self.discard(value)` -/
def setIsub (s t : List Int) : List Int := t.foldl setDiscard s

/-- `MutableSet.__ixor__` (`it is not self`, `it` is a `Set`):
`for value in it: if value in self: self.discard(value) else: self.add(value)` -/
def setIxor (s t : List Int) : List Int :=
  t.foldl (fun s v => if setContains s (.num v) then setDiscard s v else setAdd s v) s

end WindVerif.Sorted
