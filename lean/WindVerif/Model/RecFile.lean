import WindVerif.Core.PyList
import WindVerif.Model.LineFile
import WindVerif.Model.Records
/-
Model of the MUTABLE RECORD FILES of `windpyutils/files.py` (C12 / C13): `BaseMutableRecordFile` on top of
`BaseMutableRandomLineAccessFile`, parametric in the record class (`Record.load` / `Record.save`).

`_lines` holds, per position, an `int` (the offset of an untouched line of the source file: here the *index* of that line,
`Slot.src`) or a `str` (`Slot.txt`: the text `r.save()` returned, stored as it is — for `CSVRecord` it ends in `"\r\n"`).
  * `f[i]`           → `record_class.load(line)` where `line` is the stored text itself, or the source line read with
                        `readline().rstrip("\n")`;
  * `f[i] = r`, `insert`, `append` store `r.save()`; `del`, `pop`, `reverse` are `list` / `collections.abc.MutableSequence`;
  * `save(out, ending)` writes for every position `text.rstrip("\n") + ending`, where `text` is the raw source line for an
    `int` (no `load`/`save` round, so an untouched line is copied verbatim) and the stored text otherwise.
The file is taken as opened (`closed`/`dirty` are the business of `Model/LineFile.lean`).  Strings are `List Char` as in
`Model/LineFile.lean` / `Model/Records.lean`.
-/
namespace WindVerif.RecFile

abbrev Str := List Char

/-- a record class: `load` (`none` = it raises) and `save` -/
structure Fmt (R : Type) where
  load : Str → Option R
  save : R → Str

/-- what `save` does to a text before it writes it: `text.rstrip("\n")` -/
def strip (s : Str) : Str := WindVerif.LineFile.rstripNL s

/-- the format has a round trip *through a saved file* on the records that satisfy `P`: the stored text `save r`, stripped
of its final `"\n"`s (for csv a trailing `"\r"` stays), loads as `r` -/
def Fmt.Ok {R : Type} (F : Fmt R) (P : R → Prop) : Prop := ∀ r, P r → F.load (strip (F.save r)) = some r

/-- … and *in memory*: `f[i] = r; f[i]` loads the stored text `save r` itself (not stripped) -/
def Fmt.OkMem {R : Type} (F : Fmt R) (P : R → Prop) : Prop := ∀ r, P r → F.load (F.save r) = some r

/-- a saved record occupies one line of the written file -/
def Fmt.OneLine {R : Type} (F : Fmt R) (P : R → Prop) : Prop := ∀ r, P r → '\n' ∉ strip (F.save r)

inductive Slot
  | src (i : Nat)      -- untouched: line `i` of the source file
  | txt (s : Str)      -- new content
  deriving DecidableEq, Repr

structure RecFile where
  source : List Str    -- the lines of the source file as `readline().rstrip("\n")` returns them (never written)
  slots  : List Slot   -- `_lines`
  deriving DecidableEq, Repr

inductive Err | indexError | loadError
  deriving DecidableEq, Repr

/-- a freshly indexed file: `_lines = [offset of line 0, …, offset of line n-1]` -/
def RecFile.open (source : List Str) : RecFile := ⟨source, (List.range source.length).map Slot.src⟩

/-- the lines of a file with the given characters, as the real class reads them: `_index_file` (the offsets) and, per
offset, `seek` + `readline().rstrip("\n")` — `Model/LineFile.lean` -/
def readLines (content : Str) : List Str :=
  (WindVerif.LineFile.indexFile content).map (fun o =>
    match WindVerif.LineFile.dropBytes content o with
    | some rest => WindVerif.LineFile.rstripNL (WindVerif.LineFile.takeLine rest)
    | none => [])

def RecFile.ofContent (content : Str) : RecFile := RecFile.open (readLines content)

/-- `BaseMutableRandomLineAccessFile._get_item`: the stored text, or the source line -/
def RecFile.raw (f : RecFile) : Slot → Str
  | .src i => f.source.getD i []
  | .txt s => s

section ops
variable {R : Type} (F : Fmt R)

/-- `BaseRecordFile._get_item(p)` for a valid position -/
def RecFile.getPos (f : RecFile) (p : Nat) : Except Err R :=
  match f.slots[p]? with
  | none => .error .indexError
  | some s =>
    match F.load (f.raw s) with
    | none => .error .loadError
    | some r => .ok r

/-- `f[i]` -/
def RecFile.getRec (f : RecFile) (i : Int) : Except Err R :=
  match Py.index f.slots.length i with
  | none => .error .indexError
  | some p => f.getPos F p

/-- `f[i] = r`: `self._lines[i] = r.save()` -/
def RecFile.setRec (f : RecFile) (i : Int) (r : R) : Except Err RecFile :=
  match Py.index f.slots.length i with
  | none => .error .indexError
  | some p => .ok { f with slots := f.slots.set p (.txt (F.save r)) }

/-- `f.insert(i, r)`: `self._lines.insert(i, r.save())` -/
def RecFile.insertRec (f : RecFile) (i : Int) (r : R) : RecFile :=
  { f with slots := Py.insertAt f.slots (Py.insertPos f.slots.length i) (.txt (F.save r)) }

/-- `MutableSequence.append`: `self.insert(len(self), r)` -/
def RecFile.appendRec (f : RecFile) (r : R) : RecFile := f.insertRec F f.slots.length r

/-- `del f[i]` -/
def RecFile.delRec (f : RecFile) (i : Int) : Except Err RecFile :=
  match Py.index f.slots.length i with
  | none => .error .indexError
  | some p => .ok { f with slots := f.slots.eraseIdx p }

/-- `MutableSequence.pop(i)`: `v = self[i]; del self[i]; return v` (a line that does not load is not removed) -/
def RecFile.popRec (f : RecFile) (i : Int) : Except Err (R × RecFile) :=
  match f.getRec F i with
  | .error e => .error e
  | .ok v =>
    match f.delRec i with
    | .error e => .error e
    | .ok f' => .ok (v, f')

/-- the loop of `MutableSequence.reverse`: `for i in range(n//2): self[i], self[n-i-1] = self[n-i-1], self[i]`
(right-hand side first, left to right; then the two assignments left to right).  An exception ends the loop and leaves
the swaps already made. -/
def RecFile.reverseLoop (n : Nat) : List Nat → RecFile → RecFile × Option Err
  | [], f => (f, none)
  | i :: rest, f =>
    match f.getRec F ((n - i - 1 : Nat) : Int) with
    | .error e => (f, some e)
    | .ok a =>
      match f.getRec F (i : Int) with
      | .error e => (f, some e)
      | .ok b =>
        match f.setRec F (i : Int) a with
        | .error e => (f, some e)
        | .ok f1 =>
          match f1.setRec F ((n - i - 1 : Nat) : Int) b with
          | .error e => (f1, some e)
          | .ok f2 => RecFile.reverseLoop n rest f2

/-- `f.reverse()`: the file afterwards and the exception, if one ended it -/
def RecFile.reverse (f : RecFile) : RecFile × Option Err :=
  RecFile.reverseLoop F f.slots.length (List.range (f.slots.length / 2)) f

/-- `list(f)`: what the file presents (`none`: that position raises on access) -/
def RecFile.records (f : RecFile) : List (Option R) := f.slots.map (fun s => F.load (f.raw s))

end ops

/-- the text `save` writes for position `p` (before the line ending) -/
def RecFile.lineAt (f : RecFile) (p : Nat) : Option Str := (f.slots[p]?).map (fun s => strip (f.raw s))

/-- `save(out, ending)`: the pieces written, one per position -/
def RecFile.saveLines (f : RecFile) (ending : Str) : List Str := f.slots.map (fun s => strip (f.raw s) ++ ending)

/-- the saved file -/
def RecFile.saveText (f : RecFile) (ending : Str) : Str := (f.saveLines ending).flatten

/-! ## a history of edits -/

inductive Op (R : Type)
  | set (i : Int) (r : R)
  | insert (i : Int) (r : R)
  | append (r : R)
  | del (i : Int)
  | pop (i : Int)
  | reverse

/-- the records an operation hands to the file -/
def Op.recs {R : Type} : Op R → List R
  | .set _ r => [r]
  | .insert _ r => [r]
  | .append r => [r]
  | _ => []

/-- the file after an operation (an exception leaves what the Python code leaves) -/
def RecFile.step {R : Type} (F : Fmt R) (f : RecFile) : Op R → RecFile
  | .set i r => match f.setRec F i r with | .ok f' => f' | .error _ => f
  | .insert i r => f.insertRec F i r
  | .append r => f.appendRec F r
  | .del i => match f.delRec i with | .ok f' => f' | .error _ => f
  | .pop i => match f.popRec F i with | .ok (_, f') => f' | .error _ => f
  | .reverse => (f.reverse F).1

def RecFile.run {R : Type} (F : Fmt R) (f : RecFile) (ops : List (Op R)) : RecFile := ops.foldl (RecFile.step F) f

/-- the same operation on a Python `list` of (loaded) records -/
def Op.onList {R : Type} : Op R → List (Option R) → List (Option R)
  | .set i r, l => match Py.index l.length i with | some p => l.set p (some r) | none => l
  | .insert i r, l => Py.insertAt l (Py.insertPos l.length i) (some r)
  | .append r, l => l ++ [some r]
  | .del i, l => match Py.index l.length i with | some p => l.eraseIdx p | none => l
  | .pop i, l => match Py.index l.length i with | some p => l.eraseIdx p | none => l
  | .reverse, l => l.reverse

/-! ## the csv instance: `CSVRecord` / `TSVRecord` with `k` fields of type `str` -/

/-- `load`: `list_repr = next(iter(csv.reader([s])))`; `zip(field_names, field_types, list_repr)` drops surplus values, and
the dataclass constructor raises `TypeError` when a field is missing; `str(v)` is `v`.  A csv error is `none` as well.
`save`: `DictWriter.writerow(asdict(self))`, the row with its `"\r\n"`. -/
def csvFmt (d : Char) (k : Nat) : Fmt (List Str) where
  load s := match WindVerif.Records.parseRow d s with
    | .ok fs => if k ≤ fs.length then some (fs.take k) else none
    | .error _ => none
  save r := WindVerif.Records.writeRow d r

end WindVerif.RecFile
