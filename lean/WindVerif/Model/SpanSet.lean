import WindVerif.Model.Sorted
/-
Models of `windpyutils/structures/span_set.py` (`SpanSet` with its four membership relations) and of
`windpyutils/structures/maps.py` (`ImmutIntervalMap`, which checks disjointness through a `SpanSet` with the Overlaps
relation and looks keys up with `bisect_left` over the sorted interval ends).

Span bounds are numbers compared with `<=`, `>=`, `==` only, so they embed in a linear order; the model uses `Int`.
-/
namespace WindVerif.SpanSet

abbrev Span := Int × Int

inductive Rel | exact | partOf | includes | overlaps
  deriving DecidableEq, Repr

/-- `eq_relation(x_start, x_end, y_start, y_end)`: `x` is the probe (left of `in`), `y` a stored span -/
def Rel.holds : Rel → Span → Span → Bool
  | .exact,    x, y => x.1 == y.1 && x.2 == y.2
  | .partOf,   x, y => decide (y.1 ≤ x.1) && decide (x.2 ≤ y.2)
  | .includes, x, y => decide (x.1 ≤ y.1) && decide (y.2 ≤ x.2)
  | .overlaps, x, y => decide (x.2 ≥ y.1) && decide (y.2 ≥ x.1)

structure SpanSet where
  rel   : Rel
  spans : List Span

/-- `__contains__`: some stored span is related to the probe -/
def mem (S : SpanSet) (x : Span) : Bool := S.spans.any (fun y => S.rel.holds x y)

/-- the constructor loop (both the `(starts, ends)` and the iterable-of-pairs form): a span is kept only if it is not
already *in* the set built so far -/
def build (r : Rel) (xs : List Span) : List Span :=
  xs.foldl (fun acc x => if acc.any (fun y => r.holds x y) then acc else acc ++ [x]) []

def mk (r : Rel) (xs : List Span) : SpanSet := ⟨r, build r xs⟩

/-- `force_no_dup_check=True` with the two-sequence form: the input is taken as it is -/
def mkRaw (r : Rel) (xs : List Span) : SpanSet := ⟨r, xs⟩

/-- the four operators: `type(self)(x for x in chain(self, other) if φ(x in self, x in other))` — the result is built
with the default (Exact) relation -/
def combine (φ : Bool → Bool → Bool) (A B : SpanSet) : SpanSet :=
  mk .exact ((A.spans ++ B.spans).filter (fun x => φ (mem A x) (mem B x)))

def opAnd := combine (fun a b => a && b)
def opOr  := combine (fun a b => a || b)
def opSub := combine (fun a b => a && !b)
def opXor := combine (fun a b => a != b)

/-- `__le__`: `all(x in other for x in self)` -/
def le (A B : SpanSet) : Bool := A.spans.all (mem B)
/-- `__eq__`: `self <= other <= self` (a chained comparison) -/
def eq (A B : SpanSet) : Bool := le A B && le B A
def ne (A B : SpanSet) : Bool := !eq A B
def lt (A B : SpanSet) : Bool := le A B && ne A B
def ge (A B : SpanSet) : Bool := le B A
def gt (A B : SpanSet) : Bool := lt B A
def isdisjoint (A : SpanSet) (s : List Span) : Bool := s.all (fun x => !mem A x)
def issubset := le
def issuperset := ge

/-! ## ImmutIntervalMap -/

inductive IErr | keyError
  deriving DecidableEq, Repr

structure IMap where
  starts : List Int            -- in the order of the defining dict
  vals   : List Nat
  sortedEnds : List Int
  sortedIdx  : List Nat

/-- constructor: validity scan, disjointness through the Overlaps span set and a length comparison, ends sorted
(stable) together with their positions -/
def imapInit (items : List (Span × Nat)) : Except IErr IMap :=
  if items.any (fun it => decide (it.1.1 > it.1.2)) then .error .keyError else
  let spans := items.map (·.1)
  if (build .overlaps spans).length != items.length then .error .keyError else
  let ends := (spans.map (·.2)).zipIdx
  let sorted := ends.mergeSort (fun a b => a.1 ≤ b.1)
  .ok { starts := spans.map (·.1), vals := items.map (·.2), sortedEnds := sorted.map (·.1), sortedIdx := sorted.map (·.2) }

/-- `__getitem__` -/
def imapGet (m : IMap) (key : Int) : Except IErr Nat :=
  let i := Sorted.bisectLeftNum m.sortedEnds key
  if i = m.sortedEnds.length then .error .keyError else
  match m.sortedIdx[i]? with
  | none => .error .keyError
  | some j =>
    match m.starts[j]?, m.vals[j]? with
    | some s, some v => if key < s then .error .keyError else .ok v
    | _, _ => .error .keyError

def imapContains (m : IMap) (key : Int) : Bool :=
  match imapGet m key with | .ok _ => true | .error _ => false

def imapLen (m : IMap) : Nat := m.starts.length

/-- `__iter__`: `((start, end), value)` in ascending order of the ends -/
def imapIter (m : IMap) : List (Span × Nat) :=
  (m.sortedIdx.zip m.sortedEnds).filterMap (fun p =>
    match m.starts[p.1]?, m.vals[p.1]? with
    | some s, some v => some ((s, p.2), v)
    | _, _ => none)

end WindVerif.SpanSet
