/-
Model of one opened line / map file used from many forked processes (C18): `RandomLineAccessFile.reopen_if_needed`,
`_file_seek`, `_read_next_line` (and the same three steps inside `MapAccessFile.__getitem__`).

The OS-level *open file description* (with its offset) is shared by a parent and the children forked after the open; the
Python object is copied by `fork`.  The object remembers the pid that opened the handle; on first use in another process the
handle is closed (which only drops that process's reference) and opened again, giving a description of its own.  A file is
its list of lines and an offset is a line number (`seek` goes to a recorded line start; `readline` returns the line at the
offset and moves to the next one).  For the memory-mapped variant the position lives in process memory, which `fork` copies;
the same model applies with "description" read as "mapping object".
-/
namespace WindVerif.ForkFile

structure Proc where
  pid       : Nat
  desc      : Option Nat        -- description the object's handle refers to (`none`: file not opened)
  openedPid : Option Nat        -- `_opened_in_process_with_id`
  deriving DecidableEq, Repr

structure St where
  procs   : List Proc
  offsets : List Nat            -- offset of every description ever created (index = description id)
  nextPid : Nat
  deriving Repr

/-- one process that has opened the file (description 0 at offset 0) -/
def init : St := { procs := [⟨0, some 0, some 0⟩], offsets := [0], nextPid := 1 }

inductive Act
  | fork (parent : Nat)         -- index of the forking process in `procs`; the child is appended
  | seek (p : Nat) (line : Nat) -- `_file_seek(self._lines[line])`
  | read (p : Nat)              -- `_read_next_line()`
  deriving DecidableEq, Repr

/-- `reopen_if_needed`: opened in another process → close and open again: a fresh description at offset 0 -/
def reopen (s : St) (i : Nat) (p : Proc) : St × Proc :=
  match p.openedPid with
  | none => (s, p)
  | some op =>
    if op = p.pid then (s, p)
    else
      let p' := { p with desc := some s.offsets.length, openedPid := some p.pid }
      ({ s with offsets := s.offsets ++ [0], procs := s.procs.set i p' }, p')

/-- result of a step: the new state and, for `read`, the line that was read -/
def step (s : St) : Act → Option (St × Option Nat)
  | .fork i =>
    match s.procs[i]? with
    | none => none
    | some p => some ({ s with procs := s.procs ++ [{ p with pid := s.nextPid }], nextPid := s.nextPid + 1 }, none)
  | .seek i line =>
    match s.procs[i]? with
    | none => none
    | some p =>
      let (s, p) := reopen s i p
      match p.desc with
      | none => none                    -- closed file: `RuntimeError` before any of this
      | some d => some ({ s with offsets := s.offsets.set d line }, none)
  | .read i =>
    match s.procs[i]? with
    | none => none
    | some p =>
      let (s, p) := reopen s i p
      match p.desc with
      | none => none
      | some d =>
        match s.offsets[d]? with
        | none => none
        | some off => some ({ s with offsets := s.offsets.set d (off + 1) }, some off)

/-- run a history; collects what every `read` returned, in order -/
def run (s : St) : List Act → Option (St × List (Nat × Nat))
  | [] => some (s, [])
  | a :: as =>
    match step s a with
    | none => none
    | some (s', r) =>
      match run s' as with
      | none => none
      | some (s'', rs) =>
        some (s'', (match a, r with | .read i, some l => [(i, l)] | _, _ => []) ++ rs)

end WindVerif.ForkFile
