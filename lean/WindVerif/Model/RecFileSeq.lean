import WindVerif.Model.RecFile
import WindVerif.Model.LineFileSeq
/-
The methods the mutable record files of `windpyutils/files.py` INHERIT from `collections.abc.Sequence` /
`MutableSequence` (CPython 3.12 `Lib/_collections_abc.py`, quoted in `Model/LineFileSeq.lean`), on top of the primitives of
`Model/RecFile.lean`: `index`, `count`, `__contains__` (read side), `remove`, `clear`.

They compare *loaded records* with `==` (a dataclass compares its fields; here: decidable equality of `R`): `self[i]` /
the overridden `__iter__` (a record file is born dirty, so it yields `self._get_item(n)`) return `record_class.load(line)`.
A position whose text does not load raises the exception of `load`, as `f[i]` does — `SeqErr.loadError p` carries the
position, from which the drivers name the exception.  The file is taken as opened, as in `Model/RecFile.lean`.
-/
namespace WindVerif.RecFile
open WindVerif.LineFile (seqStart seqStop seqBelow)

/-- what the inherited read methods / `remove` raise: `ValueError` (the record is absent), the exception of `load` for the
text of position `p`, `IndexError` (of `del`, unreachable after a successful `index`) -/
inductive SeqErr
  | valueError
  | indexError
  | loadError (p : Nat)
  deriving DecidableEq, Repr

/-- the exception of a result, if it is one (`Except` has no decidable equality; used to state concrete instances) -/
def errOf {ε α : Type} : Except ε α → Option ε
  | .error e => some e
  | .ok _ => none

section ops
variable {R : Type} [DecidableEq R] (F : Fmt R)

/-- the `while` loop of `Sequence.index` (`Model/LineFileSeq.lean`): `IndexError` of `self[i]` ends it, the exception of
`load` propagates.  The file does not change, every round but the last one reads a valid position: `len + 1` rounds of
fuel suffice (`indexGo_fuel`). -/
def RecFile.indexGo (f : RecFile) (r : R) (stop : Option Int) : Nat → Nat → Except SeqErr Nat
  | 0, _ => .error .valueError
  | fuel + 1, i =>
    if seqBelow stop i then
      match f.getRec F (i : Int) with
      | .error .indexError => .error .valueError
      | .error .loadError => .error (.loadError i)
      | .ok x => if x = r then .ok i else RecFile.indexGo f r stop fuel (i + 1)
    else .error .valueError

/-- `f.index(r, start, stop)` (`none` = the argument is omitted; for `stop` also an explicit `None`) -/
def RecFile.indexRec (f : RecFile) (r : R) (start stop : Option Int) : Except SeqErr Nat :=
  f.indexGo F r (seqStop f.slots.length stop) (f.slots.length + 1) (seqStart f.slots.length start)

/-- `for x in self: if x == r: return True`, the generator at position `p`, `k` items to go -/
def RecFile.containsGo (f : RecFile) (r : R) : Nat → Nat → Except SeqErr Bool
  | _, 0 => .ok false
  | p, k + 1 =>
    match f.getPos F p with
    | .error .indexError => .error .indexError
    | .error .loadError => .error (.loadError p)
    | .ok x => if x = r then .ok true else RecFile.containsGo f r (p + 1) k

/-- `r in f` -/
def RecFile.containsRec (f : RecFile) (r : R) : Except SeqErr Bool := f.containsGo F r 0 f.slots.length

/-- `sum(1 for x in self if x == r)`, the running sum in `acc` -/
def RecFile.countGo (f : RecFile) (r : R) : Nat → Nat → Nat → Except SeqErr Nat
  | _, 0, acc => .ok acc
  | p, k + 1, acc =>
    match f.getPos F p with
    | .error .indexError => .error .indexError
    | .error .loadError => .error (.loadError p)
    | .ok x => RecFile.countGo f r (p + 1) k (if x = r then acc + 1 else acc)

/-- `f.count(r)` -/
def RecFile.countRec (f : RecFile) (r : R) : Except SeqErr Nat := f.countGo F r 0 f.slots.length 0

/-- `f.remove(r)`: `del self[self.index(r)]` -/
def RecFile.removeRec (f : RecFile) (r : R) : Except SeqErr RecFile :=
  match f.indexRec F r none none with
  | .error e => .error e
  | .ok k =>
    match f.delRec (k : Int) with
    | .error _ => .error .indexError
    | .ok f' => .ok f'

end ops

section clear
variable {R : Type} (F : Fmt R)

/-- the loop of `MutableSequence.clear`: `self.pop()` until it raises; `IndexError` is swallowed, the exception of `load`
propagates — `pop` loads the record it removes — and leaves the positions not yet popped.  Every successful `pop`
shortens `_lines`: `len + 1` rounds suffice (`clearGo_fuel`). -/
def RecFile.clearGo (f : RecFile) : Nat → RecFile × Option Err
  | 0 => (f, none)
  | fuel + 1 =>
    match f.popRec F (-1) with
    | .error .indexError => (f, none)
    | .error e => (f, some e)
    | .ok (_, f') => RecFile.clearGo f' fuel

/-- `f.clear()`: the file afterwards and the exception, if one ended it -/
def RecFile.clearRec (f : RecFile) : RecFile × Option Err := f.clearGo F (f.slots.length + 1)

end clear

/-! ## histories with `remove` and `clear` -/

inductive Op2 (R : Type)
  | base (op : Op R)
  | remove (r : R)
  | clear

/-- the records an operation hands to the file to be stored (`remove` only compares) -/
def Op2.recs {R : Type} : Op2 R → List R
  | .base op => op.recs
  | _ => []

/-- the file after an operation (an exception leaves what the Python code leaves) -/
def RecFile.step2 {R : Type} [DecidableEq R] (F : Fmt R) (f : RecFile) : Op2 R → RecFile
  | .base op => f.step F op
  | .remove r => match f.removeRec F r with | .ok f' => f' | .error _ => f
  | .clear => (f.clearRec F).1

def RecFile.run2 {R : Type} [DecidableEq R] (F : Fmt R) (f : RecFile) (ops : List (Op2 R)) : RecFile :=
  ops.foldl (RecFile.step2 F) f

/-- the same operation on a Python `list` of (loaded) records: `list.remove` deletes the first equal element and leaves
the list alone when it raises `ValueError` -/
def Op2.onList {R : Type} [DecidableEq R] : Op2 R → List (Option R) → List (Option R)
  | .base op, l => op.onList l
  | .remove r, l => l.erase (some r)
  | .clear, _ => []

end WindVerif.RecFile
