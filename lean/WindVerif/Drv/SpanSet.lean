import WindVerif.Model.SpanSet
import WindVerif.Drv.Common
import WindVerif.Drv.Sorted
namespace WindVerif.Drv
open WindVerif.SpanSet

def parseRel : String → Option Rel
  | "exact" => some .exact | "partof" => some .partOf | "includes" => some .includes | "overlaps" => some .overlaps
  | _ => none

def parseSpans : List String → Option (List Span)
  | [] => some []
  | [_] => none
  | a :: b :: r => match a.toInt?, b.toInt?, parseSpans r with
    | some x, some y, some l => some ((x, y) :: l)
    | _, _, _ => none

def showSpans (l : List Span) : String := joinWith "," (l.map (fun p => s!"{p.1}:{p.2}"))

abbrev SSEnv := List (Nat × SpanSet)

def ssGet (env : SSEnv) (w : String) : Option SpanSet := match w.toNat? with
  | some n => env.lookup n
  | none => none

def ssPut (env : SSEnv) (n : Nat) (s : SpanSet) : SSEnv := (n, s) :: env.filter (fun p => p.1 ≠ n)

def b01 (b : Bool) : String := if b then "ret 1" else "ret 0"

def spansetStep (env : SSEnv) (ws : List String) : SSEnv × String :=
  let bin (f : SpanSet → SpanSet → SpanSet) (a b c : String) : SSEnv × String :=
    match ssGet env a, ssGet env b, c.toNat? with
    | some A, some B, some n => let R := f A B; (ssPut env n R, "ok " ++ showSpans R.spans)
    | _, _, _ => (env, "bad-op")
  let cmp (f : SpanSet → SpanSet → Bool) (a b : String) : SSEnv × String :=
    match ssGet env a, ssGet env b with
    | some A, some B => (env, b01 (f A B))
    | _, _ => (env, "bad-op")
  match ws with
  | "mk" :: n :: r :: rest => match n.toNat?, parseRel r, parseSpans rest with
    | some n, some r, some xs => let S := mk r xs; (ssPut env n S, "ok " ++ showSpans S.spans)
    | _, _, _ => (env, "bad-op")
  | "raw" :: n :: r :: rest => match n.toNat?, parseRel r, parseSpans rest with
    | some n, some r, some xs => let S := mkRaw r xs; (ssPut env n S, "ok " ++ showSpans S.spans)
    | _, _, _ => (env, "bad-op")
  | ["and", a, b, c] => bin opAnd a b c
  | ["or", a, b, c] => bin opOr a b c
  | ["sub", a, b, c] => bin opSub a b c
  | ["xor", a, b, c] => bin opXor a b c
  | ["le", a, b] => cmp le a b
  | ["lt", a, b] => cmp lt a b
  | ["eq", a, b] => cmp eq a b
  | ["ne", a, b] => cmp ne a b
  | ["ge", a, b] => cmp ge a b
  | ["gt", a, b] => cmp gt a b
  | ["disjoint", a, b] => cmp (fun A B => isdisjoint A B.spans) a b
  | ["subset", a, b] => cmp issubset a b
  | ["superset", a, b] => cmp issuperset a b
  | ["has", a, s, e] => match ssGet env a, s.toInt?, e.toInt? with
    | some A, some s, some e => (env, b01 (mem A (s, e)))
    | _, _, _ => (env, "bad-op")
  | ["copy", a, c] => match ssGet env a, c.toNat? with
    | some A, some n => (ssPut env n A, "ok " ++ showSpans A.spans)
    | _, _ => (env, "bad-op")
  | ["setrel", a, r] => match ssGet env a, a.toNat?, parseRel r with
    | some A, some n, some r => (ssPut env n { A with rel := r }, "ok " ++ showSpans A.spans)
    | _, _, _ => (env, "bad-op")
  | ["len", a] => match ssGet env a with
    | some A => (env, s!"ret {A.spans.length}")
    | none => (env, "bad-op")
  | ["dump", a] => match ssGet env a with
    | some A => (env, "ok " ++ showSpans A.spans)
    | none => (env, "bad-op")
  | _ => (env, "bad-op")

def spansetMachine : Machine := { σ := SSEnv, init := [], step := spansetStep }

def parseItems : List String → Option (List (Span × Nat))
  | [] => some []
  | a :: b :: c :: r => match a.toInt?, b.toInt?, c.toNat?, parseItems r with
    | some x, some y, some v, some l => some (((x, y), v) :: l)
    | _, _, _, _ => none
  | _ => none

def imapStep (st : Option IMap) (ws : List String) : Option IMap × String :=
  match ws with
  | "mk" :: rest => match parseItems rest with
    | some items => (match imapInit items with
      | .ok m => (some m, "ok")
      | .error _ => (none, "err KeyError"))
    | none => (st, "bad-op")
  | ["get", k] => match st, k.toInt? with
    | some m, some k => (match imapGet m k with | .ok v => (st, s!"ret {v}") | .error _ => (st, "err KeyError"))
    | _, _ => (st, "bad-op")
  | ["has", k] => match st, k.toInt? with
    | some m, some k => (st, b01 (imapContains m k))
    | _, _ => (st, "bad-op")
  | ["len"] => match st with
    | some m => (st, s!"ret {imapLen m}")
    | none => (st, "bad-op")
  | ["iter"] => match st with
    | some m => (st, "ret " ++ joinWith "," ((imapIter m).map (fun p => s!"{p.1.1}:{p.1.2}:{p.2}")))
    | none => (st, "bad-op")
  | _ => (st, "bad-op")

def imapMachine : Machine := { σ := Option IMap, init := none, step := imapStep }

end WindVerif.Drv
