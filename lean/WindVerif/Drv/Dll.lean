import WindVerif.Model.Dll
import WindVerif.Drv.Common
namespace WindVerif.Drv
open WindVerif.Dll

def dllDump (d : Dll) : String :=
  let fuel := d.fresh + 1
  let f := walkF d fuel d.head
  let b := walkB d fuel d.tail
  let links := f.map (fun x => s!"{x}({showOpt (d.prev x)},{showOpt (d.next x)})")
  s!"F:{showNats f} B:{showNats b} S:{d.size} H:{showOpt d.head} T:{showOpt d.tail} L:{joinWith ";" links}"

def errName : Err → String
  | .indexError => "IndexError"
  | .runtimeError => "RuntimeError"

def repeatN {α} (f : α → α) : Nat → α → α
  | 0, a => a
  | n + 1, a => repeatN f n (f a)

def dllStep (st : Dll × Bool) (ws : List String) : (Dll × Bool) × String :=
  let d := st.1
  let fin (d' : Dll) (r : String) : (Dll × Bool) × String :=
    ((d', st.2), if st.2 then r else r ++ " " ++ dllDump d')
  let node? (w : String) : Option Nat := match w.toNat? with
    | some n => if n < d.fresh then some n else none
    | none => none
  match ws with
  | ["append"] => let (d', n) := append d; fin d' s!"ret {n}"
  | ["prepend"] => let (d', n) := prepend d; fin d' s!"ret {n}"
  | ["remove", w] => match node? w with
    | some n => fin (remove d n) "ok"
    | none => (st, "bad-op")
  | ["pop_back"] => match popBack d with
    | .ok (d', n) => fin d' s!"ret {n}"
    | .error e => fin d s!"err {errName e}"
  | ["pop_front"] => match popFront d with
    | .ok (d', n) => fin d' s!"ret {n}"
    | .error e => fin d s!"err {errName e}"
  | ["mtf", w] => match node? w with
    | some n => (match moveToFront d n with
      | .ok d' => fin d' "ok"
      | .error e => fin d s!"err {errName e}")
    | none => (st, "bad-op")
  | ["mtb", w] => match node? w with
    | some n => (match moveToBack d n with
      | .ok d' => fin d' "ok"
      | .error e => fin d s!"err {errName e}")
    | none => (st, "bad-op")
  | ["rot", "1"] => fin (rotate d true) "ok"
  | ["rot", "0"] => fin (rotate d false) "ok"
  | ["ma", w, v] => match node? w, node? v with
    | some n, some a => fin (moveAfter d n a) "ok"
    | _, _ => (st, "bad-op")
  | ["extend", w] => match w.toNat? with
    | some k => fin (repeatN (fun d => (append d).1) k d) "ok"
    | none => (st, "bad-op")
  | ["pre_extend", w] => match w.toNat? with
    | some k => fin (repeatN (fun d => (prepend d).1) k d) "ok"
    | none => (st, "bad-op")
  -- `extend` / `pre_extend` with an iterable that raises after `k` items: the `k` items are linked (each by one
  -- `append` / `prepend`, as the code does), then the iterable's exception propagates
  | ["extendx", w] => match w.toNat? with
    | some k => fin (repeatN (fun d => (append d).1) k d) "err RuntimeError"
    | none => (st, "bad-op")
  | ["pre_extendx", w] => match w.toNat? with
    | some k => fin (repeatN (fun d => (prepend d).1) k d) "err RuntimeError"
    | none => (st, "bad-op")
  -- `extend` with a generator that uses the list itself: before each of its `k` items it pops the front of the list
  -- (the composition `[popFront, append]^k`; an empty list ends it with the pop's `IndexError`)
  | ["extendpf", w] => match w.toNat? with
    | some k =>
      let rec go : Nat → Dll → Dll × String
        | 0, d => (d, "ok")
        | n + 1, d => match popFront d with
          | .ok (d', _) => go n (append d').1
          | .error e => (d, s!"err {errName e}")
      let (d', r) := go k d
      fin d' r
    | none => (st, "bad-op")
  | ["quiet"] => ((d, true), "ok")
  | ["verbose"] => ((d, false), "ok")
  | ["dump"] => ((d, st.2), "ok " ++ dllDump d)
  | _ => (st, "bad-op")

def dllMachine : Machine := { σ := Dll × Bool, init := (Dll.empty, false), step := dllStep }

end WindVerif.Drv
