import WindVerif.Model.Generic
import WindVerif.Model.GenericK
import WindVerif.Model.GenericEq
import WindVerif.Model.BatcherLazy
import WindVerif.Model.ScanSteps
import WindVerif.Drv.Common
import WindVerif.Drv.Sorted
namespace WindVerif.Drv
open WindVerif.Generic

def genErr : Generic.Err → String
  | .valueError => "ValueError"
  | .indexError => "IndexError"
  | .keyError => "KeyError"

def splitBar (ws : List String) : List String × List String :=
  (ws.takeWhile (· ≠ "|"), (ws.dropWhile (· ≠ "|")).drop 1)

def showLists (ls : List (List Int)) : String := joinWith ";" (ls.map showInts)

/-- outcomes of successive `next()` calls on a `BatcherIter` generator: a batch as its items joined by `,`; `R` = the source's
exception passed through; `S` = StopIteration -/
def showOutcomes (os : List BatcherLazy.Outcome) : String :=
  joinWith ";" (os.map (fun o => match o with
    | .batch l => showInts l
    | .raised => "R"
    | .stop => "S"))

def showCombos (l : List (List Nat × Nat)) : String :=
  joinWith ";" (l.map (fun p => joinWith "." (p.1.map toString) ++ ":" ++ toString p.2))

/-- the key families of `combosK <kind> s1 s2 …` (on index combinations over the scores) -/
def keyOfKind (kind : String) (scores : List Nat) : Option (List Nat → Nat) :=
  match kind with
  | "sum" => some (keySum scores)
  | "max" => some (keyMax scores)
  | "spread" => some (keySpread scores)
  | "len" => some keyLen
  | "const" => some (keyConst 0)
  | "distinct" => some (keyDistinct scores)
  | _ => none

def genericStep (_ : Unit) (ws : List String) : Unit × String :=
  let r : String := match ws with
    | ["i2r", n] => (match n.toNat? with
      | some n => "ret " ++ String.ofList (int2roman n)
      | none => "bad-op")
    | ["r2i", s] => (match roman2int s.toList with
      | .ok v => s!"ret {v}"
      | .error e => s!"err {genErr e}")
    | "argsort" :: rev :: ks => (match parseInts ks with
      | some xs => "list " ++ showNats (argSort xs (rev == "1"))
      | none => "bad-op")
    | "subseq" :: rest => (let (a, b) := splitBar rest
      match parseInts a, parseInts b with
      | some a, some b => if subSeq a b then "ret 1" else "ret 0"
      | _, _ => "bad-op")
    | "search" :: rest => (let (a, b) := splitBar rest
      match parseInts a, parseInts b with
      | some a, some b => (match searchSubSeq a b with
        | .ok l => "list " ++ joinWith "," (l.map (fun p => s!"{p.1}:{p.2}"))
        | .error e => s!"err {genErr e}")
      | _, _ => "bad-op")
    -- `subseqE n | s1… | s2…` / `searchE n | s1… | s2…`: elements are object numbers; the objects `< n` are equal to nothing
    -- (themselves included: NaNs, found only through identity), the others are equal iff they are the same number
    | "subseqE" :: n :: "|" :: rest => (let (a, b) := splitBar rest
      match n.toNat?, parseNats a, parseNats b with
      | some n, some a, some b => if subSeqE (nanEq n) a b then "ret 1" else "ret 0"
      | _, _, _ => "bad-op")
    | "searchE" :: n :: "|" :: rest => (let (a, b) := splitBar rest
      match n.toNat?, parseNats a, parseNats b with
      | some n, some a, some b => (match searchSubSeqE (nanEq n) a b with
        | .ok l => "list " ++ joinWith "," (l.map (fun p => s!"{p.1}:{p.2}"))
        | .error e => s!"err {genErr e}")
      | _, _, _ => "bad-op")
    | "cmp" :: rest => (let (a, b) := splitBar rest
      match parseInts a, parseInts b with
      | some a, some b => if comparePos a b then "ret 1" else "ret 0"
      | _, _ => "bad-op")
    | "batch" :: b :: i :: ks => (match b.toNat?, i.toNat?, parseInts ks with
      | some b, some i, some xs => (match batcherGet xs b i with
        | .ok l => "list " ++ showInts l
        | .error e => s!"err {genErr e}")
      | _, _, _ => "bad-op")
    | ["batchlen", n, b] => (match n.toNat?, b.toNat? with
      | some n, some b => s!"ret {batcherLen n b}"
      | _, _ => "bad-op")
    | ["batchrange", n, b, i] => (match n.toNat?, b.toNat?, i.toNat? with
      | some n, some b, some i => (match batcherGetRange n b i with
        | .ok (s, e) => s!"ret {s}:{e}"
        | .error e => s!"err {genErr e}")
      | _, _, _ => "bad-op")
    | "batchnew" :: b :: lens => (match b.toInt?, parseNats lens with
      | some b, some lens => (match batcherNew lens b with
        | .ok _ => "ok"
        | .error e => s!"err {genErr e}")
      | _, _ => "bad-op")
    | "batchiter" :: b :: ks => (match b.toNat?, parseInts ks with
      | some b, some xs => "lists " ++ showLists (batcherIter xs b)
      | _, _ => "bad-op")
    -- `batchlazy <b> <fails 0|1> <k> <items…>`: the first `k` `next()` calls on `iter(BatcherIter(source, b))`, the source giving the
    -- items and then ending (`0`) or raising (`1`); answer `pulled:<items taken from the source so far> out:<outcomes>`;
    -- `batchahead …`: the same for the read-ahead variant; `b = 0` is refused by the constructor
    | "batchlazy" :: b :: f :: k :: ks => (match b.toNat?, f.toNat?, k.toNat?, parseInts ks with
      | some b, some f, some k, some xs =>
        if b = 0 then "err ValueError" else
        let r := BatcherLazy.take b ⟨xs, f != 0⟩ k
        s!"pulled:{r.2.pulled} out:{showOutcomes r.1}"
      | _, _, _, _ => "bad-op")
    | "batchahead" :: b :: f :: k :: ks => (match b.toNat?, f.toNat?, k.toNat?, parseInts ks with
      | some b, some f, some k, some xs =>
        if b = 0 then "err ValueError" else
        let r := BatcherLazy.takeAhead b ⟨xs, f != 0⟩ k
        s!"pulled:{r.2.pulled} out:{showOutcomes r.1}"
      | _, _, _, _ => "bad-op")
    | "batchiter2" :: b :: ks =>
      -- `batchiter2 b x1 x2 … | y1 y2 …`: a tuple of two iterables of possibly different length
      (match b.toNat?, parseInts (ks.takeWhile (· ≠ "|")), parseInts ((ks.dropWhile (· ≠ "|")).drop 1) with
      | some b, some xs, some ys =>
        "lists2 " ++ ";".intercalate ((batcherIterPair xs ys b).map
          (fun p => ",".intercalate (p.1.map toString) ++ "/" ++ ",".intercalate (p.2.map toString)))
      | _, _, _ => "bad-op")
    | "combos" :: ws => (match parseNats ws with
      | some sc => "ret " ++ showCombos (sortedCombinations sc)
      | none => "bad-op")
    | "combosK" :: kind :: ws => (match parseNats ws with
      | some sc => (match keyOfKind kind sc with
        | some key => "ret " ++ showCombos (sortedCombinationsK (fun i => i) key sc.length)
        | none => "bad-op")
      | none => "bad-op")
    | "combosE" :: ws => (match parseNats ws with
      | some es => "ret " ++ showCombos (sortedCombinationsE es)
      | none => "bad-op")
    | "mincomb" :: a :: b :: ws => (match a.toInt?, b.toInt?, parseNats ws with
      | some a, some b, some sc => "ret " ++ showCombos (minCombinations sc a b)
      | _, _, _ => "bad-op")
    -- `minsteps <iStart> <iEnd> s1 s2 …`: combinations `min_combinations_in_interval_iter_sorted` pulls from the stream
    | "minsteps" :: a :: b :: ws => (match a.toInt?, b.toInt?, parseNats ws with
      | some a, some b, some sc => s!"ret {minCombinationsSteps sc a b}"
      | _, _, _ => "bad-op")
    | _ => "bad-op"
  ((), r)

def genericMachine : Machine := { σ := Unit, init := (), step := genericStep }

end WindVerif.Drv
