import WindVerif.Model.StorageSeq
import WindVerif.Drv.Common
/-! driver of the sequential `TextFileStorage` model: `init <n>`, `store <g> <t> <ok 0|1>`, `read <g>`, `len`, `contig`,
`iter`, `flush`; every answer is followed by ` # idx:…|cnt:…|wf:…` (the state after the operation) -/
namespace WindVerif.Drv
open WindVerif.StorageSeq

def sseqRes : StorageSeq.Res → String
  | .ok => "ok"
  | .raised => "raised"
  | .valueError => "ValueError"
  | .indexError => "IndexError"
  | .text t => s!"text:T{t}"
  | .num n => s!"nat:{n}"
  | .bool b => if b then "bool:1" else "bool:0"
  | .texts l => "texts:" ++ joinWith "," (l.map (fun t => s!"T{t}"))

def sseqDigest (s : StorageSeq.St) : String :=
  let idx := joinWith "," (s.index.map (fun e => match e with | some t => s!"T{t}" | none => "-"))
  s!"idx:{idx}|cnt:{s.stored}|wf:{s.waiting}"

def sseqParse : List String → Option StorageSeq.Op
  | ["store", g, t, ok] => match g.toNat?, t.toNat?, ok.toNat? with
    | some g, some t, some ok => some (.store g t (ok != 0))
    | _, _, _ => none
  | ["read", g] => g.toNat?.map .read
  | ["len"] => some .len
  | ["contig"] => some .contiguous
  | ["iter"] => some .iter
  | ["flush"] => some .flush
  | _ => none

def sseqStep (s : StorageSeq.St) (ws : List String) : StorageSeq.St × String :=
  match ws with
  | ["init", n] => (match n.toNat? with
    | some n => (St.init n, "ok # " ++ sseqDigest (St.init n))
    | none => (s, "bad-op"))
  | _ => match sseqParse ws with
    | some op => let r := StorageSeq.step s op; (r.1, sseqRes r.2 ++ " # " ++ sseqDigest r.1)
    | none => (s, "bad-op")

def storageseqMachine : Machine := { σ := StorageSeq.St, init := St.empty, step := sseqStep }

end WindVerif.Drv
