import WindVerif.Model.Cache
import WindVerif.Drv.Common
namespace WindVerif.Drv
open WindVerif.Dll WindVerif.Cache

def cacheErr : Cache.Err → String
  | .keyError => "KeyError"
  | .runtimeError => "RuntimeError"
  | .attributeError => "AttributeError"

def sortNats (l : List Nat) : List Nat := l.mergeSort (fun a b => a ≤ b)

def lruDigest (s : Lru) : String :=
  let ns := walkF s.dll (s.dll.fresh + 1) s.dll.head
  let ks := ns.map (fun n => (s.data n).1)
  let vs := ns.map (fun n => (s.data n).2)
  let dk := sortNats (s.cache.map (·.1))
  let agree := s.cache.all (fun p => ns.contains p.2 && (s.data p.2).1 == p.1) && s.cache.length == ns.length
  s!"K:{showNats ks} V:{showNats vs} N:{s.cache.length} D:{showNats dk} A:{if agree then 1 else 0}"

def lfuDigest (s : Lfu) : String :=
  let ns := walkF s.dll (s.dll.fresh + 1) s.dll.head
  let ks := ns.map (fun n => (s.data n).1)
  let vs := ns.map (fun n => (s.data n).2.1)
  let cs := ns.map (fun n => (s.data n).2.2)
  let dk := sortNats (s.cache.map (·.1))
  let agree := s.cache.all (fun p => ns.contains p.2 && (s.data p.2).1 == p.1) && s.cache.length == ns.length
  s!"K:{showNats ks} V:{showNats vs} C:{showNats cs} N:{s.cache.length} D:{showNats dk} A:{if agree then 1 else 0}"

def parsePairs : List String → Option (List (Nat × Nat))
  | [] => some []
  | [_] => none
  | a :: b :: r => match a.toNat?, b.toNat?, parsePairs r with
    | some x, some y, some l => some ((x, y) :: l)
    | _, _, _ => none

def showPairs (l : List (Nat × Nat)) : String := joinWith "," (l.map (fun p => s!"{p.1}:{p.2}"))

/-- generic step over the primitive operations and the mixins -/
def cacheStep {σ : Type} (P : Prim σ) (new : Nat → σ) (digest : σ → String) (s : σ) (ws : List String) : σ × String :=
  let fin (s' : σ) (r : String) : σ × String := (s', r ++ " " ++ digest s')
  let err (e : Cache.Err) : σ × String := fin s s!"err {cacheErr e}"
  match ws with
  | ["new", c] => match c.toNat? with
    | some n => fin (new n) "ok"
    | none => (s, "bad-op")
  | ["set", k, v] => match k.toNat?, v.toNat? with
    | some k, some v => (match P.set s k v with | .ok s' => fin s' "ok" | .error e => err e)
    | _, _ => (s, "bad-op")
  | ["get", k] => match k.toNat? with
    | some k => (match P.get s k with | .ok (s', v) => fin s' s!"ret {v}" | .error e => err e)
    | none => (s, "bad-op")
  | ["del", k] => match k.toNat? with
    | some k => (match P.del s k with | .ok s' => fin s' "ok" | .error e => err e)
    | none => (s, "bad-op")
  | ["has", k] => match k.toNat? with
    | some k => (match contains P s k with | .ok (s', b) => fin s' s!"ret {if b then 1 else 0}" | .error e => err e)
    | none => (s, "bad-op")
  | ["len"] => fin s s!"ret {P.len s}"
  | ["iter"] => fin s s!"list {showNats (P.keys s)}"
  | ["keys"] => fin s s!"list {showNats (P.keys s)}"
  | ["values"] => (match items P s with | .ok (s', its) => fin s' s!"list {showNats (its.map (·.2))}" | .error e => err e)
  | ["items"] => (match items P s with | .ok (s', its) => fin s' s!"pairs {showPairs its}" | .error e => err e)
  | ["getd", k] => match k.toNat? with
    | some k => (match getD P s k with
      | .ok (s', some v) => fin s' s!"ret {v}"
      | .ok (s', none) => fin s' "ret -"
      | .error e => err e)
    | none => (s, "bad-op")
  | ["pop", k] => match k.toNat? with
    | some k => (match pop P s k with | .ok (s', v) => fin s' s!"ret {v}" | .error e => err e)
    | none => (s, "bad-op")
  | ["popitem"] => (match popitem P s with | .ok (s', k, v) => fin s' s!"pairs {k}:{v}" | .error e => err e)
  | ["clear"] => (match clear P s with | .ok s' => fin s' "ok" | .error e => err e)
  | "update" :: r => match parsePairs r with
    | some ps => (match update P s ps with | .ok s' => fin s' "ok" | .error e => err e)
    | none => (s, "bad-op")
  | ["setdefault", k, v] => match k.toNat?, v.toNat? with
    | some k, some v => (match setdefault P s k v with | .ok (s', w) => fin s' s!"ret {w}" | .error e => err e)
    | _, _ => (s, "bad-op")
  | "eq" :: r => match parsePairs r with
    | some ps => (match eqDict P s ps with | .ok (s', b) => fin s' s!"ret {if b then 1 else 0}" | .error e => err e)
    | none => (s, "bad-op")
  | _ => (s, "bad-op")

def lruMachine : Machine := { σ := Lru, init := Lru.new 1, step := cacheStep lruPrim Lru.new lruDigest }
def lfuMachine : Machine := { σ := Lfu, init := Lfu.new 1, step := cacheStep lfuPrim Lfu.new lfuDigest }

end WindVerif.Drv
