import WindVerif.Model.Buffers
import WindVerif.Model.BuffersFail
import WindVerif.Model.RingSeq
import WindVerif.Drv.Common
namespace WindVerif.Drv
open WindVerif.Buffers

def bufErr : Buffers.Err → String
  | .attributeError => "AttributeError"
  | .indexError => "IndexError"

def bufStep (b : Buf) (ws : List String) : Buf × String :=
  match ws with
  | ["put", i, x] => match i.toNat?, x.toNat? with
    | some i, some x => (match b.put i x with | .ok b' => (b', "ok") | .error e => (b, s!"err {bufErr e}"))
    | _, _ => (b, "bad-op")
  | ["drain"] => let (b', out) := b.drain; (b', "list " ++ showNats out)
  | ["flush"] => (b.flush, "ok")
  | ["wf"] => (b, s!"ret {b.wf}")
  | ["len"] => (b, s!"ret {b.len}")
  | _ => (b, "bad-op")

/-- `PrintBuffer` with a stream that can be told to fail: the model state and the (absolute) numbers of the value-write
attempts that fail.  Without `failat` the stream never fails and the machine is the old one (`C15.agrees_when_ok`). -/
structure PDrv where
  st    : PBufF
  fails : List Nat

def PDrv.ok (d : PDrv) : Nat → Bool := fun n => !(d.fails.contains n)

def pbufStep (d : PDrv) (ws : List String) : PDrv × String :=
  match ws with
  | ["print", i, x] => match i.toNat?, x.toNat? with
    | some i, some x =>
      let (s', r) := d.st.printF d.ok i x
      ({ d with st := s' }, match r with
        | .ok true => "ret 1"
        | .ok false => "ret 0"
        | .error _ => "err OSError")
    | _, _ => (d, "bad-op")
  | ["flush"] =>
    let (s', r) := d.st.flushF d.ok
    ({ d with st := s' }, match r with
      | .ok _ => "ok"
      | .error _ => "err OSError")
  | ["clear"] => ({ d with st := d.st.clear }, "ok")
  -- `failat k`: of the value writes attempted from now on, number `k` (counted from 0: `failat 0` = the very next one) fails, once
  | ["failat", k] => match k.toNat? with
    | some k => ({ d with fails := (d.st.att + k) :: d.fails }, "ok")
    | none => (d, "bad-op")
  | ["wf"] => (d, s!"ret {d.st.wf}")
  | ["len"] => (d, s!"ret {d.st.len}")
  | ["out"] => (d, "list " ++ showNats d.st.out)
  | ["att"] => (d, s!"ret {d.st.att}")
  | _ => (d, "bad-op")

def seqErr : SeqErr → String
  | .indexError => "IndexError"
  | .valueError => "ValueError"

/-- an optional integer argument: `-` = not given -/
def parseOptInt (w : String) : Option (Option Int) :=
  if w = "-" then some none else (w.toInt?).map some

def ringIndexAnswer (r : Ring) (v : String) (start stop : String) : Ring × String :=
  match v.toNat?, parseOptInt start, parseOptInt stop with
  | some v, some a, some b =>
    (match ringIndex r v a b with | .ok i => (r, s!"ret {i}") | .error e => (r, s!"err {seqErr e}"))
  | _, _, _ => (r, "bad-op")

def ringStep (r : Ring) (ws : List String) : Ring × String :=
  match ws with
  | ["new", c] => match c.toNat? with
    | some c => if c > 0 then (Ring.new c, "ok") else (r, "bad-op")
    | none => (r, "bad-op")
  | ["put", x] => match x.toNat? with
    | some x => (r.put x, "ok")
    | none => (r, "bad-op")
  | ["clear"] => (r.clear, "ok")
  | ["get", i] => match i.toInt? with
    | some i => (match r.get i with | .ok x => (r, s!"ret {x}") | .error e => (r, s!"err {bufErr e}"))
    | none => (r, "bad-op")
  | ["len"] => (r, s!"ret {r.size}")
  | ["list"] => (r, "list " ++ showNats r.toList)
  -- the `Sequence` mixins
  | ["index", v] => ringIndexAnswer r v "-" "-"
  | ["index", v, a] => ringIndexAnswer r v a "-"
  | ["index", v, a, b] => ringIndexAnswer r v a b
  | ["count", v] => match v.toNat? with
    | some v => (r, s!"ret {ringCount r v}")
    | none => (r, "bad-op")
  | ["has", v] => match v.toNat? with
    | some v => (r, s!"ret {if ringContains r v then 1 else 0}")
    | none => (r, "bad-op")
  | ["rev"] => (match ringReversed r with
    | .ok l => (r, "list " ++ showNats l)
    | .error e => (r, s!"err {seqErr e}"))
  | ["iter"] => (r, "list " ++ showNats (ringIter r))
  | _ => (r, "bad-op")

def bufMachine : Machine := { σ := Buf, init := Buf.empty, step := bufStep }
def pbufMachine : Machine := { σ := PDrv, init := ⟨PBufF.empty, []⟩, step := pbufStep }
def ringMachine : Machine := { σ := Ring, init := Ring.new 1, step := ringStep }

end WindVerif.Drv
