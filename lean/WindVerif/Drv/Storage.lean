import WindVerif.Model.Storage
import WindVerif.Drv.Common
import WindVerif.Drv.Sorted
namespace WindVerif.Drv
open WindVerif.Storage

def stTexts (l : List (Option Nat)) : String := joinWith "+" ((l.filterMap id).map (fun t => s!"T{t}"))

def stRes : Res → String
  | .ok => "ok"
  | .text l => "text:" ++ stTexts l
  | .nat n => s!"nat:{n}"
  | .bool b => if b then "bool:1" else "bool:0"
  | .texts ls => "texts:" ++ joinWith "," (ls.map stTexts)
  | .indexError => "IndexError"
  | .valueError => "ValueError"

def stDescribe (s : Storage.St) (p : Proc) : String :=
  let w := p.ident.getD 0
  match p.pc with
  | .idle => "idle"
  | .oAcq | .sAcq | .gAcq | .iAcq | .fAcq => "lock.acquire"
  | .oRel | .sRel | .sRelErr | .gRel | .gRelErr | .iRel | .fRel => "lock.release"
  | .oPathsLen => s!"paths.len {s.paths.length}"
  | .oPathsAppend => s!"paths.append {p.tmp}"
  | .oOpenW => s!"open {w} w"
  | .oPathsGet => s!"paths.getitem {w}"
  | .oOpenA => s!"open {w} a"
  | .sIdxLen1 | .sIdxLen2 | .gIdxLen | .iIdxLen => s!"index.len {s.index.length}"
  | .sIdxExtend => s!"index.extend {p.tmp}"
  | .sIdxGet | .gIdxGet => s!"index.getitem {p.gid} " ++ (match s.index[p.gid]? with
      | some (some (a, b)) => s!"{a}:{b}" | _ => "None")
  | .sTell => s!"tell {((fileOf s w).getD []).length}"
  | .sWriteText => s!"write T{p.text}"
  | .sWriteNl => "write NL"
  | .sFlush => "flush"
  | .sIdxSet => s!"index.setitem {p.gid} {w}:{p.off}"
  | .sCntRead | .sLoopCnt | .lCnt | .cCnt => s!"cnt.read {s.cnt}"
  | .sCntWrite => s!"cnt.write {p.tmp + 1}"
  | .sWfRead1 | .sWfRead2 | .sLoopWf | .sLoopWf2 | .sLoopWfR | .cWf => s!"wf.read {s.wf}"
  | .sWfWrite1 | .sLoopWfW => s!"wf.write {p.tmp + 1}"
  | .sLoopIdx => s!"index.getitem {p.tmp} " ++ (match s.index[p.tmp]? with
      | some (some (a, b)) => s!"{a}:{b}" | _ => "None")
  | .gPathsGet => s!"paths.getitem {p.target}"
  | .gOpenR => s!"open {p.target} r"
  | .gSeek => s!"seek {p.off}"
  | .gReadline => "readline " ++ stTexts (readlineAt ((fileOf s p.target).getD []) p.off)
  | .fPathsGet => s!"paths.getitem {p.tmp}" ++ (if p.tmp < s.paths.length then "" else " IndexError")
  | .fRemove => s!"remove {((s.paths[p.tmp]?).getD none).getD 0}"
  | .fPathsClear => "paths.clear"
  | .fIdxClear => "index.clear"
  | .fCntZero => "cnt.write 0"
  | .fWfZero => "wf.write 0"
  | .xClose => "close"

def stDigest (s : Storage.St) : String :=
  let idx := joinWith "," (s.index.map (fun e => match e with | some (a, b) => s!"{a}:{b}" | none => "-"))
  let files := joinWith ";" ((s.files.mergeSort (fun a b => a.1 ≤ b.1)).map (fun f =>
    s!"{f.1}=" ++ joinWith "" (f.2.map (fun x => match x with | some t => s!"T{t}" | none => "/"))))
  s!"idx:{idx}|cnt:{s.cnt}|wf:{s.wf}|lock:{match s.lock with | some h => toString h | none => "-"}|files:{files}"

def parseOps : List String → Option (List Op)
  | [] => some []
  | "store" :: g :: t :: r => match g.toNat?, t.toNat?, parseOps r with
    | some g, some t, some l => some (.store g t :: l)
    | _, _, _ => none
  | "read" :: g :: r => match g.toNat?, parseOps r with
    | some g, some l => some (.read g :: l)
    | _, _ => none
  | "len" :: r => (parseOps r).map (Op.len :: ·)
  | "contig" :: r => (parseOps r).map (Op.contig :: ·)
  | "iter" :: r => (parseOps r).map (Op.iter :: ·)
  | "flush" :: r => (parseOps r).map (Op.flush :: ·)
  | "close" :: r => (parseOps r).map (Op.close :: ·)
  | _ => none

def splitOnBar (ws : List String) : List (List String) :=
  ws.foldr (fun w acc => if w = "|" then [] :: acc else match acc with
    | [] => [[w]]
    | h :: t => (w :: h) :: t) [[]]

def storageStep (s : Storage.St) (ws : List String) : Storage.St × String :=
  match ws with
  | "cfg" :: pre :: rest => match pre.toNat? with
    | none => (s, "bad-op")
    | some pre =>
      let scripts := (splitOnBar rest).map parseOps
      if scripts.all (·.isSome) then (start (Storage.init pre (scripts.map (·.getD []))), "ok") else (s, "bad-op")
  | ["step", i] => match i.toNat? with
    | none => (s, "bad-op")
    | some i => (match getProc s i, Storage.step s i with
      | some p, some s' =>
        (s', s!"P{i} {stDescribe s p} # {stDigest s'} # en:" ++ joinWith "," ((Storage.enabled s').map (fun j => s!"P{j}")))
      | _, _ => (s, s!"P{i} not-enabled"))
  | ["explore", w] => match w.toNat? with
    | some limit => (s, exploreGraph Storage.step (fun x => List.range x.procs.length) (fun x => toString (repr x))
                          (fun j => s!"P{j}") s limit)
    | none => (s, "bad-op")
  | ["final"] =>
    (s, "results:" ++ joinWith "|" (s.procs.map (fun p => joinWith "," (p.results.map stRes))) ++ " # " ++ stDigest s)
  | _ => (s, "bad-op")

def storageMachine : Machine := { σ := Storage.St, init := Storage.init 0 [], step := storageStep }

end WindVerif.Drv
