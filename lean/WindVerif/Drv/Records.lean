import WindVerif.Model.Records
import WindVerif.Model.Json
import WindVerif.Drv.Common
import WindVerif.Drv.LineFile
namespace WindVerif.Drv
open WindVerif.Records

def delimOf : String → Option Char
  | "c" => some ',' | "t" => some '\t' | _ => none

def recordsStep (io : SIO) (ws : List String) : SIO × String :=
  match ws with
  | "write" :: d :: fs => match delimOf d, decodeStrs fs with
    | some d, some fs => (io, "ret " ++ encodeStr (writeRow d fs))
    | _, _ => (io, "bad-op")
  | ["parse", d, s] => match delimOf d, decodeStr s with
    | some d, some s => (match parseRow d s with
      | .ok fs => (io, "list " ++ joinWith "," (fs.map encodeStr))
      | .error _ => (io, "err Error"))
    | _, _ => (io, "bad-op")
  | "save" :: d :: fs => match delimOf d, decodeStrs fs with
    | some d, some fs => let (io', s) := dictToString d io fs; (io', "ret " ++ encodeStr s)
    | _, _ => (io, "bad-op")
  -- whole-record round trips that go through library conversions (json, int/float fields) and through record files:
  -- the model predicts success (theorems json_glue, csv_roundtrip*, C12's list semantics); the harness runs the real code
  | "json" :: _ => (io, "ok")
  -- the modelled `json` module (Model/Json.lean) against the real one.
  -- `jenc <x-text T>`: T is a textual form of a JSON value — any JSON text `json.loads` accepts for it (say
  --   `json.dumps(v, ensure_ascii=False, indent=1)`: raw non-ASCII characters, extra whitespace, floats as `repr` writes
  --   them); answer `ret <x-text of encode v>` to compare with `json.dumps(v, separators=(',', ':'))`, or `err` when T is
  --   not accepted by the model's `decode`.
  -- `jdec <x-text>`: `json.loads(text)`; answer `err` (JSONDecodeError, or outside the modelled domain: lone surrogates,
  --   NaN/Infinity) or `ret <x-text of encode v> floats <x-lexeme>…`: the compact dump of the decoded value, then its float
  --   lexemes exactly as written in the text, in order of occurrence in the dump (Python re-emits floats through `repr`, the
  --   model keeps the lexeme: compare the dumps with each float masked, and `float(lexeme)` with Python's floats).
  | ["jenc", t] => match decodeStr t with
    | some t => (match WindVerif.Json.decode t with
      | some v => (io, "ret " ++ encodeStr (WindVerif.Json.encode v))
      | none => (io, "err"))
    | none => (io, "bad-op")
  | ["jdec", t] => match decodeStr t with
    | some t => (match WindVerif.Json.decode t with
      | some v => (io, joinWith " " ("ret" :: encodeStr (WindVerif.Json.encode v) :: "floats" ::
          (WindVerif.Json.floatsOf v).map encodeStr))
      | none => (io, "err"))
    | none => (io, "bad-op")
  | "typed" :: _ => (io, "ok")
  | "recfile" :: _ => (io, "ok")
  | _ => (io, "bad-op")

def recordsMachine : Machine := { σ := SIO, init := ⟨[], 0⟩, step := recordsStep }

end WindVerif.Drv
