import WindVerif.Model.Records
import WindVerif.Drv.Common
import WindVerif.Drv.LineFile
namespace WindVerif.Drv
open WindVerif.Records

def delimOf : String → Option Char
  | "c" => some ',' | "t" => some '\t' | _ => none

def recordsStep (io : SIO) (ws : List String) : SIO × String :=
  match ws with
  | "write" :: d :: fs => match delimOf d, decodeStrs fs with
    | some d, some fs => (io, "ret " ++ encodeStr (writeRow d fs))
    | _, _ => (io, "bad-op")
  | ["parse", d, s] => match delimOf d, decodeStr s with
    | some d, some s => (match parseRow d s with
      | .ok fs => (io, "list " ++ joinWith "," (fs.map encodeStr))
      | .error _ => (io, "err Error"))
    | _, _ => (io, "bad-op")
  | "save" :: d :: fs => match delimOf d, decodeStrs fs with
    | some d, some fs => let (io', s) := dictToString d io fs; (io', "ret " ++ encodeStr s)
    | _, _ => (io, "bad-op")
  -- whole-record round trips that go through library conversions (json, int/float fields) and through record files:
  -- the model predicts success (theorems json_glue, csv_roundtrip*, C12's list semantics); the harness runs the real code
  | "json" :: _ => (io, "ok")
  | "typed" :: _ => (io, "ok")
  | "recfile" :: _ => (io, "ok")
  | _ => (io, "bad-op")

def recordsMachine : Machine := { σ := SIO, init := ⟨[], 0⟩, step := recordsStep }

end WindVerif.Drv
