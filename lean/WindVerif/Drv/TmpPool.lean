import WindVerif.Model.TmpPool
import WindVerif.Model.TmpPoolCtx
import WindVerif.Model.TmpPoolRefuse
import WindVerif.Model.FilePoolFail
import WindVerif.Drv.Common
namespace WindVerif.Drv
open WindVerif.TmpPool

def tpErr : TmpPool.Err → String
  | .valueError => "ValueError"
  | .badProcess => "BadProcess"

structure TPState where
  pool : Pool
  fp   : FilePoolFail.FP   -- FilePool: the model with files that cannot be opened (`Model/FilePoolFail.lean`)
  last : List Nat           -- FilePool: the handles the last successful `fp_enter` put into the mapping, one per given path
  prot : List Path := []    -- TmpPool: paths whose removal the OS refuses for now (`Model/TmpPoolRefuse.lean`)

def bit (b : Bool) : String := if b then "1" else "0"

/-- ` leaked:…` (one entry per handle leaked since `fp_new`, in the order they were leaked; 1 = still open); nothing when no
handle was leaked, so that the answers of histories without failures are the old ones -/
def fpLeaked (fp : FilePoolFail.FP) : String :=
  if fp.leaked.isEmpty then "" else " leaked:" ++ joinWith "," (fp.leaked.map (fun ph => bit (fp.openH.contains ph.2)))

def fpHandles (fp : FilePoolFail.FP) : String := if fp.mapping.isNone then " handles:none" else " handles:some"

/-- `fp_exit` / `fp_raise`: `__exit__` is `close()` in both cases -/
def fpExitStep (st : TPState) : TPState × String :=
  match FilePoolFail.fpExit st.fp with
  | (fp, .ok _) =>
    ({ st with fp := fp }, "closed:" ++ joinWith "," (st.last.map (fun h => bit (!fp.openH.contains h))) ++ fpHandles fp ++
      fpLeaked fp)
  | (fp, .error _) => ({ st with fp := fp }, "err AttributeError" ++ fpHandles fp ++ fpLeaked fp)

def tpDump (s : Pool) : String :=
  s!"L:{showNats ((s.listOf 0).getD [])} D:{showNats s.fs}"

def tmppoolStep (st : TPState) (ws : List String) : TPState × String :=
  let s := st.pool
  let fin (s' : Pool) (r : String) : TPState × String := ({ st with pool := s' }, r ++ " " ++ tpDump s')
  match ws with
  | ["new"] => ({ st with pool := Pool.new, prot := [] }, "ok " ++ tpDump Pool.new)
  | ["create", pid] => match pid.toNat? with
    | some pid => (match s.create pid with | .ok (s', p) => fin s' s!"ret {p}" | .error e => fin s s!"err {tpErr e}")
    | none => (st, "bad-op")
  | ["remove", pid, p] => match pid.toNat?, p.toNat? with
    | some pid, some p =>
      -- a refused `os.remove` (only after `protect`): nothing changes (`removeR_refused_iff`); otherwise the old answers
      -- (`removeR_not_refused`): the file is gone even when the list operation raises
      (match (TmpPoolRefuse.removeR ⟨s, st.prot⟩ pid p).2 with
        | .refused => fin s "err PermissionError"
        | _ =>
          match s.remove pid p with
          | .ok s' => fin s' "ok"
          | .error e => fin { s with fs := s.fs.filter (· ≠ p) } s!"err {tpErr e}")
    | _, _ => (st, "bad-op")
  | ["flush", pid] => match pid.toNat? with
    | some pid => flushStep pid
    | none => (st, "bad-op")
  | ["fork", pid] => match pid.toNat? with
    | some pid => (match s.fork pid with | .ok (s', c) => fin s' s!"ret {c}" | .error e => fin s s!"err {tpErr e}")
    | none => (st, "bad-op")
  | ["unlink", p] => match p.toNat? with
    | some p => fin (s.unlink p) "ok"
    | none => (st, "bad-op")
  -- `enter mp` (`mp` = 0/1: the pool's `multi_proc`): `__enter__` as a step (`Model/TmpPoolCtx.lean`); `enter_fresh`: the
  -- `__enter__` before the repair D21 (the new manager list is empty)
  | ["enter", mp] => match mp.toNat? with
    | some 0 => fin (TmpPoolCtx.enter false s) "ok"
    | some 1 => fin (TmpPoolCtx.enter true s) "ok"
    | _ => (st, "bad-op")
  | ["enter_fresh", mp] => match mp.toNat? with
    | some 0 => fin (TmpPoolCtx.enterFresh false s) "ok"
    | some 1 => fin (TmpPoolCtx.enterFresh true s) "ok"
    | _ => (st, "bad-op")
  | ["exit"] => flushStep 0
  | ["raise"] => flushStep 0
  -- `protect p`: from now on the OS refuses to remove `p` (read-only directory); `unprotect_all`: removals are allowed again
  | ["protect", p] => match p.toNat? with
    | some p => ({ st with prot := (TmpPoolRefuse.protect ⟨s, st.prot⟩ p).prot }, "ok " ++ tpDump s)
    | none => (st, "bad-op")
  | ["unprotect_all"] => ({ st with prot := (TmpPoolRefuse.unprotectAll ⟨s, st.prot⟩).prot }, "ok " ++ tpDump s)
  -- the seeded variant of `remove` (unlist first, then unlink), for the search
  | ["remove_unlist_first", pid, p] => match pid.toNat?, p.toNat? with
    | some pid, some p =>
      (match TmpPoolRefuse.removeUnlistFirst ⟨s, st.prot⟩ pid p with
        | (s', .ok) => fin s'.pool "ok"
        | (s', .refused) => fin s'.pool "err PermissionError"
        | (s', .valueError) => fin s'.pool "err ValueError"
        | (s', .badProcess) => fin s'.pool "err BadProcess")
    | _, _ => (st, "bad-op")
  | "fp_new" :: fs => match parseNatsTP fs with
    | some l => ({ st with fp := FilePoolFail.FP.new l [], last := [] }, "ok")
    | none => (st, "bad-op")
  -- `fp_missing k…`: from now on exactly these paths do not exist (handles that are open stay open)
  | "fp_missing" :: ks => match parseNatsTP ks with
    | some l => ({ st with fp := { st.fp with missing := l } }, "ok")
    | none => (st, "bad-op")
  | ["fp_create", k] => match k.toNat? with
    | some k => ({ st with fp := FilePoolFail.fpCreate st.fp k }, "ok")
    | none => (st, "bad-op")
  | ["fp_enter"] =>
    (match FilePoolFail.fpEnter st.fp with
    | (fp, .ok _) =>
      let d := fp.mapping.getD []
      let hs := fp.files.filterMap (fun p => FilePoolFail.dictGet d p)
      ({ st with fp := fp, last := hs }, "open:" ++ joinWith "," (hs.map (fun h => bit (fp.openH.contains h))) ++ fpLeaked fp)
    | (fp, .error _) => ({ st with fp := fp }, "err FileNotFoundError" ++ fpHandles fp ++ fpLeaked fp))
  | ["fp_exit"] => fpExitStep st
  | ["fp_raise"] => fpExitStep st
  | _ => (st, "bad-op")
where
  /-- `flush()` by `pid` (`exit` / `raise`: by the owner): refused at the first protected existing file — the files before it are
  gone, the list is as it was (`flush_refused_keeps_list`); otherwise the old answers (`flushR_ok`, `flushR_not_refused`) -/
  flushStep (pid : Nat) : TPState × String :=
    let s := st.pool
    let fin (s' : Pool) (r : String) : TPState × String := ({ st with pool := s' }, r ++ " " ++ tpDump s')
    match TmpPoolRefuse.flushR ⟨s, st.prot⟩ pid with
    | (s', .refused) => fin s'.pool "err PermissionError"
    | _ => (match s.flush pid with | .ok s' => fin s' "ok" | .error e => fin s s!"err {tpErr e}")
  parseNatsTP : List String → Option (List Nat)
    | [] => some []
    | w :: r => match w.toNat?, parseNatsTP r with
      | some i, some l => some (i :: l)
      | _, _ => none

def tmppoolMachine : Machine := { σ := TPState, init := ⟨Pool.new, FilePoolFail.FP.new [] [], [], []⟩, step := tmppoolStep }

end WindVerif.Drv
