import WindVerif.Model.TmpPool
import WindVerif.Drv.Common
namespace WindVerif.Drv
open WindVerif.TmpPool

def tpErr : TmpPool.Err → String
  | .valueError => "ValueError"
  | .badProcess => "BadProcess"

structure TPState where
  pool : Pool
  fp   : FPool

def tpDump (s : Pool) : String :=
  s!"L:{showNats ((s.listOf 0).getD [])} D:{showNats s.fs}"

def tmppoolStep (st : TPState) (ws : List String) : TPState × String :=
  let s := st.pool
  let fin (s' : Pool) (r : String) : TPState × String := ({ st with pool := s' }, r ++ " " ++ tpDump s')
  match ws with
  | ["new"] => fin Pool.new "ok"
  | ["create", pid] => match pid.toNat? with
    | some pid => (match s.create pid with | .ok (s', p) => fin s' s!"ret {p}" | .error e => fin s s!"err {tpErr e}")
    | none => (st, "bad-op")
  | ["remove", pid, p] => match pid.toNat?, p.toNat? with
    | some pid, some p =>
      -- the file is gone even when the list operation raises
      (match s.remove pid p with
        | .ok s' => fin s' "ok"
        | .error e => fin { s with fs := s.fs.filter (· ≠ p) } s!"err {tpErr e}")
    | _, _ => (st, "bad-op")
  | ["flush", pid] => match pid.toNat? with
    | some pid => (match s.flush pid with | .ok s' => fin s' "ok" | .error e => fin s s!"err {tpErr e}")
    | none => (st, "bad-op")
  | ["fork", pid] => match pid.toNat? with
    | some pid => (match s.fork pid with | .ok (s', c) => fin s' s!"ret {c}" | .error e => fin s s!"err {tpErr e}")
    | none => (st, "bad-op")
  | ["unlink", p] => match p.toNat? with
    | some p => fin (s.unlink p) "ok"
    | none => (st, "bad-op")
  | ["exit"] => (match s.exit with | .ok s' => fin s' "ok" | .error e => fin s s!"err {tpErr e}")
  | ["raise"] => (match s.exit with | .ok s' => fin s' "ok" | .error e => fin s s!"err {tpErr e}")
  | "fp_new" :: fs => match parseNatsTP fs with
    | some l => ({ st with fp := FPool.new l }, "ok")
    | none => (st, "bad-op")
  | ["fp_enter"] =>
    let fp := st.fp.open
    ({ st with fp := fp }, "open:" ++ showNats ((fp.handles.getD []).map (fun b => if b then 1 else 0)))
  | ["fp_exit"] =>
    let fp := st.fp.close
    ({ st with fp := fp }, "closed:" ++ showNats (fp.closedLog.map (fun b => if b then 0 else 1)) ++
      (if fp.handles.isNone then " handles:none" else " handles:some"))
  | ["fp_raise"] =>
    let fp := st.fp.close
    ({ st with fp := fp }, "closed:" ++ showNats (fp.closedLog.map (fun b => if b then 0 else 1)) ++
      (if fp.handles.isNone then " handles:none" else " handles:some"))
  | _ => (st, "bad-op")
where
  parseNatsTP : List String → Option (List Nat)
    | [] => some []
    | w :: r => match w.toNat?, parseNatsTP r with
      | some i, some l => some (i :: l)
      | _, _ => none

def tmppoolMachine : Machine := { σ := TPState, init := ⟨Pool.new, FPool.new []⟩, step := tmppoolStep }

end WindVerif.Drv
