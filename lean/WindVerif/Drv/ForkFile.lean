import WindVerif.Model.ForkFile
import WindVerif.Drv.Common
namespace WindVerif.Drv
open WindVerif.ForkFile

def forkfileStep (s : ForkFile.St) (ws : List String) : ForkFile.St × String :=
  let go (a : Act) : ForkFile.St × String :=
    match ForkFile.step s a with
    | none => (s, "err")
    | some (s', none) => (s', "ok")
    | some (s', some l) => (s', s!"ret {l}")
  match ws with
  | ["fork", i] => (match i.toNat? with | some i => go (.fork i) | none => (s, "bad-op"))
  | ["seek", i, n] => (match i.toNat?, n.toNat? with | some i, some n => go (.seek i n) | _, _ => (s, "bad-op"))
  | ["read", i] => (match i.toNat? with | some i => go (.read i) | none => (s, "bad-op"))
  | _ => (s, "bad-op")

def forkfileMachine : Machine := { σ := ForkFile.St, init := ForkFile.init, step := forkfileStep }

end WindVerif.Drv
