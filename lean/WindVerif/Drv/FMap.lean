import WindVerif.Model.FMap
import WindVerif.Drv.Common
import WindVerif.Drv.Sorted
namespace WindVerif.Drv
open WindVerif.FMap

def fmTid : FMap.Tid → String
  | .p => "P" | .w i => s!"W{i}"

def fmParseTid (w : String) : Option FMap.Tid :=
  if w = "P" then some .p else if w.startsWith "W" then ((w.drop 1).toString.toNat?).map FMap.Tid.w else none

def fmItem : Option Nat → String
  | none => "None" | some i => s!"c{i}"

def fmDescribe (s : FMap.St) : FMap.Tid → String
  | .p => match s.ppc with
    | .start i => s!"start W{s.base + i}"
    | .put => s!"workQ.put c{s.next}"
    | .nowait => "resQ.get_nowait " ++ (match s.resQ with | [] => "Empty" | i :: _ => s!"c{i}")
    | .stopPut _ => "workQ.put None"
    | .finalGet => "resQ.get " ++ (match s.resQ with | [] => "?" | i :: _ => s!"c{i}")
    | .join i => s!"join W{s.base + i}"
    | .done => "done"
  | .w wid => match FMap.getWorker s wid with
    | none => "none"
    | some w => match w.pc with
      | .notStarted => "notStarted" | .exited => "exited"
      | .get => "workQ.get " ++ (match s.workQ with | [] => "?" | x :: _ => fmItem x)
      | .put => "resQ.put " ++ fmItem w.held

def fmDigest (s : FMap.St) : String :=
  s!"wq:{joinWith "," (s.workQ.map fmItem)}|rq:{joinWith "," (s.resQ.map (fun i => s!"c{i}"))}"

def fmapStep (s : FMap.St) (ws : List String) : FMap.St × String :=
  match ws with
  | "cfg" :: n :: cap :: mulp :: calls => match n.toNat?, cap.toNat?, parseNats calls with
    | some n, some cap, some calls => (FMap.init ⟨n, cap, mulp == "1", calls, false⟩, "ok")
    | _, _, _ => (s, "bad-op")
  | "cfgx" :: n :: cap :: mulp :: calls => match n.toNat?, cap.toNat?, parseNats calls with
    -- the caller closes the generator at the last item of every call (`exact`)
    | some n, some cap, some calls => (FMap.init ⟨n, cap, mulp == "1", calls, true⟩, "ok")
    | _, _, _ => (s, "bad-op")
  | ["step", t] => match fmParseTid t with
    | none => (s, "bad-op")
    | some t => (match FMap.step s t with
      | none => (s, s!"{fmTid t} not-enabled ({fmDescribe s t})")
      | some s' =>
        let en := joinWith "," ((FMap.enabledTids s').map fmTid)
        (s', s!"{fmTid t} {fmDescribe s t} # {fmDigest s'} # en:{en}"))
  | ["explore", w] => match w.toNat? with
    | some limit => (s, exploreGraph FMap.step FMap.allTids (fun x => toString (repr x)) fmTid s limit)
    | none => (s, "bad-op")
  | ["enabled"] => (s, "en:" ++ joinWith "," ((FMap.enabledTids s).map fmTid))
  | ["final"] =>
    (s, "out:" ++ joinWith "," (s.out.map (fun p => s!"{p.1}:{p.2}")) ++ s!" final:{if s.ppc == .done then 1 else 0}" ++
      " running:" ++ joinWith "," ((s.workers.filter (fun w => w.pc != .exited)).map (fun w => toString w.wid)))
  | _ => (s, "bad-op")

def fmapMachine : Machine := { σ := FMap.St, init := FMap.init ⟨1, 1, false, [], false⟩, step := fmapStep }

end WindVerif.Drv
