import WindVerif.Model.Sorted
import WindVerif.Model.SortedMixins
import WindVerif.Drv.Common
namespace WindVerif.Drv
open WindVerif.Sorted

def sortedErr : Sorted.Err → String
  | .keyError => "KeyError"
  | .typeError => "TypeError"
  | .indexError => "IndexError"

def parseInts : List String → Option (List Int)
  | [] => some []
  | w :: r => match w.toInt?, parseInts r with
    | some i, some l => some (i :: l)
    | _, _ => none

def parseNats : List String → Option (List Nat)
  | [] => some []
  | w :: r => match w.toNat?, parseNats r with
    | some i, some l => some (i :: l)
    | _, _ => none

def parseIntNatPairs : List String → Option (List (Int × Nat))
  | [] => some []
  | [_] => none
  | a :: b :: r => match a.toInt?, b.toNat?, parseIntNatPairs r with
    | some x, some y, some l => some ((x, y) :: l)
    | _, _, _ => none

def parseProbe (w : String) : Option Probe :=
  if w = "f" then some .foreign else (w.toInt?).map .num

def ssetStep (s : List Int) (ws : List String) : List Int × String :=
  let fin (s' : List Int) (r : String) : List Int × String := (s', r ++ " L:" ++ showInts s')
  match ws with
  | "init" :: r => match parseInts r with
    | some l => fin (setInit l) "ok"
    | none => (s, "bad-op")
  | ["add", w] => match w.toInt? with
    | some v => fin (setAdd s v) "ok"
    | none => (s, "bad-op")
  | ["discard", w] => match w.toInt? with
    | some v => fin (setDiscard s v) "ok"
    | none => (s, "bad-op")
  | ["remove", w] => match w.toInt? with
    | some v => (match setRemove s v with | .ok s' => fin s' "ok" | .error e => fin s s!"err {sortedErr e}")
    | none => (s, "bad-op")
  | ["pop"] => (match setPop s with | .ok (s', v) => fin s' s!"ret {v}" | .error e => fin s s!"err {sortedErr e}")
  | ["has", w] => match parseProbe w with
    | some p => fin s s!"ret {if setContains s p then 1 else 0}"
    | none => (s, "bad-op")
  | ["len"] => fin s s!"ret {s.length}"
  | ["clear"] => fin (setClear (s.length + 1) s) "ok"
  -- the `Set` / `MutableSet` mixins; the operand is a builtin set given by its elements (duplicate free)
  | "le" :: r => match parseInts r with
    | some t => fin s s!"ret {if setLe s t then 1 else 0}"
    | none => (s, "bad-op")
  | "eq" :: r => match parseInts r with
    | some t => fin s s!"ret {if setEq s t then 1 else 0}"
    | none => (s, "bad-op")
  | "disjoint" :: r => match parseInts r with
    | some t => fin s s!"ret {if setIsDisjoint s t then 1 else 0}"
    | none => (s, "bad-op")
  | "and" :: r => match parseInts r with
    | some t => fin s ("list " ++ showInts (setAnd s t))
    | none => (s, "bad-op")
  | "or" :: r => match parseInts r with
    | some t => fin s ("list " ++ showInts (setOr s t))
    | none => (s, "bad-op")
  | "sub" :: r => match parseInts r with
    | some t => fin s ("list " ++ showInts (setSub s t))
    | none => (s, "bad-op")
  | "xor" :: r => match parseInts r with
    | some t => fin s ("list " ++ showInts (setXor s t))
    | none => (s, "bad-op")
  | "ior" :: r => match parseInts r with
    | some t => fin (setIor s t) "ok"
    | none => (s, "bad-op")
  | "iand" :: r => match parseInts r with
    | some t => fin (setIand s t) "ok"
    | none => (s, "bad-op")
  | "isub" :: r => match parseInts r with
    | some t => fin (setIsub s t) "ok"
    | none => (s, "bad-op")
  | "ixor" :: r => match parseInts r with
    | some t => fin (setIxor s t) "ok"
    | none => (s, "bad-op")
  | _ => (s, "bad-op")

def smapDump (m : SMap) : String := s!"K:{showInts m.keys} V:{showNats m.vals}"

def smapStep (m : SMap) (ws : List String) : SMap × String :=
  let fin (m' : SMap) (r : String) : SMap × String := (m', r ++ " " ++ smapDump m')
  match ws with
  | "init" :: r => match parseIntNatPairs r with
    | some l => fin (mapInit l) "ok"
    | none => (m, "bad-op")
  | ["get", w] => match parseProbe w with
    | some p => (match mapGet m p with | .ok v => fin m s!"ret {v}" | .error e => fin m s!"err {sortedErr e}")
    | none => (m, "bad-op")
  | ["has", w] => match parseProbe w with
    | some p => fin m s!"ret {if mapContains m p then 1 else 0}"
    | none => (m, "bad-op")
  | ["set", k, v] => match k.toInt?, v.toNat? with
    | some k, some v => fin (mapSet m k v) "ok"
    | _, _ => if k = "f" then fin m "err TypeError" else (m, "bad-op")
  | ["del", w] => match parseProbe w with
    | some p => (match mapDel m p with | .ok m' => fin m' "ok" | .error e => fin m s!"err {sortedErr e}")
    | none => (m, "bad-op")
  | ["pop", w] => match parseProbe w with
    | some p => (match mapPop m p with | .ok (m', v) => fin m' s!"ret {v}" | .error e => fin m s!"err {sortedErr e}")
    | none => (m, "bad-op")
  | ["popitem"] => (match mapPopitem m with
    | .ok (m', k, v) => fin m' s!"ret {k}:{v}"
    | .error e => fin m s!"err {sortedErr e}")
  | ["setdefault", k, v] => match k.toInt?, v.toNat? with
    | some k, some v => let (m', w) := mapSetdefault m k v; fin m' s!"ret {w}"
    | _, _ => (m, "bad-op")
  | "update" :: r => match parseIntNatPairs r with
    | some l => fin (mapUpdate m l) "ok"
    | none => (m, "bad-op")
  | ["len"] => fin m s!"ret {m.keys.length}"
  | ["items"] => fin m ("ret " ++ joinWith "," ((mapItems m).map (fun p => s!"{p.1}:{p.2}")))
  -- the `Mapping` / `MutableMapping` mixins and the views
  | ["getd", w, d] => match parseProbe w, d.toNat? with
    | some p, some d => fin m s!"ret {mapGetD m p d}"
    | _, _ => (m, "bad-op")
  | ["popd", w, d] => match parseProbe w, d.toNat? with
    | some p, some d => let (m', v) := mapPopD m p d; fin m' s!"ret {v}"
    | _, _ => (m, "bad-op")
  | ["haskey", w] => match parseProbe w with
    | some p => fin m s!"ret {if mapKeysContains m p then 1 else 0}"
    | none => (m, "bad-op")
  | ["hasitem", w, v] => match parseProbe w, v.toNat? with
    | some p, some v => fin m s!"ret {if mapItemsContains m p v then 1 else 0}"
    | _, _ => (m, "bad-op")
  | ["hasvalue", v] => match v.toNat? with
    | some v => fin m s!"ret {if mapValuesContains m v then 1 else 0}"
    | none => (m, "bad-op")
  | "eq" :: r => match parseIntNatPairs r with
    | some l => fin m s!"ret {if mapEq m l then 1 else 0}"
    | none => (m, "bad-op")
  | ["clear"] => fin (mapClear (m.keys.length + 1) m) "ok"
  | _ => (m, "bad-op")

def ssetMachine : Machine := { σ := List Int, init := [], step := ssetStep }
def smapMachine : Machine := { σ := SMap, init := ⟨[], []⟩, step := smapStep }

end WindVerif.Drv
