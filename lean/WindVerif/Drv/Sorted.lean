import WindVerif.Model.Sorted
import WindVerif.Drv.Common
namespace WindVerif.Drv
open WindVerif.Sorted

def sortedErr : Sorted.Err → String
  | .keyError => "KeyError"
  | .typeError => "TypeError"
  | .indexError => "IndexError"

def parseInts : List String → Option (List Int)
  | [] => some []
  | w :: r => match w.toInt?, parseInts r with
    | some i, some l => some (i :: l)
    | _, _ => none

def parseNats : List String → Option (List Nat)
  | [] => some []
  | w :: r => match w.toNat?, parseNats r with
    | some i, some l => some (i :: l)
    | _, _ => none

def parseIntNatPairs : List String → Option (List (Int × Nat))
  | [] => some []
  | [_] => none
  | a :: b :: r => match a.toInt?, b.toNat?, parseIntNatPairs r with
    | some x, some y, some l => some ((x, y) :: l)
    | _, _, _ => none

def parseProbe (w : String) : Option Probe :=
  if w = "f" then some .foreign else (w.toInt?).map .num

def ssetStep (s : List Int) (ws : List String) : List Int × String :=
  let fin (s' : List Int) (r : String) : List Int × String := (s', r ++ " L:" ++ showInts s')
  match ws with
  | "init" :: r => match parseInts r with
    | some l => fin (setInit l) "ok"
    | none => (s, "bad-op")
  | ["add", w] => match w.toInt? with
    | some v => fin (setAdd s v) "ok"
    | none => (s, "bad-op")
  | ["discard", w] => match w.toInt? with
    | some v => fin (setDiscard s v) "ok"
    | none => (s, "bad-op")
  | ["remove", w] => match w.toInt? with
    | some v => (match setRemove s v with | .ok s' => fin s' "ok" | .error e => fin s s!"err {sortedErr e}")
    | none => (s, "bad-op")
  | ["pop"] => (match setPop s with | .ok (s', v) => fin s' s!"ret {v}" | .error e => fin s s!"err {sortedErr e}")
  | ["has", w] => match parseProbe w with
    | some p => fin s s!"ret {if setContains s p then 1 else 0}"
    | none => (s, "bad-op")
  | ["len"] => fin s s!"ret {s.length}"
  | ["clear"] => fin (setClear (s.length + 1) s) "ok"
  | _ => (s, "bad-op")

def smapDump (m : SMap) : String := s!"K:{showInts m.keys} V:{showNats m.vals}"

def smapStep (m : SMap) (ws : List String) : SMap × String :=
  let fin (m' : SMap) (r : String) : SMap × String := (m', r ++ " " ++ smapDump m')
  match ws with
  | "init" :: r => match parseIntNatPairs r with
    | some l => fin (mapInit l) "ok"
    | none => (m, "bad-op")
  | ["get", w] => match parseProbe w with
    | some p => (match mapGet m p with | .ok v => fin m s!"ret {v}" | .error e => fin m s!"err {sortedErr e}")
    | none => (m, "bad-op")
  | ["has", w] => match parseProbe w with
    | some p => fin m s!"ret {if mapContains m p then 1 else 0}"
    | none => (m, "bad-op")
  | ["set", k, v] => match k.toInt?, v.toNat? with
    | some k, some v => fin (mapSet m k v) "ok"
    | _, _ => if k = "f" then fin m "err TypeError" else (m, "bad-op")
  | ["del", w] => match parseProbe w with
    | some p => (match mapDel m p with | .ok m' => fin m' "ok" | .error e => fin m s!"err {sortedErr e}")
    | none => (m, "bad-op")
  | ["pop", w] => match parseProbe w with
    | some p => (match mapPop m p with | .ok (m', v) => fin m' s!"ret {v}" | .error e => fin m s!"err {sortedErr e}")
    | none => (m, "bad-op")
  | ["popitem"] => (match mapPopitem m with
    | .ok (m', k, v) => fin m' s!"ret {k}:{v}"
    | .error e => fin m s!"err {sortedErr e}")
  | ["setdefault", k, v] => match k.toInt?, v.toNat? with
    | some k, some v => let (m', w) := mapSetdefault m k v; fin m' s!"ret {w}"
    | _, _ => (m, "bad-op")
  | "update" :: r => match parseIntNatPairs r with
    | some l => fin (mapUpdate m l) "ok"
    | none => (m, "bad-op")
  | ["len"] => fin m s!"ret {m.keys.length}"
  | ["items"] => fin m ("ret " ++ joinWith "," ((mapItems m).map (fun p => s!"{p.1}:{p.2}")))
  | _ => (m, "bad-op")

def ssetMachine : Machine := { σ := List Int, init := [], step := ssetStep }
def smapMachine : Machine := { σ := SMap, init := ⟨[], []⟩, step := smapStep }

end WindVerif.Drv
