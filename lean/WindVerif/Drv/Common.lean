import Std.Data.HashMap
/- Line protocol shared by all model drivers: one op per input line, one canonical line out. -/
namespace WindVerif.Drv

structure Machine where
  σ    : Type
  init : σ
  step : σ → List String → σ × String

def words (line : String) : List String :=
  (line.splitOn " ").filter (· ≠ "")

def showOpt (o : Option Nat) : String :=
  match o with
  | none => "-"
  | some n => toString n

def joinWith (sep : String) (l : List String) : String := sep.intercalate l

def showNats (l : List Nat) : String := joinWith "," (l.map toString)
def showInts (l : List Int) : String := joinWith "," (l.map toString)

/-- decode `x<hex>.<hex>…` (code points) into a string; `x` alone is the empty string -/
def hexVal (c : Char) : Option Nat :=
  if '0' ≤ c ∧ c ≤ '9' then some (c.toNat - '0'.toNat)
  else if 'a' ≤ c ∧ c ≤ 'f' then some (c.toNat - 'a'.toNat + 10)
  else none

def parseHex (s : String) : Option Nat :=
  if s.isEmpty then none else
  s.toList.foldl (fun acc c => match acc, hexVal c with
    | some a, some v => some (a * 16 + v)
    | _, _ => none) (some 0)

def decodeStr (w : String) : Option (List Char) :=
  if !w.startsWith "x" then none else
  let body := (w.drop 1).toString
  if body.isEmpty then some [] else
  (body.splitOn ".").foldr (fun h acc => match parseHex h, acc with
    | some n, some l => some (Char.ofNat n :: l)
    | _, _ => none) (some [])

def hexDigit (n : Nat) : Char :=
  if n < 10 then Char.ofNat ('0'.toNat + n) else Char.ofNat ('a'.toNat + n - 10)

partial def toHex (n : Nat) : String :=
  if n < 16 then String.singleton (hexDigit n) else toHex (n / 16) ++ String.singleton (hexDigit (n % 16))

def encodeStr (l : List Char) : String :=
  "x" ++ joinWith "." (l.map (fun c => toHex c.toNat))

/-- breadth-first exploration of the reachable states of an interleaving model (used by the harness to drive the real
code through *every reachable transition* of a small configuration): states are identified by `key`, at most `limit` states
are expanded; result: number of states, whether the exploration is complete, and the edges `src:thread:dst` -/
partial def exploreGraph {σ τ : Type} (step : σ → τ → Option σ) (tids : σ → List τ) (key : σ → String) (tname : τ → String)
    (s0 : σ) (limit : Nat) : String := Id.run do
  let mut states : Array σ := #[s0]
  let mut index : Std.HashMap String Nat := (∅ : Std.HashMap String Nat).insert (key s0) 0
  let mut edges : Array String := #[]
  let mut next := 0
  while next < states.size && next < limit do
    let s := states.getD next s0
    for t in tids s do
      match step s t with
      | none => pure ()
      | some s' =>
        let k := key s'
        match index.get? k with
        | some j => edges := edges.push s!"{next}:{tname t}:{j}"
        | none =>
          let j := states.size
          states := states.push s'
          index := index.insert k j
          edges := edges.push s!"{next}:{tname t}:{j}"
    next := next + 1
  let complete := if next == states.size then 1 else 0
  return s!"graph states={states.size} expanded={next} complete={complete} edges=" ++ joinWith "," edges.toList

partial def loop (m : Machine) (h : IO.FS.Stream) (out : IO.FS.Stream) (s : m.σ) : IO Unit := do
  let line ← h.getLine
  if line.isEmpty then return ()
  let ws := words (line.trimAscii.toString)
  match ws with
  | ["reset"] =>
    out.putStrLn "reset"
    out.flush
    loop m h out m.init
  | _ =>
    let (s', o) := m.step s ws
    out.putStrLn o
    out.flush
    loop m h out s'

end WindVerif.Drv
