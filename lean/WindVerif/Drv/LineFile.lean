import WindVerif.Model.LineFile
import WindVerif.Model.LineFileSeq
import WindVerif.Drv.Common
import WindVerif.Drv.Sorted
namespace WindVerif.Drv
open WindVerif.LineFile

def lfErr : LineFile.Err → String
  | .indexError => "IndexError"
  | .runtimeError => "RuntimeError"
  | .valueError => "ValueError"
  | .typeError => "TypeError"

structure LFState where
  f     : LF
  iters : List Iter

def showStrs (l : List Str) : String := joinWith "," (l.map encodeStr)

def optInt (w : String) : Option (Option Int) :=
  if w = "-" then some none else (w.toInt?).map some

def decodeStrs : List String → Option (List Str)
  | [] => some []
  | w :: r => match decodeStr w, decodeStrs r with
    | some s, some l => some (s :: l)
    | _, _ => none

def lfStep (st : LFState) (ws : List String) : LFState × String :=
  let f := st.f
  let okf (f' : LF) (r : String) : LFState × String := ({ st with f := f' }, r)
  let err (e : LineFile.Err) : LFState × String := (st, s!"err {lfErr e}")
  match ws with
  | "new" :: c :: rest => match decodeStr c with
    | none => (st, "bad-op")
    | some content =>
      (match rest with
      | ["built"] => (⟨LF.new content none, []⟩, "ok")
      | "list" :: os => (match parseNats os with
        | some l => (⟨LF.new content (some l), []⟩, "ok")
        | none => (st, "bad-op"))
      | _ => (st, "bad-op"))
  | ["open"] => okf f.open "ok"
  | ["close"] => okf f.close "ok"
  | ["len"] => (st, s!"ret {f.lines.length}")
  | ["get", i] => match i.toInt? with
    | some i => (match f.getInt i with | .ok (f', s) => okf f' ("ret " ++ encodeStr s) | .error e => err e)
    | none => (st, "bad-op")
  | ["slice", a, b, c] => match optInt a, optInt b, optInt c with
    | some a, some b, some c => (match f.getSlice ⟨a, b, c⟩ with
      | .ok (f', l) => okf f' ("list " ++ showStrs l)
      | .error e => err e)
    | _, _, _ => (st, "bad-op")
  | "sel" :: is => match parseInts is with
    | some l => (match f.getIter l with | .ok (f', r) => okf f' ("list " ++ showStrs r) | .error e => err e)
    | none => (st, "bad-op")
  | ["iter_new"] => ({ st with iters := st.iters ++ [Iter.new] }, s!"ret {st.iters.length}")
  | ["iter_next", k] => match k.toNat? with
    | some k => (match st.iters[k]? with
      | none => (st, "bad-op")
      | some it => (match f.iterNext it with
        | .ok (f', it', some s) => ({ f := f', iters := st.iters.set k it' }, "ret " ++ encodeStr s)
        | .ok (f', it', none) => ({ f := f', iters := st.iters.set k it' }, "stop")
        | .error e => err e))
    | none => (st, "bad-op")
  | ["set", i, s] => match i.toInt?, decodeStr s with
    | some i, some s => (match f.setItem i s with | .ok f' => okf f' "ok" | .error e => err e)
    | _, _ => (st, "bad-op")
  | ["del", i] => match i.toInt? with
    | some i => (match f.delItem i with | .ok f' => okf f' "ok" | .error e => err e)
    | none => (st, "bad-op")
  | ["insert", i, s] => match i.toInt?, decodeStr s with
    | some i, some s => okf (f.insert i s) "ok"
    | _, _ => (st, "bad-op")
  | ["append", s] => match decodeStr s with
    | some s => okf (f.append s) "ok"
    | none => (st, "bad-op")
  | "extend" :: ss => match decodeStrs ss with
    | some l => okf (f.extend l) "ok"
    | none => (st, "bad-op")
  | "iadd" :: ss => match decodeStrs ss with
    | some l => okf (f.extend l) "ok"
    | none => (st, "bad-op")
  | ["pop", i] => match i.toInt? with
    | some i => (match f.pop i with | .ok (f', s) => okf f' ("ret " ++ encodeStr s) | .error e => err e)
    | none => (st, "bad-op")
  | ["remove", s] => match decodeStr s with
    | some s => (match f.remove s with | .ok f' => okf f' "ok" | .error e => err e)
    | none => (st, "bad-op")
  | ["reverse"] => (match f.reverse with | .ok f' => okf f' "ok" | .error e => err e)
  -- the inherited `Sequence` / `MutableSequence` methods (`Model/LineFileSeq.lean`)
  | "index" :: s :: bounds => match decodeStr s, (match bounds with
      | [] => some (none, none)
      | [a] => (optInt a).map (fun a => (a, none))
      | [a, b] => (match optInt a, optInt b with | some a, some b => some (a, b) | _, _ => none)
      | _ => none) with
    | some s, some (a, b) => (match lfIndex f s a b with | .ok (f', i) => okf f' s!"ret {i}" | .error e => err e)
    | _, _ => (st, "bad-op")
  | ["count", s] => match decodeStr s with
    | some s => (match lfCount f s with | .ok (f', n) => okf f' s!"ret {n}" | .error e => err e)
    | none => (st, "bad-op")
  | ["has", s] => match decodeStr s with
    | some s => (match lfContains f s with
      | .ok (f', b) => okf f' (if b then "ret 1" else "ret 0")
      | .error e => err e)
    | none => (st, "bad-op")
  | ["rev"] => (match lfReversed f with | .ok (f', l) => okf f' ("list " ++ showStrs l) | .error e => err e)
  | ["clear"] => (match f.clear with | .ok f' => okf f' "ok" | .error e => err e)
  | ["dirty"] => (st, if f.dirty then "ret 1" else "ret 0")
  | ["lines"] => (match f.view with | .ok (f', l) => okf f' ("list " ++ showStrs l) | .error e => err e)
  | ["save", le] => match decodeStr le with
    | some le => (match f.save le with | .ok (f', out) => okf f' ("ret " ++ encodeStr out) | .error e => err e)
    | none => (st, "bad-op")
  | _ => (st, "bad-op")

def linefileMachine : Machine :=
  { σ := LFState, init := ⟨LF.new [] none, []⟩, step := lfStep }

end WindVerif.Drv
