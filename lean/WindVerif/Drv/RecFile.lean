import WindVerif.Model.RecFile
import WindVerif.Model.RecFileSeq
import WindVerif.Drv.Common
import WindVerif.Drv.LineFile
/-
Driver of the mutable record file model (`Model/RecFile.lean`) for `CSVRecord` classes with `k` fields of type `str`,
delimiter `','`.  Strings travel as in the other drivers (`decodeStr` / `encodeStr` of `Drv/Common.lean`: `x<hex>.<hex>…`,
`x` alone = the empty string; `-` is accepted for the empty string as well).

  fields <k>            number of fields of the record class (initially 2); answer `ok`
  new <line> …          a source file with these lines (no `'\n'` inside a line); answer `ok`
  open <content>        a source file with these characters, indexed and read as the real class does; answer `ok`
  len                   `ret <n>`
  get <i>               `ret <f1>,<f2>,…` | `err IndexError` | `err Error` (csv.Error) | `err TypeError` (too few fields)
  set <i> <f1> … <fk>   `ok` | `err IndexError`
  insert <i> <f1> … <fk>, append <f1> … <fk>     `ok`
  del <i>               `ok` | `err IndexError`
  pop [<i>]             `ret <f1>,…` | `err …` as `get`
  reverse               `ok` | `err …` (the swaps made before the exception stay)
  recs                  `list <rec>|<rec>|…`, a record as `<f1>,<f2>,…`, `?` for a position that does not load
  slots                 `list` of `s<i>` (untouched source line i) / `t<text>` (stored text), `,` between
  save <ending>         `ret <text of the saved file>`
The inherited `Sequence` / `MutableSequence` methods (`Model/RecFileSeq.lean`; records are compared, not texts):
  index <f1> … <fk> [@ <start>|- [<stop>|-]]    `ret <i>` | `err ValueError` | `err Error` / `err TypeError` (the first
                        position read that does not load, as `get`); `-` = the bound is omitted
  count <f1> … <fk>     `ret <n>` | load errors as `get`
  has <f1> … <fk>       `ret 0` | `ret 1` | load errors as `get`
  remove <f1> … <fk>    `ok` | `err ValueError` | load errors as `get`
  clear                 `ok` | load errors as `get` (the positions before the one that does not load stay)
A record with a number of fields other than `k`, and anything unknown or malformed → `bad-op`.
-/
namespace WindVerif.Drv
open WindVerif.RecFile

structure RFState where
  k : Nat
  f : RecFile

def rfField (w : String) : Option (List Char) := if w = "-" then some [] else decodeStr w

def rfFields : List String → Option (List (List Char))
  | [] => some []
  | w :: r => match rfField w, rfFields r with
    | some s, some l => some (s :: l)
    | _, _ => none

def rfShowRec (r : List (List Char)) : String := joinWith "," (r.map encodeStr)

/-- the exception `CSVRecord.load` raises for the text of a position that does not load -/
def rfLoadErr (text : List Char) : String :=
  match WindVerif.Records.parseRow ',' text with
  | .error _ => "err Error"
  | .ok _ => "err TypeError"

/-- the exception of a failed access to `f[i]` -/
def rfErr (f : RecFile) (i : Int) : RecFile.Err → String
  | .indexError => "err IndexError"
  | .loadError => match Py.index f.slots.length i with
    | some p => (match f.slots[p]? with | some s => rfLoadErr (f.raw s) | none => "err IndexError")
    | none => "err IndexError"

/-- the exception that ended `reverse`: the first position (in the order of the accesses) that does not load -/
def rfReverseErr (F : Fmt (List (List Char))) (f : RecFile) : String :=
  let n := f.slots.length
  let order := (List.range (n / 2)).flatMap (fun i => [n - i - 1, i])
  match order.find? (fun p => match f.slots[p]? with | some s => (F.load (f.raw s)).isNone | none => false) with
  | some p => (match f.slots[p]? with | some s => rfLoadErr (f.raw s) | none => "err IndexError")
  | none => "err IndexError"

/-- the exception of an inherited method -/
def rfSeqErr (f : RecFile) : RecFile.SeqErr → String
  | .valueError => "err ValueError"
  | .indexError => "err IndexError"
  | .loadError p => rfErr f (p : Int) .loadError

/-- `<f1> … <fk> [@ <start>|- [<stop>|-]]` -/
def rfIndexArgs (ws : List String) : Option (List (List Char) × Option Int × Option Int) :=
  let fs := ws.takeWhile (· ≠ "@")
  let rest := ws.dropWhile (· ≠ "@")
  match rfFields fs with
  | none => none
  | some r =>
    match rest with
    | [] => some (r, none, none)
    | [_, a] => (optInt a).map (fun a => (r, a, none))
    | [_, a, b] => (match optInt a, optInt b with | some a, some b => some (r, a, b) | _, _ => none)
    | _ => none

def rfStep (st : RFState) (ws : List String) : RFState × String :=
  let f := st.f
  let F := csvFmt ',' st.k
  let okf (f' : RecFile) (r : String) : RFState × String := ({ st with f := f' }, r)
  match ws with
  | ["fields", k] => match k.toNat? with
    | some k => ({ st with k := k }, "ok")
    | none => (st, "bad-op")
  | "new" :: ls => match rfFields ls with
    | some ls => if ls.any (fun l => l.contains '\n') then (st, "bad-op") else okf (RecFile.open ls) "ok"
    | none => (st, "bad-op")
  | ["open", c] => match rfField c with
    | some c => okf (RecFile.ofContent c) "ok"
    | none => (st, "bad-op")
  | ["len"] => (st, s!"ret {f.slots.length}")
  | ["get", i] => match i.toInt? with
    | some i => (match f.getRec F i with
      | .ok r => (st, "ret " ++ rfShowRec r)
      | .error e => (st, rfErr f i e))
    | none => (st, "bad-op")
  | "set" :: i :: fs => match i.toInt?, rfFields fs with
    | some i, some r => if r.length ≠ st.k then (st, "bad-op") else
      (match f.setRec F i r with
      | .ok f' => okf f' "ok"
      | .error e => (st, rfErr f i e))
    | _, _ => (st, "bad-op")
  | "insert" :: i :: fs => match i.toInt?, rfFields fs with
    | some i, some r => if r.length ≠ st.k then (st, "bad-op") else okf (f.insertRec F i r) "ok"
    | _, _ => (st, "bad-op")
  | "append" :: fs => match rfFields fs with
    | some r => if r.length ≠ st.k then (st, "bad-op") else okf (f.appendRec F r) "ok"
    | none => (st, "bad-op")
  | ["del", i] => match i.toInt? with
    | some i => (match f.delRec i with
      | .ok f' => okf f' "ok"
      | .error e => (st, rfErr f i e))
    | none => (st, "bad-op")
  | ["pop"] => (match f.popRec F (-1) with
    | .ok (r, f') => okf f' ("ret " ++ rfShowRec r)
    | .error e => (st, rfErr f (-1) e))
  | ["pop", i] => match i.toInt? with
    | some i => (match f.popRec F i with
      | .ok (r, f') => okf f' ("ret " ++ rfShowRec r)
      | .error e => (st, rfErr f i e))
    | none => (st, "bad-op")
  | ["reverse"] => (match f.reverse F with
    | (f', none) => okf f' "ok"
    | (f', some .indexError) => okf f' "err IndexError"
    | (f', some .loadError) => okf f' (rfReverseErr F f'))
  | "index" :: args => match rfIndexArgs args with
    | some (r, a, b) => if r.length ≠ st.k then (st, "bad-op") else
      (match f.indexRec F r a b with
      | .ok i => (st, s!"ret {i}")
      | .error e => (st, rfSeqErr f e))
    | none => (st, "bad-op")
  | "count" :: fs => match rfFields fs with
    | some r => if r.length ≠ st.k then (st, "bad-op") else
      (match f.countRec F r with
      | .ok n => (st, s!"ret {n}")
      | .error e => (st, rfSeqErr f e))
    | none => (st, "bad-op")
  | "has" :: fs => match rfFields fs with
    | some r => if r.length ≠ st.k then (st, "bad-op") else
      (match f.containsRec F r with
      | .ok b => (st, if b then "ret 1" else "ret 0")
      | .error e => (st, rfSeqErr f e))
    | none => (st, "bad-op")
  | "remove" :: fs => match rfFields fs with
    | some r => if r.length ≠ st.k then (st, "bad-op") else
      (match f.removeRec F r with
      | .ok f' => okf f' "ok"
      | .error e => (st, rfSeqErr f e))
    | none => (st, "bad-op")
  | ["clear"] => (match f.clearRec F with
    | (f', none) => okf f' "ok"
    | (f', some e) => okf f' (rfErr f' (-1) e))
  | ["recs"] => (st, "list " ++ joinWith "|" ((f.records F).map (fun x => match x with
      | some r => rfShowRec r
      | none => "?")))
  | ["slots"] => (st, "list " ++ joinWith "," (f.slots.map (fun s => match s with
      | .src i => s!"s{i}"
      | .txt t => "t" ++ encodeStr t)))
  | ["save", e] => match rfField e with
    | some e => (st, "ret " ++ encodeStr (f.saveText e))
    | none => (st, "bad-op")
  | _ => (st, "bad-op")

def recfileMachine : Machine :=
  { σ := RFState, init := ⟨2, RecFile.open []⟩, step := rfStep }

end WindVerif.Drv
