import WindVerif.Spec.Pool
import WindVerif.Drv.Common
import WindVerif.Drv.Sorted
namespace WindVerif.Drv
open WindVerif.Pool

def showItem (tag : String) : Option Nat → String
  | none => "None"
  | some i => tag ++ toString i

def b01s (b : Bool) : String := if b then "1" else "0"

def tidName : Tid → String
  | .c => "C" | .f => "F" | .r => "R" | .w i => s!"W{i}"

def parseTid (w : String) : Option Tid :=
  if w = "C" then some .c else if w = "F" then some .f else if w = "R" then some .r
  else if w.startsWith "W" then ((w.drop 1).toString.toNat?).map Tid.w else none

/-- label and result of the visible operation thread `t` is about to perform (from the pre-state) -/
def describe (s : St) : Tid → String
  | .c => match s.cpc with
    | .enterStart i => s!"start W{(s.procs[i]?).getD 0}"
    | .readyWait i => s!"W{(s.procs[i]?).getD 0}.begin_finished.wait"
    | .nextCall => "nextCall"
    | .rInitSet => "R.run_event.set"
    | .rStart => "start R"
    | .fInitSet => "F.run_event.set"
    | .wrSending => "sending.write 1"
    | .wrDataCnt => "dataCnt.write 0"
    | .fStart => "start F"
    | .rdSending => s!"sending.read {b01s s.sending}"
    | .rdDataCnt => s!"dataCnt.read {s.dataCnt}"
    | .qsize1 => s!"resQ.qsize {s.resQ.length}"
    | .qsize2 => s!"resQ.qsize {s.resQ.length}"
    | .lockAcq => "lock.acquire"
    | .getNowait => "resQ.get_nowait " ++ (match s.resQ with | [] => "Empty" | x :: _ => showItem "c" x)
    | .lockRel => "lock.release"
    | .getBlock => "resQ.get " ++ (match s.resQ with | [] => "?" | x :: _ => showItem "c" x)
    | .flowClear => "F.run_event.clear"
    | .flowIsSet => s!"F.run_event.is_set {b01s s.fRun}"
    | .flowSet => "F.run_event.set"
    | .fStopSet => "F.stop_event.set"
    | .fJoin => "join F"
    | .rPutNone => "replQ.put None"
    | .rStopSet => "R.stop_event.set"
    | .rJoin => "join R"
    | .exitPut _ => if capFull s.cfg.workCap s.workQ then "workQ.put Full" else "workQ.put None"
    | .exitJoin i => s!"join W{(s.procs[i]?).getD 0}"
    | .midReady _ wid => s!"W{wid}.begin_finished.wait"
    | .done => "done"
  | .f => match s.fpc with
    | .idle => "idle"
    | .put => s!"workQ.put c{s.fNext}"
    | .rdCnt => s!"dataCnt.read {s.dataCnt}"
    | .wrCnt => s!"dataCnt.write {s.fRead + 1}"
    | .stopIsSet => s!"F.stop_event.is_set {b01s s.fStop}"
    | .runWait => "F.run_event.wait"
    | .wrSending => "sending.write 0"
    | .token => "resQ.put_nowait " ++ (if capFull s.cfg.resCap s.resQ then "Full" else "None")
  | .r => match s.rpc with
    | .idle => "idle"
    | .get => "replQ.get " ++ (match s.replQ with | [] => "?" | x :: _ => showItem "" x)
    | .join wid => s!"join W{wid}"
    | .start nw => s!"start W{nw}"
  | .w wid => match getWorker s wid with
    | none => "none"
    | some w => match w.pc with
      | .notStarted => "notStarted"
      | .exited => "exited"
      | .bfClear => s!"W{wid}.begin_finished.clear"
      | .bfSet => s!"W{wid}.begin_finished.set"
      | .get => "workQ.get " ++ (match s.workQ with | [] => "?" | x :: _ => showItem "c" x)
      | .lockAcq => "lock.acquire"
      | .putNowait => "resQ.put_nowait " ++ (if capFull s.cfg.resCap s.resQ then "Full" else showItem "c" w.held)
      | .lockRel => "lock.release"
      | .putBlock => "resQ.put " ++ showItem "c" w.held
      | .retire => s!"replQ.put {wid}"
      | .ending => s!"end W{wid}"

def poolDigest (s : St) : String :=
  let q (tag : String) (l : List (Option Nat)) := joinWith "," (l.map (showItem tag))
  s!"wq:{q "c" s.workQ}|rq:{q "c" s.resQ}|pq:{q "" s.replQ}"

def showEv : WEv → String
  | .begin => "b" | .item i => s!"i{i}" | .end_ => "e"

def poolFinal (s : St) : String :=
  let out := joinWith "," (s.out.map (fun p => s!"{p.1}:{p.2}"))
  let logs := joinWith ";" (s.workers.map (fun w => s!"{w.wid}=" ++ joinWith "." (w.log.map showEv) ++
    (if w.crashed then "!" else "") ++ (if w.pc == .exited then "" else "~")))
  s!"out:{out} logs:{logs} procs:{showNats s.procs} final:{if s.cpc == .done then 1 else 0}"

def optNat (w : String) : Option (Option Nat) := if w = "-" then some none else (w.toNat?).map some

def parseCalls : List String → Option (List Call)
  | [] => some []
  | w :: r => match (w.splitOn ":"), parseCalls r with
    | [n, o], some l => (n.toNat?).map (fun n => ⟨n, o == "1"⟩ :: l)
    | _, _ => none

def parsePairsColon : List String → Option (List (Nat × Nat))
  | [] => some []
  | w :: r => match (w.splitOn ":"), parsePairsColon r with
    | [a, b], some l => (match a.toNat?, b.toNat? with
      | some a, some b => some ((a, b) :: l)
      | _, _ => none)
    | _, _ => none

def sectionOf (ws : List String) (name : String) : List String :=
  ((ws.dropWhile (· ≠ name)).drop 1).takeWhile (fun w => !(w.endsWith ":"))

def poolStep (s : St) (ws : List String) : St × String :=
  match ws with
  | "cfg" :: n :: wc :: rc :: fac :: quota :: ready :: rest0 =>
    -- optional token `rm:1` anywhere after the fixed fields: `until_all_ready()` in the middle of every call (`Cfg.readyMid`)
    let rm := rest0.contains "rm:1"
    -- optional token `jt:1`: the pool has a finite `join_timeout` (`Cfg.joinTimeout`)
    let jt := rest0.contains "jt:1"
    let rest := rest0.filter (fun w => !(w.startsWith "rm:") && !(w.startsWith "jt:"))
    match n.toNat?, optNat wc, optNat rc, optNat quota, parseCalls (sectionOf rest "calls:"),
          parseNats (sectionOf rest "bf:"), parsePairsColon (sectionOf rest "if:") with
    | some n, some wc, some rc, some quota, some calls, some bf, some itf =>
      let cfg : Cfg := { nWorkers := n, workCap := wc, resCap := rc, factory := fac == "1", quota := quota,
                         waitReady := ready == "1", calls := calls, beginFault := bf, itemFault := itf, readyMid := rm,
                         joinTimeout := jt }
      (init cfg, "ok")
    | _, _, _, _, _, _, _ => (s, "bad-op")
  | ["step", t] => match parseTid t with
    | none => (s, "bad-op")
    | some t =>
      (match step s t with
      | none => (s, s!"{tidName t} not-enabled ({describe s t})")
      | some s' =>
        let en := joinWith "," ((enabledTids s').map tidName)
        (s', s!"{tidName t} {describe s t} # {poolDigest s'} # en:{en}"))
  | ["explore", w] => match w.toNat? with
    | some limit => (s, exploreGraph step allTids (fun x => toString (repr x)) tidName s limit)
    | none => (s, "bad-op")
  | ["enabled"] => (s, "en:" ++ joinWith "," ((enabledTids s).map tidName))
  | ["final"] => (s, poolFinal s)
  | ["inv"] => (s, "inv:" ++ joinWith "," (safeCheck s))
  | ["life"] => (s, "life:" ++ joinWith "," (lifeCheckAll s))
  | ["live"] => (s, "live:" ++ joinWith "," (liveCheck s ++ (if stuck s then ["STUCK"] else [])))
  | _ => (s, "bad-op")

def poolMachine : Machine :=
  { σ := St, init := init ⟨1, none, none, false, none, false, [], [], [], false, false⟩, step := poolStep }

end WindVerif.Drv
