-- root of the library: every finished property module (built by MANIFEST.setup_cmd)
import WindVerif.Props.C08
