-- root of the library: every finished property module (built by MANIFEST.setup_cmd)
import WindVerif.Props.C06
import WindVerif.Props.C07
import WindVerif.Props.C08
import WindVerif.Props.C09
import WindVerif.Props.C10
import WindVerif.Props.C16
import WindVerif.Props.C15
import WindVerif.Props.C17
import WindVerif.Props.C19
import WindVerif.Props.C11
import WindVerif.Props.C12
import WindVerif.Props.C13
import WindVerif.Props.C20
import WindVerif.Props.C04
import WindVerif.Props.C18
