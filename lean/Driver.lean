import WindVerif.Drv.Common
import WindVerif.Drv.Dll
import WindVerif.Drv.Cache
import WindVerif.Drv.Sorted
import WindVerif.Drv.SpanSet
import WindVerif.Drv.Buffers
import WindVerif.Drv.Generic
import WindVerif.Drv.LineFile
import WindVerif.Drv.Records
import WindVerif.Drv.TmpPool
import WindVerif.Drv.Pool
import WindVerif.Drv.FMap
import WindVerif.Drv.Storage
import WindVerif.Drv.StorageSeq
import WindVerif.Drv.ForkFile
import WindVerif.Drv.RecFile
open WindVerif.Drv

def machines : List (String × Machine) := [
  ("dll", dllMachine),
  ("lru", lruMachine),
  ("lfu", lfuMachine),
  ("sset", ssetMachine),
  ("smap", smapMachine),
  ("spanset", spansetMachine),
  ("imap", imapMachine),
  ("buf", bufMachine),
  ("pbuf", pbufMachine),
  ("ring", ringMachine),
  ("generic", genericMachine),
  ("linefile", linefileMachine),
  ("records", recordsMachine),
  ("tmppool", tmppoolMachine),
  ("pool", poolMachine),
  ("fmap", fmapMachine),
  ("storage", storageMachine),
  ("storageseq", storageseqMachine),
  ("forkfile", forkfileMachine),
  ("recfile", recfileMachine)
]

def main (args : List String) : IO UInt32 := do
  match args with
  | [name] =>
    match machines.lookup name with
    | some m =>
      let i ← IO.getStdin
      let o ← IO.getStdout
      loop m i o m.init
      return 0
    | none => IO.eprintln s!"unknown model {name}"; return 2
  | _ => IO.eprintln "usage: driver <model>"; return 2
